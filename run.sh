#!/bin/sh
# ./run.sh <Cnn> <quick|thorough>   — the only entry point MANIFEST.json registers.
# Rebuilds the harness (and with it both compiler crates, which are path dependencies on /repo's working tree)
# and runs one property check. Exit 0 = held, 1 = VIOLATION line(s) printed, 2 = machinery could not run.
set -u
ID="${1:?property id}"
TIER="${2:-quick}"
ROOT="$(cd "$(dirname "$0")" && pwd)"
export CARGO_NET_OFFLINE=true
export GEV_VERIF="$ROOT"
cd "$ROOT/harness" || exit 2
if ! cargo build --release --quiet 2>"$ROOT/harness/build.log"; then
  echo "gev: harness build failed (see harness/build.log)" >&2
  tail -n 30 "$ROOT/harness/build.log" >&2
  exit 2
fi
cd "$ROOT" || exit 2
exec "$ROOT/harness/target/release/gev" check "$ID" --tier "$TIER"
