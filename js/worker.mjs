// Node-side worker of the gev harness. One JSON request per stdin line, one JSON response per stdout line.
// Pure function of the request: no clock, no RNG, no state kept between requests except module caches.
import readline from 'node:readline'
import vm from 'node:vm'
import * as stub from './stub_dom.mjs'
import { deepEq, show } from './deep_eq.mjs'
import { refRender, makePool, evalData } from './ref_render.mjs'

const REPO = process.env.GEV_REPO || '/repo'
const { ProcGenWrapper } = await import(`${REPO}/glass-easel/src/tmpl/proc_gen_wrapper.ts`)

const { GlassEaselTemplateEngine } = await import(`${REPO}/glass-easel/src/tmpl/index.ts`)

// ---------------------------------------------------------------------------------------------
// instantiate generated code on the stub DOM

function loadBundle(bundleJs) {
  // get_tmpl_gen_object_groups() yields an expression `(()=>{...; return G})()`
  // eslint-disable-next-line no-new-func
  return new Function('return ' + bundleJs)()
}

function installRecorders(w) {
  const rec = (e) => e.rec
  w.c = (e, v) => { rec(e).c = v }
  w.y = (e, v) => { rec(e).y = v }
  w.i = (e, v) => { rec(e).i = v }
  w.s = (e, v) => { e.slot = v; rec(e).sset = true }
  w.d = (e, n, v) => { rec(e).d[n] = v }
  w.m = (e, n, v) => { rec(e).m[n] = v }
  w.r = function (e, n, v, mp, gp) {
    rec(e).r[n] = { v, mp, gp, argc: arguments.length }
  }
  w.v = function (e, ev, v, final, mutated, capture, isDynamic, gp) {
    const key = `${ev}|${final ? 1 : 0}${mutated ? 1 : 0}${capture ? 1 : 0}`
    rec(e).v[key] = { v, dyn: !!isDynamic, gp, argc: arguments.length }
  }
  w.p = function (e, n, v, gp) { rec(e).p[n] = { v, gp, argc: arguments.length } }
  w.wl = (e, n, v) => { rec(e).wl[n] = v }
  w.a = (e, n, v) => { rec(e).a[n] = v }
  w.l = function (e, n, v, gp) { rec(e).l[n] = { v, gp, argc: arguments.length } }
  w.setFnFilter = () => {}
  w.setEventListenerWrapper = () => {}
  w.devArgs = (e) => (e._$dev = e._$dev || {})
}

function instantiate(G, entry, name = '') {
  const group = G[entry]
  if (typeof group !== 'function') throw new Error('no such entry in bundle: ' + entry)
  const procGen = group(name)
  if (typeof procGen !== 'function') throw new Error('no such template in entry: ' + name)
  const root = new stub.ShadowRoot()
  const w = new ProcGenWrapper(root, procGen, false)
  installRecorders(w)
  return { w, root }
}

// ---------------------------------------------------------------------------------------------
// dump the stub tree to the comparison shape

// id of the dynamic slot instance a child of a dynamic-slot host is assigned to
function dynSlotId(c) {
  if (c._$slotElement && c._$slotElement._$dynId !== undefined) return c._$slotElement._$dynId
  if (c.kind === 'virtual') for (const k of c.childNodes) { const r = dynSlotId(k); if (r !== undefined) return r }
  return undefined
}

function dumpChildren(node, out) {
  const sr = node.kind === 'el' && node.getShadowRoot && node.getShadowRoot()
  if (sr && sr.slotById) {
    // the light-DOM order of a dynamic-slot host has no meaning (content is appended per slot instance as slots come and
    // go): group by slot instance, in slot-id order, and tag each top-level entry with it
    const kids = node.childNodes.map((c, i) => ({ c, i, si: dynSlotId(c) }))
    kids.sort((a, b) => ((a.si ?? -1) - (b.si ?? -1)) || (a.i - b.i))
    for (const k of kids) {
      const before = out.length
      dumpNode(k.c, out)
      for (let j = before; j < out.length; j += 1) out[j].si = k.si
    }
    return
  }
  for (const c of node.childNodes) dumpNode(c, out)
}

function cloneRec(rec) {
  const o = {}
  for (const k of Object.keys(rec)) {
    const v = rec[k]
    if (v && typeof v === 'object' && !Array.isArray(v) && ['r', 'd', 'm', 'v', 'p', 'wl', 'a', 'l'].includes(k)) {
      if (Object.keys(v).length === 0) continue
      o[k] = { ...v }
    } else if (k === 'sset') {
      continue
    } else {
      o[k] = v
    }
  }
  return o
}

function dumpNode(n, out) {
  if (n.kind === 'text') {
    out.push({ k: 't', text: n.textContent })
  } else if (n.kind === 'el') {
    const kids = []
    dumpChildren(n, kids)
    out.push({ k: 'e', tag: n.is, generics: n.generics || {}, slot: n.slot, rec: cloneRec(n.rec), kids })
  } else if (n.kind === 'virtual') {
    if (n.is === 'slot') {
      out.push({ k: 's', name: n._$slotName, slot: n.slot, rec: cloneRec(n.rec) })
    } else if (n._$inheritSlots) {
      dumpChildren(n, out)
    } else {
      const kids = []
      dumpChildren(n, kids)
      out.push({ k: 'v', slot: n.slot, kids })
    }
  } else {
    throw new Error('unknown stub node kind ' + n.kind)
  }
}

function dumpRoot(root) {
  const out = []
  dumpChildren(root, out)
  return out
}

// adjacent text nodes merged (used where only the rendered text matters, not the text-node boundaries)
function mergeText(list) {
  const out = []
  for (const n of list) {
    const last = out[out.length - 1]
    if (n.k === 't' && n.text === '') continue // an empty text node renders nothing
    if (n.k === 't' && last && last.k === 't') last.text = String(last.text) + String(n.text)
    else out.push(n.kids ? { ...n, kids: mergeText(n.kids) } : { ...n })
  }
  return out
}

// ---------------------------------------------------------------------------------------------
// tree comparison: returns list of mismatches {where, id, ch, name, expected, actual}

function cmpVal(where, id, ch, name, exp, act, out, opts) {
  if (!deepEq(exp, act, opts)) {
    out.push({ where, id, ch, name, expected: show(exp), actual: show(act) })
  }
}

function cmpMapChannel(where, id, ch, expMap, actMap, out, opts, valOf) {
  const e = expMap || {}
  const a = actMap || {}
  const keys = new Set([...Object.keys(e), ...Object.keys(a)])
  for (const k of [...keys].sort()) {
    if (!(k in e)) { out.push({ where, id, ch, name: k, expected: '<absent>', actual: show(valOf(a[k])) }); continue }
    if (!(k in a)) { out.push({ where, id, ch, name: k, expected: show(valOf(e[k])), actual: '<absent>' }); continue }
    cmpVal(where, id, ch, k, valOf(e[k]), valOf(a[k]), out, opts)
    if (ch === 'v') {
      if (!(opts && opts.ignoreDyn) && !!e[k].dyn !== !!a[k].dyn) out.push({ where, id, ch: 'v.dyn', name: k, expected: String(!!e[k].dyn), actual: String(!!a[k].dyn) })
    }
  }
}

// exp: reference dump (has ids), act: real dump. opts.strictPaths: compare lvalue paths too.
function cmpTrees(exp, act, where, out, opts) {
  const n = Math.max(exp.length, act.length)
  for (let i = 0; i < n; i += 1) {
    const e = exp[i]
    const a = act[i]
    const w = `${where}/${i}`
    if (!e || !a) {
      out.push({ where: w, id: e ? e.id : undefined, ch: 'struct', name: '', expected: e ? descr(e) : '<none>', actual: a ? descr(a) : '<none>' })
      continue
    }
    if (e.k !== a.k) {
      out.push({ where: w, id: e.id, ch: 'struct', name: 'kind', expected: descr(e), actual: descr(a) })
      continue
    }
    if (e.si !== undefined && a.si !== undefined && e.si !== a.si) {
      out.push({ where: w, id: e.id, ch: 'struct', name: 'slot-instance', expected: 'slot#' + e.si + ' ' + descr(e), actual: 'slot#' + a.si + ' ' + descr(a) })
      continue
    }
    if (e.k === 't') {
      cmpVal(w, e.id, 'text', '', e.text, a.text, out, opts)
    } else if (e.k === 'e') {
      if (e.tag !== a.tag) { out.push({ where: w, id: e.id, ch: 'struct', name: 'tag', expected: descr(e), actual: descr(a) }); continue }
      cmpVal(w, e.id, 'generics', '', e.generics || {}, a.generics || {}, out, opts)
      cmpVal(w, e.id, 'slot', '', e.slot, a.slot, out, opts)
      cmpRec(w, e.id, e.rec || {}, a.rec || {}, out, opts)
      cmpTrees(e.kids, a.kids, w, out, opts)
    } else if (e.k === 's') {
      cmpVal(w, e.id, 'slotname', '', e.name, a.name, out, opts)
      cmpVal(w, e.id, 'slot', '', e.slot, a.slot, out, opts)
      cmpRec(w, e.id, e.rec || {}, a.rec || {}, out, opts)
    } else if (e.k === 'v') {
      cmpVal(w, e.id, 'slot', '', e.slot, a.slot, out, opts)
      cmpTrees(e.kids, a.kids, w, out, opts)
    }
  }
}

function cmpRec(w, id, e, a, out, opts) {
  for (const ch of ['c', 'y', 'i']) {
    if (ch in e || ch in a) {
      if (!(ch in e)) out.push({ where: w, id, ch, name: '', expected: '<absent>', actual: show(a[ch]) })
      else if (!(ch in a)) out.push({ where: w, id, ch, name: '', expected: show(e[ch]), actual: '<absent>' })
      else cmpVal(w, id, ch, '', e[ch], a[ch], out, opts)
    }
  }
  for (const ch of ['d', 'm', 'wl', 'a']) cmpMapChannel(w, id, ch, e[ch], a[ch], out, opts, (x) => x)
  for (const ch of ['r', 'v', 'p', 'l']) cmpMapChannel(w, id, ch, e[ch], a[ch], out, opts, (x) => x.v)
  if (opts && opts.paths) {
    for (const ch of ['r', 'v', 'p', 'l']) {
      const em = e[ch] || {}
      const am = a[ch] || {}
      for (const k of Object.keys(em)) {
        if (!(k in am)) continue
        if (opts.pathMode === 'ref') { cmpRefPath(w, id, ch, k, em[k], am[k], out); continue }
        if (ch === 'r') cmpVal(w, id, 'r.mp', k, em[k].mp, am[k].mp, out, opts)
        cmpVal(w, id, ch + '.gp', k, em[k].gp, am[k].gp, out, opts)
      }
    }
  }
}

// C11, against the reference: a path that is given must be the location the model says the expression reads
// (segments compared as property keys, i.e. by String()); a missing path is a mismatch only where `lvc` demands one.
const pathPresent = (x) => x !== undefined && x !== null
function samePath(a, b) {
  return Array.isArray(a) && Array.isArray(b) && a.length === b.length && a.every((x, i) => typeof x !== 'symbol' && typeof b[i] !== 'symbol' && String(x) === String(b[i]))
}
function cmpRefPath(w, id, ch, k, e, a, out) {
  const g = e.g
  const why = g ? `<the expression reads ${show(g)}>` : '<no path: the expression is not an access chain>'
  if (ch === 'r') {
    if (pathPresent(a.mp)) {
      if (!(g && g[0] === 0 && samePath(g.slice(1), a.mp))) out.push({ where: w, id, ch: 'r.mp', name: k, expected: g && g[0] === 0 ? show(g.slice(1)) : why, actual: show(a.mp) })
    } else if (e.lvc && g && g[0] === 0) {
      out.push({ where: w, id, ch: 'r.mp', name: k, expected: show(g.slice(1)), actual: '<no path>' })
    }
  }
  if (pathPresent(a.gp)) {
    if (!(g && samePath(g, a.gp))) out.push({ where: w, id, ch: ch + '.gp', name: k, expected: g ? show(g) : why, actual: show(a.gp) })
  }
}

function descr(n) {
  if (n.k === 't') return `text(${show(n.text)})`
  if (n.k === 'e') return `<${n.tag}>`
  if (n.k === 's') return `<slot name=${show(n.name)}>`
  if (n.k === 'v') return `<virtual slot=${show(n.slot)}>`
  return '?'
}

// ---------------------------------------------------------------------------------------------
// update-path trees: JSON -> null-prototype objects ("T" = true)

function reviveTree(t) {
  if (t === true || t === 'T') return true
  if (t === null || t === undefined) return undefined
  if (typeof t !== 'object') return true
  if (Array.isArray(t.$splice)) {
    // the shape tmpl/index.ts builds for `spliceArrayDataOnPath`: an object whose prototype is an array aligned with the new list
    const [start, del, ins] = t.$splice
    const arr = new Array(start)
    arr.splice(start, del, ...new Array(ins).fill(true))
    for (const i of t.$marks || []) arr[i] = true
    const wrapper = Object.create(arr)
    if (t.$length) wrapper.length = true
    return wrapper
  }
  const o = Object.create(null)
  for (const k of Object.keys(t)) {
    const v = reviveTree(t[k])
    if (v !== undefined) o[k] = v
  }
  return o
}

// ---------------------------------------------------------------------------------------------
// request handlers

const handlers = {
  ping() { return { ok: true, node: process.version } },

  // C02: syntax check of artefacts
  syntax(req) {
    return {
      results: req.codes.map((code) => {
        const r = { sloppy: null, strict: null }
        try { new vm.Script(code) } catch (e) { r.sloppy = String(e && e.message) }
        try { new vm.Script('"use strict";\n' + code) } catch (e) { r.strict = String(e && e.message) }
        return r
      }),
    }
  },

  // C03/C04/C05/C12/C13: creation vs the reference renderer
  render_ref(req) {
    const pool = makePool()
    let G
    try { G = loadBundle(req.bundle) } catch (e) { return { error: 'bundle: ' + String(e && e.stack || e) } }
    const results = []
    for (const dsrc of req.data) {
      const D = evalData(dsrc, pool)
      const mism = []
      let actual; let expected; let realThrew = null; let refThrew = null
      try {
        const inst = instantiate(G, req.entry)
        inst.w.create(D)
        actual = dumpRoot(inst.root)
      } catch (e) { realThrew = String(e && e.stack || e) }
      try {
        expected = refRender(req.model, req.entry, D, pool)
      } catch (e) { refThrew = String(e && e.stack || e) }
      if (realThrew !== null || refThrew !== null) {
        if ((realThrew === null) !== (refThrew === null)) {
          mism.push({ where: '', ch: 'throw', name: '', expected: refThrew === null ? '<returns>' : 'throws: ' + refThrew.split('\n')[0], actual: realThrew === null ? '<returns>' : 'throws: ' + realThrew.split('\n').slice(0, 3).join(' | ') })
        }
      } else {
        cmpTrees(expected, actual, '', mism, { paths: !!req.paths, pathMode: 'ref', fnBySource: true })
      }
      results.push({ mismatches: mism.slice(0, 50), nodes: actual ? countNodes(actual) : 0 })
    }
    return { results }
  },

  // C06: create(D0); update(Di,Ui)...; compare with fresh create(Di) after every step (real vs real)
  history(req) {
    const pool = makePool()
    let G
    try { G = loadBundle(req.bundle) } catch (e) { return { error: 'bundle: ' + String(e && e.stack || e) } }
    const datas = req.data.map((s) => evalData(s, pool))
    const mism = []
    let inst
    // wx:key values must be unique within a list (documented); the runtime warns and renames shared keys by position,
    // after which a keyed update is not defined by the data diff any more: such histories leave the domain (counted)
    const dupKeys = () => stub.warnings.some((w) => w.includes('keys are not unique'))
    stub.warnings.length = 0
    stub.resetSlotState()
    let nextSlotId = stub.slotState.list.length
    const VALUE_NAMES = ['sa', 'sb', 'sC', 'sd', 'item', 'al0', 'zz']
    const SLOT_NAMES = ['', 's1', 's2']
    const dynHosts = (root) => {
      const out = []
      const walk = (n) => {
        if (n.kind === 'el' && n.getShadowRoot) { const sr = n.getShadowRoot(); if (sr && sr.slotById) out.push(sr) }
        if (n.childNodes) for (const c of n.childNodes) walk(c)
      }
      walk(root)
      return out
    }
    // slot operations of one step, in two phases: `planSlotOps` moves the slot state (which components created from now
    // on, and the fresh side, start from) and returns concrete actions; `execSlotActions` performs them on live
    // dynamic-slot components through the shadow-root protocol
    const planSlotOps = (ops) => {
      const actions = []
      for (const op of ops) {
        const list = stub.slotState.list
        const len = list.length
        if (op.kind === 0) {
          if (!len) continue
          const d = list[op.sel % len]
          const name = VALUE_NAMES[op.name % VALUE_NAMES.length]
          const value = evalData(op.val, pool)
          stub.slotState.list = list.map((x) => (x === d ? { ...x, values: { ...x.values, [name]: value } } : x))
          actions.push({ t: 'set', id: d.id, name, value, now: !!op.flag })
        } else if (op.kind === 1 || op.kind === 4) {
          if (!len) continue
          const ds = [list[op.sel % len]]
          if (op.kind === 4 && len > 1) { const d2 = list[(op.sel + 1 + (op.name % (len - 1))) % len]; if (d2 !== ds[0]) ds.push(d2) }
          stub.slotState.list = list.filter((x) => !ds.includes(x))
          const ids = ds.map((d) => d.id)
          actions.push({ t: 'remove', ids: op.flag ? ids.reverse() : ids })
        } else if (op.kind === 2) {
          if (len >= 5) continue
          const base = stub.DYN_SLOTS[op.sel % stub.DYN_SLOTS.length]
          const d = { id: nextSlotId, name: SLOT_NAMES[op.name % SLOT_NAMES.length], values: { ...base.values, sa: evalData(op.val, pool) } }
          nextSlotId += 1
          const index = op.flag ? len : op.sel % (len + 1)
          const l2 = list.slice(); l2.splice(index, 0, d)
          stub.slotState.list = l2
          actions.push({ t: 'insert', d, index })
        } else if (op.kind === 3) {
          if (!len) continue
          const d = list[op.sel % len]
          const name = SLOT_NAMES[op.name % SLOT_NAMES.length]
          if (name === d.name) continue
          stub.slotState.list = list.map((x) => (x === d ? { ...x, name } : x))
          actions.push({ t: 'rename', id: d.id, name })
        }
      }
      return actions
    }
    const execSlotActions = (actions, hosts) => {
      for (const sr of hosts) {
        for (const a of actions) {
          if (a.t === 'set') {
            const slot = sr.slotById(a.id)
            if (!slot) continue
            sr.replaceSlotValue(slot, a.name, a.value)
            if (a.now) sr.applySlotValueUpdates(slot)
          } else if (a.t === 'remove') {
            const slots = a.ids.map((id) => sr.slotById(id)).filter(Boolean)
            if (slots.length) sr.removeSlots(slots)
          } else if (a.t === 'insert') {
            sr.insertSlot(a.d, Math.min(a.index, sr.slots.length))
          } else if (a.t === 'rename') {
            const slot = sr.slotById(a.id)
            if (slot) sr.renameSlot(slot, a.name)
          }
        }
        sr.applySlotUpdates()
      }
    }
    // viaEngine (1 = default update mode, 2 = 'virtualTree'): the instance is driven through the real template engine of
    // tmpl/index.ts — initValues(D0), then updateValues(D, changes) with one replace-type DataChange per marked leaf of the
    // step's update-path tree (a splice-shaped mark counts as a replace of the whole array, `true` as a replace of every
    // top-level field). The engine builds its own tree from the changes, or — default mode, one top-level change, field
    // advertised — runs the binding-map updaters instead. The data object is ONE live object mutated at its top level,
    // as data_proxy.ts does, so closures of the creation pass see current data.
    let engInst = null
    let live = null
    const changesOf = (t, prev, next) => {
      const out = []
      const at = (d, path) => path.reduce((x, k) => (x == null ? undefined : x[k]), d)
      const walk = (n, path) => {
        // the exact `index.ts` splice shape (no extra marks: only generated for arrays read through wx:for alone) is
        // handed over as the splice change it stands for
        if (n && typeof n === 'object' && Array.isArray(n.$splice) && !(n.$marks || []).length && !n.$length && path.length && Array.isArray(at(next, path))) {
          const [start, del, ins] = n.$splice
          out.push([path, at(next, path).slice(start, start + ins), start, del])
          return
        }
        if (n === true || n === 'T' || (n && typeof n === 'object' && Array.isArray(n.$splice)) || typeof n !== 'object' || n === null) {
          if (n === null || n === undefined) return
          if (path.length === 0) {
            const keys = new Set([...Object.keys(prev || {}), ...Object.keys(next || {})])
            for (const k of keys) out.push([[k], next[k], undefined, undefined])
          } else out.push([path, at(next, path), undefined, undefined])
          return
        }
        for (const k of Object.keys(n)) walk(n[k], path.concat(/^(0|[1-9][0-9]*)$/.test(k) ? Number(k) : k))
      }
      walk(t, [])
      return out
    }
    try {
      if (req.viaEngine) {
        const eng = new GlassEaselTemplateEngine()
        const tmpl = eng.create({ is: 'c', _$template: { content: G[req.entry], groupList: G, updateMode: req.viaEngine === 2 ? 'virtualTree' : '' } }, { externalComponent: false })
        const root = new stub.ShadowRoot()
        engInst = tmpl.createInstance({}, () => root)
        installRecorders(engInst.procGenWrapper)
        inst = { w: engInst.procGenWrapper, root }
        live = Object.assign({}, datas[0])
        engInst.initValues(live)
      } else {
        inst = instantiate(G, req.entry)
        inst.w.create(datas[0])
      }
    } catch (e) {
      return { steps: [], createThrew: String(e && e.stack || e) }
    }
    if (dupKeys()) return { steps: [], domainExit: 'non-unique-keys' }
    const steps = []
    const engineUpdate = (i) => {
      const changes = changesOf(req.trees[i - 1], datas[i - 1], datas[i])
      for (const k of Object.keys(live)) if (!(k in datas[i])) delete live[k]
      for (const k of Object.keys(datas[i])) live[k] = datas[i][k]
      const viaMap = changes.length === 1 && changes[0][0].length === 1 && req.viaEngine === 1 && engInst.bindingMapGen && !!engInst.bindingMapGen[changes[0][0][0]]
      engInst.updateValues(live, changes)
      return { n: changes.length, viaMap, splices: changes.filter((c) => c[3] !== undefined).length }
    }
    for (let i = 1; i < datas.length; i += 1) {
      const U = reviveTree(req.trees[i - 1])
      let updThrew = null; let freshThrew = null; let fresh; let cur; let engInfo = null
      const sops = (req.slotOps && req.slotOps[i - 1]) || []
      try {
        const before = planSlotOps(sops.filter((o) => o.before))
        if (before.length) execSlotActions(before, dynHosts(inst.root))
        // operations after the update act on the components that existed before it; components the update creates
        // start from the state at the end of the step
        const afterOps = sops.filter((o) => !o.before)
        const hosts = afterOps.length ? dynHosts(inst.root) : []
        const after = planSlotOps(afterOps)
        if (engInst) engInfo = engineUpdate(i)
        else inst.w.update(datas[i], U)
        if (after.length) execSlotActions(after, hosts)
        cur = dumpRoot(inst.root)
      } catch (e) { updThrew = String(e && e.stack || e) }
      try { const f = instantiate(G, req.entry); f.w.create(datas[i]); fresh = dumpRoot(f.root) } catch (e) { freshThrew = String(e && e.stack || e) }
      if (dupKeys()) { steps.push({ step: i, mismatches: [], domainExit: 'non-unique-keys' }); break }
      const m = []
      if (updThrew !== null || freshThrew !== null) {
        if ((updThrew === null) !== (freshThrew === null)) {
          m.push({ where: '', ch: 'throw', name: '', expected: freshThrew === null ? '<returns>' : 'throws: ' + freshThrew.split('\n')[0], actual: updThrew === null ? '<returns>' : 'throws: ' + updThrew.split('\n').slice(0, 3).join(' | ') })
        }
        steps.push({ step: i, mismatches: m })
        break
      }
      cmpTrees(fresh, cur, '', m, { paths: true })
      steps.push({ step: i, mismatches: m.slice(0, 30), nodes: countNodes(cur), engine: engInfo })
      if (m.length) break
    }
    return { steps, mism }
  },

  // C06, engine stage: the real template engine of tmpl/index.ts (update-path-tree construction from DataChange lists,
  // binding-map dispatch for single changes) driven like component.ts drives it: initValues(D0), then per batch
  // updateValues(Di, changes). The batch operations are applied to a copy of the data the way data_proxy.ts applies them
  // (replace on a path, splice with index normalisation; a replace at an index past the end also reports the array's
  // `length`). Oracle: a fresh instance created with Di.
  engine(req) {
    const pool = makePool()
    let G
    try { G = loadBundle(req.bundle) } catch (e) { return { error: 'bundle: ' + String(e && e.stack || e) } }
    const mk = () => {
      const eng = new GlassEaselTemplateEngine()
      const tmpl = eng.create({ is: 'c', _$template: { content: G[req.entry], groupList: G, updateMode: req.mode || '' } }, { externalComponent: false })
      const root = new stub.ShadowRoot()
      const inst = tmpl.createInstance({}, () => root)
      installRecorders(inst.procGenWrapper)
      return { inst, root }
    }
    const clone = (v) => {
      if (Array.isArray(v)) return v.map(clone)
      if (v && typeof v === 'object' && (Object.getPrototypeOf(v) === Object.prototype || Object.getPrototypeOf(v) === null)) {
        const o = {}
        for (const k of Object.keys(v)) o[k] = clone(v[k])
        return o
      }
      return v
    }
    const dupKeys = () => stub.warnings.some((w) => w.includes('keys are not unique'))
    stub.warnings.length = 0
    let data = evalData(req.data0, pool)
    let nextId = 100
    let cur
    try { cur = mk(); cur.inst.initValues(data) } catch (e) { return { steps: [], createThrew: String(e && e.stack || e) } }
    if (dupKeys()) return { steps: [], domainExit: 'non-unique-keys' }
    const at = (d, path) => path.reduce((x, k) => (x == null ? undefined : x[k]), d)
    const steps = []
    for (let bi = 0; bi < req.batches.length; bi += 1) {
      data = clone(data)
      const changes = []
      const labels = []
      for (const op of req.batches[bi]) {
        const TARGETS = [['a'], ['b'], ['c'], ['c', '#'], ['list'], ['list', '#'], ['list', '#', 'v'], ['o'], ['o', 'l'], ['o', 'l', '#'], ['o', 'n']]
        const ARRAYS = [['c'], ['list'], ['o', 'l']]
        const scalar = () => evalData(op.val, pool)
        const scalars = () => (op.vals || []).map((s) => evalData(s, pool))
        const item = (v) => ({ id: nextId++, v })
        if (op.k === 'replace') {
          const t = TARGETS[op.target % TARGETS.length]
          const path = []
          let ok = true
          let pastEnd = null
          for (const seg of t) {
            if (seg === '#') {
              const arr = at(data, path)
              if (!Array.isArray(arr)) { ok = false; break }
              // an index inside the array, or (last segment only) the one just past its end
              const last = path.length === t.length - 1
              const n = arr.length + (last ? 1 : 0)
              if (n === 0) { ok = false; break }
              const i = op.i % n
              if (i === arr.length) pastEnd = path.concat('length')
              path.push(i)
            } else path.push(seg)
          }
          if (!ok) continue
          let val
          const key = t.join('.')
          if (key === 'c' || key === 'o.l') val = scalars()
          else if (key === 'list') {
            const old = Array.isArray(data.list) ? data.list : []
            // a new list: a permutation / subset of the old items, or all new items
            if (op.j % 3 === 0) val = old.slice().reverse()
            else if (op.j % 3 === 1) val = old.filter((_, i) => (op.i >> i) % 2 === 0).concat(scalars().map(item))
            else val = scalars().map(item)
          } else if (key === 'list.#') val = item(scalar())
          else if (key === 'o') val = { l: scalars(), n: scalar() }
          else val = scalar()
          // the parent of the last segment exists by construction
          const parent = at(data, path.slice(0, -1))
          if (parent == null || typeof parent !== 'object') continue
          parent[path[path.length - 1]] = val
          if (pastEnd) changes.push([pastEnd, true, undefined, undefined])
          changes.push([path, val, undefined, undefined])
          labels.push('replace:' + key + (pastEnd ? ':past-end' : ''))
        } else if (op.k === 'splice') {
          const path = ARRAYS[op.target % ARRAYS.length]
          const arr = at(data, path)
          if (!Array.isArray(arr)) continue
          let index = op.i % (arr.length + 2)
          if (index > arr.length) index = op.j % 2 ? -1 : 100
          const del = op.del
          let inserts = scalars()
          if (path[0] === 'list') inserts = inserts.map(item)
          const norm = index >= 0 && index < arr.length ? index : arr.length
          arr.splice(norm, del, ...inserts)
          changes.push([path, inserts, norm, del || 0])
          labels.push('splice:' + path.join('.') + (norm === 0 && inserts.length === 0 ? ':front-removal' : '') + (inserts.length && del ? ':replace' : inserts.length ? ':insert' : ':remove'))
        }
      }
      if (changes.length === 0) { steps.push({ step: bi + 1, mismatches: [], labels: ['batch:empty'] }); continue }
      labels.push(changes.length === 1 ? 'batch:single-change' : 'batch:multi-change')
      let updThrew = null; let freshThrew = null; let fresh; let curDump
      try { cur.inst.updateValues(data, changes); curDump = dumpRoot(cur.root) } catch (e) { updThrew = String(e && e.stack || e) }
      try { const f = mk(); f.inst.initValues(data); fresh = dumpRoot(f.root) } catch (e) { freshThrew = String(e && e.stack || e) }
      if (dupKeys()) { steps.push({ step: bi + 1, mismatches: [], domainExit: 'non-unique-keys', labels }); break }
      const m = []
      const describe = changes.map((c) => (c[3] === undefined ? 'replace ' + JSON.stringify(c[0]) : `splice ${JSON.stringify(c[0])} at ${c[2]} del ${c[3]} ins ${c[1].length}`)).join('; ')
      if (updThrew !== null || freshThrew !== null) {
        if ((updThrew === null) !== (freshThrew === null)) {
          m.push({ where: '', ch: 'throw', name: '', expected: freshThrew === null ? '<returns>' : 'throws: ' + freshThrew.split('\n')[0], actual: updThrew === null ? '<returns>' : 'throws: ' + updThrew.split('\n').slice(0, 3).join(' | ') })
        }
        steps.push({ step: bi + 1, mismatches: m, labels, changes: describe })
        break
      }
      cmpTrees(fresh, curDump, '', m, { paths: true })
      steps.push({ step: bi + 1, mismatches: m.slice(0, 30), nodes: countNodes(curDump), labels, changes: describe, data: show(data) })
      if (m.length) break
    }
    return { steps }
  },

  // C13, report/link consistency: many small bundles, each created once with empty data; returns the rendered text
  link_probe(req) {
    const texts = (list, out) => { for (const n of list) { if (n.k === 't') out.push(String(n.text)); else if (n.kids) texts(n.kids, out) } return out }
    return {
      results: req.items.map((it) => {
        try {
          const G = loadBundle(it.bundle)
          const inst = instantiate(G, it.entry)
          inst.w.create({})
          return { text: texts(dumpRoot(inst.root), []).join('|') }
        } catch (e) { return { error: String(e && e.stack || e).split('\n').slice(0, 3).join(' | ') } }
      }),
    }
  },

  // C07: binding map
  bmap(req) {
    const pool = makePool()
    let G
    try { G = loadBundle(req.bundle) } catch (e) { return { error: 'bundle: ' + String(e && e.stack || e) } }
    const D0 = evalData(req.data0, pool)
    const probe = instantiate(G, req.entry)
    let B
    try { B = probe.w.create(D0) } catch (e) { return { createThrew: String(e && e.stack || e) } }
    // the runtime withdraws the whole map when the instance holds a dynamic-slot component (content exists once per slot
    // instance): bindingMapUpdate then returns false and the engine falls back to the tree update
    const disabled = !!probe.w.bindingMapDisabled
    const keys = B ? Object.keys(B) : []
    const named = {}
    for (const name of req.named || []) {
      try {
        const i2 = instantiate(G, req.entry, name)
        const b2 = i2.w.create(D0)
        named[name] = b2 ? Object.keys(b2) : []
      } catch (e) { named[name] = ['<threw>'] }
    }
    const results = []
    for (const ch of req.changes) {
      // ch: {field, data1}
      if (!keys.includes(ch.field)) continue
      const D1 = evalData(ch.data1, pool)
      const inst = instantiate(G, req.entry)
      const m = []
      try {
        const b = inst.w.create(D0)
        const ok = inst.w.bindingMapUpdate(ch.field, D1, b)
        if (!ok) {
            // not offered after all: what tmpl/index.ts does next is the tree update for this one field
            const U = Object.create(null); U[ch.field] = true
            inst.w.update(D1, U)
        }
        const cur = dumpRoot(inst.root)
        const f = instantiate(G, req.entry)
        f.w.create(D1)
        const fresh = dumpRoot(f.root)
        if (!ok && !inst.w.bindingMapDisabled) m.push({ where: '', ch: 'bmap', name: ch.field, expected: 'updaters run', actual: 'bindingMapUpdate returned false although the map is not withdrawn' })
        cmpTrees(fresh, cur, '', m, { paths: true })
        results.push({ field: ch.field, mismatches: m.slice(0, 30), fellBack: !ok })
        continue
      } catch (e) {
        m.push({ where: '', ch: 'throw', name: ch.field, expected: '<returns>', actual: 'throws: ' + String(e && e.stack || e).split('\n').slice(0, 3).join(' | ') })
      }
      results.push({ field: ch.field, mismatches: m.slice(0, 30) })
    }
    return { keys, named, results, disabled }
  },

  // C14: two bundles must behave identically (creation + histories)
  equiv(req) {
    const pool = makePool()
    let GA; let GB
    try { GA = loadBundle(req.bundleA) } catch (e) { return { error: 'bundleA: ' + String(e && e.message || e) } }
    try { GB = loadBundle(req.bundleB) } catch (e) { return { errorB: 'bundleB: ' + String(e && e.message || e) } }
    const results = []
    for (const h of req.histories) {
      const datas = h.data.map((s) => evalData(s, pool))
      const m = []
      const run = (G, D0) => {
        try { const i = instantiate(G, req.entry); i.w.create(D0); return { inst: i, dump: dumpRoot(i.root), threw: null } } catch (e) { return { threw: String(e && e.message || e) } }
      }
      const a = run(GA, datas[0])
      const b = run(GB, datas[0])
      if (a.threw !== null || b.threw !== null) {
        if ((a.threw === null) !== (b.threw === null)) m.push({ where: '', ch: 'throw', name: 'create', expected: a.threw === null ? '<returns>' : 'throws: ' + a.threw, actual: b.threw === null ? '<returns>' : 'throws: ' + b.threw })
      } else {
        cmpTrees(mergeText(a.dump), mergeText(b.dump), '', m, { paths: true, fnBySource: true, ignoreDyn: true })
        for (let i = 1; i < datas.length && !m.length; i += 1) {
          const U = reviveTree(h.trees[i - 1])
          let ta = null; let tb = null
          try { a.inst.w.update(datas[i], U) } catch (e) { ta = String(e && e.message || e) }
          try { b.inst.w.update(datas[i], reviveTree(h.trees[i - 1])) } catch (e) { tb = String(e && e.message || e) }
          if (ta !== null || tb !== null) {
            if ((ta === null) !== (tb === null)) m.push({ where: '', ch: 'throw', name: 'update' + i, expected: ta === null ? '<returns>' : 'throws: ' + ta, actual: tb === null ? '<returns>' : 'throws: ' + tb })
            break
          }
          cmpTrees(mergeText(dumpRoot(a.inst.root)), mergeText(dumpRoot(b.inst.root)), '', m, { paths: true, fnBySource: true, ignoreDyn: true })
        }
      }
      results.push({ mismatches: m.slice(0, 30) })
    }
    return { results }
  },

  // raw creation dump, used by C11/C13/debugging: returns shown dump
  dump(req) {
    const pool = makePool()
    const G = loadBundle(req.bundle)
    const D = evalData(req.data, pool)
    const inst = instantiate(G, req.entry)
    inst.w.create(D)
    return { dump: JSON.parse(JSON.stringify(dumpRoot(inst.root), (k, v) => (typeof v === 'function' || v === undefined || (typeof v === 'number' && !Number.isFinite(v)) ? show(v) : v))) }
  },

  // C12: strings at the runtime boundary, as UTF-16 code units. Probe i is top-level node i (checked by data:n).
  strings(req) {
    const S = (u) => String.fromCharCode(...u)
    const U = (s) => Array.from({ length: s.length }, (_, i) => s.charCodeAt(i))
    let G
    try { G = loadBundle(req.bundle) } catch (e) { return { error: 'bundle: ' + String(e && e.stack || e) } }
    const o = Object.create(null)
    for (const m of req.members || []) o[S(m)] = 'ok'
    const D = { n1: 1, names: (req.names || []).map(S), o }
    let dump
    try { const inst = instantiate(G, req.entry); inst.w.create(D); dump = dumpRoot(inst.root) } catch (e) { return { createThrew: String(e && e.stack || e) } }
    const only = (obj, skip) => {
      const ks = Object.keys(obj || {}).filter((k) => k !== skip)
      return ks.length === 1 ? ks[0] : { bad: 'keys ' + JSON.stringify(ks) }
    }
    const results = req.locators.map((loc, i) => {
      const n = dump[i]
      if (!n) return { other: 'no node for this probe (' + dump.length + ' top-level nodes)' }
      const rec = n.rec || {}
      if (!rec.d || rec.d.n !== String(i)) return { other: 'top-level node ' + i + ' is not this probe: ' + show(n).slice(0, 120) }
      let v
      switch (loc) {
        case 'text': v = n.kids && n.kids.length === 1 && n.kids[0].k === 't' ? n.kids[0].text : { bad: 'children ' + show(n.kids).slice(0, 160) }; break
        case 'r': v = rec.r && rec.r.a ? rec.r.a.v : { bad: 'no attribute a: ' + show(rec.r).slice(0, 120) }; break
        case 'c': v = rec.c; break
        case 'y': v = rec.y; break
        case 'i': v = rec.i; break
        case 'slot': v = n.slot; break
        case 'd': v = rec.d.k; break
        case 'm': v = rec.m && rec.m.k; break
        case 'v': v = rec.v && rec.v['tap|000'] ? rec.v['tap|000'].v : { bad: 'no tap listener: ' + show(rec.v).slice(0, 120) }; break
        case 'sname': v = n.k === 's' ? n.name : { bad: 'not a slot' }; break
        case 'dk': v = only(rec.d, 'n'); break
        case 'mk': v = only(rec.m); break
        case 'rk': v = only(rec.r); break
        case 'gk': v = only(n.generics); break
        case 'vk': { const k = only(rec.v); v = typeof k === 'string' ? (k.endsWith('|000') ? k.slice(0, -4) : { bad: 'flags ' + k }) : k; break }
        case 'objk': v = rec.r && rec.r.a && rec.r.a.v && typeof rec.r.a.v === 'object' ? only(rec.r.a.v) : { bad: 'not an object' }; break
        default: v = { bad: 'locator ' + loc }
      }
      if (typeof v === 'string') return { u: U(v) }
      return { other: v && v.bad ? v.bad : typeof v + ' ' + show(v).slice(0, 120) }
    })
    return { results }
  },

  // C11 get-put law: for each data path observed (model path, or general path with prefix 0) write a sentinel at that
  // path in a fresh copy of the data, create again and read the same binding: it must be the sentinel. Cases where the
  // write cannot be done (a container on the way is missing / not an object) or where it changes the structure or the
  // path itself (the index expression reads the written location) are counted as skipped, never reported.
  getput(req) {
    const pool = makePool()
    let G
    try { G = loadBundle(req.bundle) } catch (e) { return { error: 'bundle: ' + String(e && e.stack || e) } }
    const results = []
    for (const dsrc of req.data) {
      const res = { observed: 0, dataPaths: 0, ok: 0, skipped: 0, mismatches: [], samples: [] }
      results.push(res)
      let inst
      try { inst = instantiate(G, req.entry); inst.w.create(evalData(dsrc, pool)) } catch (e) { res.createThrew = String(e && e.message); continue }
      const observed = []
      const collect = (node, where) => {
        node.childNodes.forEach((c, i) => {
          const w = `${where}/${i}`
          if (c.rec) {
            for (const ch of ['r', 'v', 'p', 'l']) {
              for (const k of Object.keys(c.rec[ch] || {})) {
                const it = c.rec[ch][k]
                if (ch === 'r' && pathPresent(it.mp)) observed.push({ where: w, ch, name: k, which: 'mp', path: it.mp })
                if (pathPresent(it.gp)) observed.push({ where: w, ch, name: k, which: 'gp', path: it.gp })
              }
            }
          }
          if (c.childNodes) collect(c, w)
        })
      }
      collect(inst.root, '')
      res.observed = observed.length
      const nodeAt = (root, where) => {
        let n = root
        for (const idx of where.split('/').filter((x) => x !== '')) n = n && n.childNodes && n.childNodes[Number(idx)]
        return n
      }
      for (const ob of observed) {
        if (!Array.isArray(ob.path)) { res.mismatches.push({ where: ob.where, ch: ob.ch + '.' + ob.which, name: ob.name, expected: 'an array path', actual: show(ob.path) }); continue }
        let dataPath = null
        if (ob.which === 'mp') dataPath = ob.path
        else if (ob.path[0] === 0) dataPath = ob.path.slice(1)
        if (dataPath === null) continue
        res.dataPaths += 1
        const D2 = evalData(dsrc, pool)
        let cur = D2
        let ok = dataPath.length > 0
        for (let i = 0; ok && i < dataPath.length - 1; i += 1) {
          const seg = dataPath[i]
          if (cur === null || typeof cur !== 'object' || typeof seg === 'symbol' || !Object.prototype.hasOwnProperty.call(cur, seg)) { ok = false; break }
          cur = cur[seg]
        }
        if (!ok || cur === null || typeof cur !== 'object' || typeof cur === 'function') { res.skipped += 1; continue }
        const sentinel = { $sentinel: true }
        try { cur[dataPath[dataPath.length - 1]] = sentinel } catch (e) { res.skipped += 1; continue }
        if (cur[dataPath[dataPath.length - 1]] !== sentinel) { res.skipped += 1; continue }
        let it
        try {
          const i2 = instantiate(G, req.entry)
          i2.w.create(D2)
          const n = nodeAt(i2.root, ob.where)
          it = n && n.rec && n.rec[ob.ch] && n.rec[ob.ch][ob.name]
        } catch (e) { res.skipped += 1; continue }
        if (!it || !samePath(it[ob.which], ob.path)) { res.skipped += 1; continue }
        if (it.v !== sentinel) {
          res.mismatches.push({ where: ob.where, ch: 'getput', name: ob.name, expected: `the value written at ${show(dataPath)}`, actual: show(it.v) })
        } else {
          res.ok += 1
          if (res.samples.length < 3) res.samples.push(show(ob.path))
        }
      }
    }
    return { results }
  },
}

function countNodes(list) {
  let n = 0
  for (const x of list) { n += 1; if (x.kids) n += countNodes(x.kids) }
  return n
}

const rl = readline.createInterface({ input: process.stdin, crlfDelay: Infinity })
for await (const line of rl) {
  if (!line.trim()) continue
  let req
  try { req = JSON.parse(line) } catch (e) { process.stdout.write(JSON.stringify({ fatal: 'bad json' }) + '\n'); continue }
  let resp
  try {
    const h = handlers[req.kind]
    if (!h) resp = { fatal: 'unknown kind ' + req.kind }
    else resp = h(req)
  } catch (e) {
    resp = { fatal: String(e && e.stack || e) }
  }
  stub.warnings.length = 0
  stub.resetSlotState()
  process.stdout.write(JSON.stringify(resp === undefined ? {} : resp) + '\n')
}
