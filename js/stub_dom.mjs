// Stub node model the repository's real ProcGenWrapper / RangeListManager run on.
// Deliberately dumb: a tree of nodes with the child operations of glass-easel's Element
// (index semantics copied from element.ts insertChildSingleOperation / batch ops).

export const ENV = { DEV: false }
export const StyleSegmentIndex = { MAIN: 0 }
export const SlotMode = { Direct: 0, Single: 1, Multiple: 2, Dynamic: 3 }

export const warnings = []
export const triggerWarning = (msg) => { warnings.push(String(msg)) }
export const dispatchError = (err) => { throw err }
export const safeCallback = (type, f, self, args) => f.apply(self, args)

let nodeCounter = 0

export class Node {
  constructor(kind, ownerShadowRoot) {
    this.kind = kind // 'text' | 'el' | 'virtual' | 'root'
    this.ownerShadowRoot = ownerShadowRoot
    this.parentNode = null
    this.childNodes = []
    this.uid = nodeCounter++
  }
  get parentIndex() {
    return this.parentNode ? this.parentNode.childNodes.indexOf(this) : -1
  }
  destroyBackendElementOnRemoval() {}
}

export class Element extends Node {
  constructor(kind, ownerShadowRoot) {
    super(kind, ownerShadowRoot)
    this.rec = { r: {}, d: {}, m: {}, v: {}, p: {}, wl: {}, a: {}, l: {} }
    this.slot = undefined
    this._$slotName = null
    this._$inheritSlots = false
    this._$slotElement = null
    this.slotNodes = undefined
  }
  static setSlotElement(node, slotElement) { node._$slotElement = slotElement }
  static setInheritSlots(node) { node._$inheritSlots = true }
  static setSlotName(node, name) { node._$slotName = name === undefined ? '' : name }

  static _single(parent, newChild, oriPosIndex, replace) {
    let posIndex = oriPosIndex
    const relChild = posIndex >= 0 ? parent.childNodes[posIndex] : undefined
    let removal
    if (replace) {
      if (!relChild) removal = false
      else if (newChild === relChild) removal = false
      else removal = true
    } else removal = false
    if (!removal && !newChild) return
    if (newChild) {
      const oldParent = newChild.parentNode
      if (oldParent) {
        const childNodes = oldParent.childNodes
        const oldPosIndex = childNodes.indexOf(newChild)
        childNodes.splice(oldPosIndex, 1)
        if (oldParent === parent && oldPosIndex < posIndex) posIndex -= 1
      }
      newChild.parentNode = parent
    }
    if (removal && relChild) relChild.parentNode = null
    const childNodes = parent.childNodes
    if (newChild) {
      if (posIndex < 0) childNodes.push(newChild)
      else if (removal) childNodes[posIndex] = newChild
      else childNodes.splice(posIndex, 0, newChild)
    } else if (removal) {
      childNodes.splice(posIndex, 1)
    }
  }
  appendChild(child) { Element._single(this, child, this.childNodes.length, false) }
  insertChildAt(child, index) { Element._single(this, child, index, false) }
  removeChildAt(index) { Element._single(this, null, index, true) }
  removeChild(child) { Element._single(this, null, this.childNodes.indexOf(child), true) }
  replaceChildAt(child, index) { Element._single(this, child, index, true) }
  replaceChild(child, relChild) { Element._single(this, child, this.childNodes.indexOf(relChild), true) }
  insertChildren(children, index) {
    for (const c of children) {
      if (c.parentNode) throw new Error('Cannot batch-insert the node which already has a parent.')
      c.parentNode = this
    }
    if (index >= 0 && index < this.childNodes.length) this.childNodes.splice(index, 0, ...children)
    else this.childNodes.push(...children)
  }
  removeChildren(index, count) {
    const removed = this.childNodes.splice(index, count)
    for (const c of removed) c.parentNode = null
  }
  selfReplaceWith(replaceWith) {
    const parent = this.parentNode
    if (parent) parent.replaceChild(replaceWith, this)
  }
  hasPendingChanges() { return false }
  hasExternalClass() { return false }
  setNodeClass(v) { this.rec.nodeClass = v }
  setNodeStyle(v) { this.rec.nodeStyle = v }
  setDataset(name, v) { this.rec.d[name] = v }
  setMark(name, v) { this.rec.m[name] = v }
  updateAttribute(name, v) { this.rec.attr = this.rec.attr || {}; this.rec.attr[name] = v }
  addListener() {}
  removeListener() {}
  setModelBindingListener() {}
  triggerWorkletChangeLifetime() {}
}

export class TextNode extends Node {
  constructor(text, ownerShadowRoot) {
    super('text', ownerShadowRoot)
    this.textContent = text
  }
}

export class ShadowRoot extends Element {
  constructor() {
    super('root', null)
    this.ownerShadowRoot = this
    this.slotMode = SlotMode.Single
    this.slotValueUpdates = 0
  }
  getHostNode() { return this._host || (this._host = { getMethodCaller() { return this } }) }
  getSlotMode() { return this.slotMode }
  createTextNode(text = '') { return new TextNode(text, this) }
  createVirtualNode(virtualName = 'virtual') {
    const n = new Element('virtual', this)
    n.is = virtualName
    return n
  }
  createComponent(tagName, usingKey, genericImpls, placeholderCallback, initPropValues) {
    const n = new Element('el', this)
    n.is = tagName
    n.generics = genericImpls
    if (initPropValues) initPropValues(n)
    return n
  }
  replaceSlotValue(slot, name, value) { slot.rec.l[name] = { v: value } }
  applySlotValueUpdates() { this.slotValueUpdates += 1 }
}

export const Component = {
  getDataProxy() { throw new Error('stub: no data proxy') },
  hasProperty() { return false },
  getMethod() { return undefined },
}

export const isComponent = (n) => !!(n && n._$isComponent)
export const isNativeNode = (n) => !!(n && n.kind === 'el' && !n._$isComponent)
