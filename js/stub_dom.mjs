// Stub node model the repository's real ProcGenWrapper / RangeListManager run on.
// Deliberately dumb: a tree of nodes with the child operations of glass-easel's Element
// (index semantics copied from element.ts insertChildSingleOperation / batch ops).

export const ENV = { DEV: false }
export const StyleSegmentIndex = { MAIN: 0 }
export const SlotMode = { Direct: 0, Single: 1, Multiple: 2, Dynamic: 3 }

export const warnings = []
export const triggerWarning = (msg) => { warnings.push(String(msg)) }
export const dispatchError = (err) => { throw err }
export const safeCallback = (type, f, self, args) => f.apply(self, args)

let nodeCounter = 0

export class Node {
  constructor(kind, ownerShadowRoot) {
    this.kind = kind // 'text' | 'el' | 'virtual' | 'root'
    this.ownerShadowRoot = ownerShadowRoot
    this.parentNode = null
    this.childNodes = []
    this.uid = nodeCounter++
  }
  get parentIndex() {
    return this.parentNode ? this.parentNode.childNodes.indexOf(this) : -1
  }
  destroyBackendElementOnRemoval() {}
}

export class Element extends Node {
  constructor(kind, ownerShadowRoot) {
    super(kind, ownerShadowRoot)
    this.rec = { r: {}, d: {}, m: {}, v: {}, p: {}, wl: {}, a: {}, l: {} }
    this.slot = undefined
    this._$slotName = null
    this._$inheritSlots = false
    this._$slotElement = null
    this.slotNodes = undefined
  }
  static setSlotElement(node, slotElement) { node._$slotElement = slotElement }
  static setInheritSlots(node) { node._$inheritSlots = true }
  static setSlotName(node, name) { node._$slotName = name === undefined ? '' : name }

  static _single(parent, newChild, oriPosIndex, replace) {
    let posIndex = oriPosIndex
    const relChild = posIndex >= 0 ? parent.childNodes[posIndex] : undefined
    let removal
    if (replace) {
      if (!relChild) removal = false
      else if (newChild === relChild) removal = false
      else removal = true
    } else removal = false
    if (!removal && !newChild) return
    if (newChild) {
      const oldParent = newChild.parentNode
      if (oldParent) {
        const childNodes = oldParent.childNodes
        const oldPosIndex = childNodes.indexOf(newChild)
        childNodes.splice(oldPosIndex, 1)
        if (oldParent === parent && oldPosIndex < posIndex) posIndex -= 1
      }
      newChild.parentNode = parent
    }
    if (removal && relChild) relChild.parentNode = null
    const childNodes = parent.childNodes
    if (newChild) {
      if (posIndex < 0) childNodes.push(newChild)
      else if (removal) childNodes[posIndex] = newChild
      else childNodes.splice(posIndex, 0, newChild)
    } else if (removal) {
      childNodes.splice(posIndex, 1)
    }
  }
  appendChild(child) { Element._single(this, child, this.childNodes.length, false) }
  insertChildAt(child, index) { Element._single(this, child, index, false) }
  removeChildAt(index) { Element._single(this, null, index, true) }
  removeChild(child) { Element._single(this, null, this.childNodes.indexOf(child), true) }
  replaceChildAt(child, index) { Element._single(this, child, index, true) }
  replaceChild(child, relChild) { Element._single(this, child, this.childNodes.indexOf(relChild), true) }
  insertChildren(children, index) {
    for (const c of children) {
      if (c.parentNode) throw new Error('Cannot batch-insert the node which already has a parent.')
      c.parentNode = this
    }
    if (index >= 0 && index < this.childNodes.length) this.childNodes.splice(index, 0, ...children)
    else this.childNodes.push(...children)
  }
  removeChildren(index, count) {
    const removed = this.childNodes.splice(index, count)
    for (const c of removed) c.parentNode = null
  }
  selfReplaceWith(replaceWith) {
    const parent = this.parentNode
    if (parent) parent.replaceChild(replaceWith, this)
  }
  hasPendingChanges() { return false }
  hasExternalClass() { return false }
  setNodeClass(v) { this.rec.nodeClass = v }
  setNodeStyle(v) { this.rec.nodeStyle = v }
  setDataset(name, v) { this.rec.d[name] = v }
  setMark(name, v) { this.rec.m[name] = v }
  updateAttribute(name, v) { this.rec.attr = this.rec.attr || {}; this.rec.attr[name] = v }
  addListener() {}
  removeListener() {}
  setModelBindingListener() {}
  triggerWorkletChangeLifetime() {}
}

export class TextNode extends Node {
  constructor(text, ownerShadowRoot) {
    super('text', ownerShadowRoot)
    this.textContent = text
  }
}

// ---- dynamic-slot components -------------------------------------------------------------------------------
// Elements whose tag starts with `dyn-` are components with a shadow root in SlotMode.Dynamic that owns a FIXED list of
// slot instances (name + slot values). setDynamicSlotHandler / applySlotUpdates follow shadow_root.ts.
export const DYN_SLOTS = [
  { name: '', values: { sa: 'A0', sb: 1, sC: { k: 'c0', list: [1, 2] }, sd: [10, 20], item: 'I0', al0: 'x0' } },
  { name: 's1', values: { sa: 'A1', sb: 0, sC: { k: 'c1' }, sd: [], item: { v: 'iv', id: 7 } } },
  { name: '', values: { sa: undefined, sb: null, sC: 'str', sd: [30], item: 'I2' } },
]

function collectSlotNodes(host, slot, out) {
  const walk = (node) => {
    for (const c of node.childNodes) {
      if (c._$slotElement === slot) out.push(c)
      if (c.kind === 'virtual' && c._$inheritSlots) walk(c)
    }
  }
  walk(host)
}

// the slot list new dynamic-slot components start from (C06 histories replace it step by step); each entry has a stable id
export const slotState = { list: DYN_SLOTS.map((d, i) => ({ id: i, name: d.name, values: d.values })) }
export function resetSlotState() { slotState.list = DYN_SLOTS.map((d, i) => ({ id: i, name: d.name, values: d.values })) }

class DynShadowRoot {
  constructor(host) {
    this.host = host
    this.slots = slotState.list.map((d) => this.makeSlot(d))
    this.inserted = false
    this.dynamicSlots = new Map()
    this.names = []
  }
  makeSlot(d) {
    const host = this.host
    const e = new Element('virtual', host.ownerShadowRoot)
    e.is = 'slot'
    e._$dynId = d.id
    e._$slotName = d.name
    e._$slotValues = { ...d.values }
    Object.defineProperty(e, 'slotNodes', { get: () => { const out = []; collectSlotNodes(host, e, out); return out } })
    return e
  }
  slotById(id) { return this.slots.find((s) => s._$dynId === id) }
  getSlotMode() { return SlotMode.Dynamic }
  setDynamicSlotHandler(names, insert, remove, update) {
    this.names = names
    this.insertHandler = insert
    this.removeHandler = remove
    this.updateHandler = update
    if (this.inserted) {
      for (const meta of this.dynamicSlots.values()) meta.updatePathTree = meta.updatePathTree || Object.create(null)
    }
  }
  applySlotUpdates() {
    if (!this.inserted) {
      this.inserted = true
      const slots = []
      for (const slot of this.slots) {
        this.dynamicSlots.set(slot, { updatePathTree: undefined })
        slots.push({ slot, name: slot._$slotName, slotValues: slot._$slotValues })
      }
      if (this.insertHandler) this.insertHandler(slots)
    } else {
      for (const [slot, meta] of this.dynamicSlots.entries()) {
        const t = meta.updatePathTree
        if (t) {
          meta.updatePathTree = undefined
          if (this.updateHandler) this.updateHandler(slot, slot._$slotValues, t)
        }
      }
    }
  }
  // ---- what the owning component does to its slots later (shadow_root.ts: replaceSlotValue, applySlotValueUpdates,
  // _$applySlotRename, slot insertion / removal in dynamic mode) ----
  replaceSlotValue(slot, name, value) {
    const slotValues = slot._$slotValues
    if (!slotValues) return
    if (slotValues[name] === value) return
    slotValues[name] = value
    if (this.names.indexOf(name) < 0) return
    const meta = this.dynamicSlots.get(slot)
    if (!meta) return
    if (!meta.updatePathTree) meta.updatePathTree = Object.create(null)
    meta.updatePathTree[name] = true
  }
  applySlotValueUpdates(slot) {
    const meta = this.dynamicSlots.get(slot)
    const t = meta && meta.updatePathTree
    if (!t) return
    meta.updatePathTree = undefined
    if (this.updateHandler) this.updateHandler(slot, slot._$slotValues, t)
  }
  renameSlot(slot, newName) {
    slot._$slotName = newName
    if (!this.inserted) return
    this.dynamicSlots.set(slot, { updatePathTree: undefined })
    if (this.removeHandler) this.removeHandler([slot])
    if (this.insertHandler) this.insertHandler([{ slot, name: newName, slotValues: slot._$slotValues }])
  }
  insertSlot(d, index) {
    const slot = this.makeSlot(d)
    this.slots.splice(index, 0, slot)
    if (!this.inserted) return
    this.dynamicSlots.set(slot, { updatePathTree: undefined })
    if (this.insertHandler) this.insertHandler([{ slot, name: slot._$slotName, slotValues: slot._$slotValues }])
  }
  removeSlots(slots) {
    this.slots = this.slots.filter((s) => !slots.includes(s))
    if (!this.inserted) return
    for (const s of slots) this.dynamicSlots.delete(s)
    if (this.removeHandler) this.removeHandler(slots)
  }
}

export class ShadowRoot extends Element {
  constructor() {
    super('root', null)
    this.ownerShadowRoot = this
    this.slotMode = SlotMode.Single
    this.slotValueUpdates = 0
  }
  getHostNode() { return this._host || (this._host = { getMethodCaller() { return this } }) }
  getSlotMode() { return this.slotMode }
  createTextNode(text = '') { return new TextNode(text, this) }
  createVirtualNode(virtualName = 'virtual') {
    const n = new Element('virtual', this)
    n.is = virtualName
    return n
  }
  createComponent(tagName, usingKey, genericImpls, placeholderCallback, initPropValues) {
    const n = new Element('el', this)
    n.is = tagName
    n.generics = genericImpls
    if (typeof tagName === 'string' && tagName.startsWith('dyn-')) {
      n._$isComponent = true
      const sr = new DynShadowRoot(n)
      n.getShadowRoot = () => sr
    }
    if (initPropValues) initPropValues(n)
    return n
  }
  replaceSlotValue(slot, name, value) { slot.rec.l[name] = { v: value } }
  applySlotValueUpdates() { this.slotValueUpdates += 1 }
}

export const Component = {
  getDataProxy() { throw new Error('stub: no data proxy') },
  hasProperty() { return false },
  getMethod() { return undefined },
}

export const isComponent = (n) => !!(n && n._$isComponent)
export const isNativeNode = (n) => !!(n && n.kind === 'el' && !n._$isComponent)

// tmpl/index.ts imports this for external components (never instantiated here)
export class GlassEaselTemplateDOM {}
