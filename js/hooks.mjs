// Resolve hook: inside /repo/glass-easel/src/tmpl, `./range_list_diff` and `./proc_gen_wrapper` resolve to the
// real .ts files; every other relative import of those files (../component, ../element, ...) resolves to the stub DOM.
import { pathToFileURL, fileURLToPath } from 'node:url'
import path from 'node:path'

const STUB = pathToFileURL(path.join(path.dirname(fileURLToPath(import.meta.url)), 'stub_dom.mjs')).href

export async function resolve(specifier, context, nextResolve) {
  const parent = context.parentURL || ''
  if (parent.endsWith('/src/tmpl/proc_gen_wrapper.ts') || parent.endsWith('/src/tmpl/range_list_diff.ts')) {
    if (specifier === './range_list_diff' || specifier === './proc_gen_wrapper') {
      const url = new URL(specifier + '.ts', parent).href
      return { url, shortCircuit: true, format: 'module-typescript' }
    }
    if (specifier.startsWith('.')) {
      return { url: STUB, shortCircuit: true, format: 'module' }
    }
  }
  // tmpl/index.ts (template engine: update-path-tree construction from DataChange lists, binding-map dispatch) is real
  // too; its only value imports are ./proc_gen_wrapper (real) and ./native_rendering (stub)
  if (parent.endsWith('/src/tmpl/index.ts')) {
    if (specifier === './proc_gen_wrapper') {
      const url = new URL(specifier + '.ts', parent).href
      return { url, shortCircuit: true, format: 'module-typescript' }
    }
    if (specifier.startsWith('.')) {
      return { url: STUB, shortCircuit: true, format: 'module' }
    }
  }
  if (specifier.endsWith('/src/tmpl/index.ts')) {
    const r = await nextResolve(specifier, context)
    return { ...r, format: 'module-typescript', shortCircuit: true }
  }
  if (specifier.endsWith('/src/tmpl/proc_gen_wrapper.ts')) {
    const r = await nextResolve(specifier, context)
    return { ...r, format: 'module-typescript', shortCircuit: true }
  }
  return nextResolve(specifier, context)
}
