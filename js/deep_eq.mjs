// Value comparison used by every oracle: `===` with NaN equal to itself (0 and -0 not distinguished),
// arrays by length / holes / items, objects by own enumerable string keys (as sets) and values,
// functions by identity (or by source text with opts.fnBySource, used where two module instances are compared).
export function deepEq(a, b, opts) {
  if (a === b) return true
  if (a !== a && b !== b) return true
  const ta = typeof a
  const tb = typeof b
  if (ta !== tb) return false
  if (ta === 'function') {
    if (opts && opts.fnBySource) return Function.prototype.toString.call(a) === Function.prototype.toString.call(b)
    return false
  }
  if (ta !== 'object' || a === null || b === null) return false
  const aa = Array.isArray(a)
  const ab = Array.isArray(b)
  if (aa !== ab) return false
  if (aa) {
    if (a.length !== b.length) return false
    for (let i = 0; i < a.length; i += 1) {
      if ((i in a) !== (i in b)) return false
      if (!deepEq(a[i], b[i], opts)) return false
    }
    return true
  }
  const ka = Object.keys(a)
  const kb = Object.keys(b)
  if (ka.length !== kb.length) return false
  for (const k of ka) {
    if (!Object.prototype.hasOwnProperty.call(b, k)) return false
    if (!deepEq(a[k], b[k], opts)) return false
  }
  return true
}

export function show(v, depth = 0) {
  if (v === undefined) return 'undefined'
  if (v === null) return 'null'
  const t = typeof v
  if (t === 'number') return Object.is(v, -0) ? '-0' : String(v)
  if (t === 'string') return JSON.stringify(v)
  if (t === 'boolean') return String(v)
  if (t === 'function') return 'fn:' + (v.name || 'anon')
  if (t === 'bigint' || t === 'symbol') return t + ':' + String(v)
  if (depth > 6) return '...'
  if (Array.isArray(v)) {
    const items = []
    for (let i = 0; i < v.length; i += 1) items.push(i in v ? show(v[i], depth + 1) : '<hole>')
    return '[' + items.join(',') + ']'
  }
  return '{' + Object.keys(v).map((k) => JSON.stringify(k) + ':' + show(v[k], depth + 1)).join(',') + '}'
}
