// Registers the resolve hook that lets node load the repository's TypeScript runtime files as they are.
import { register } from 'node:module'
register('./hooks.mjs', import.meta.url)
