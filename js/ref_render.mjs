// Reference renderer: interprets the generator's model (never the compiler's AST or output) with data D and
// produces the same dump shape as the stub DOM. Expression values come from V8 evaluating the model's fully
// parenthesised reference JS (`refjs`), in which identifiers are already resolved by the model's lexical scoping.

export function makePool() {
  const pool = {
    fn: function fn(a, b) { 'use strict'; return 'fn(' + [a, b].map((x) => (x === undefined ? '' : typeof x === 'object' && x !== null ? 'o' : String(x))).join(',') + ')' },
    inc: function inc(x) { 'use strict'; return x + 1 },
    self: function self() { 'use strict'; return this === undefined ? 'plain' : 'method' },
    id: function id(x) { 'use strict'; return x },
    Arr: Array,
    Obj: Object,
    Fn: Function,
    sentinel: { $sentinel: true },
  }
  return pool
}

export function evalData(src, pool) {
  // eslint-disable-next-line no-new-func
  return new Function('P', '"use strict"; return (' + src + ')')(pool)
}

const $get = (o, k) => (o === null || o === undefined ? undefined : o[k])
const $call = (f, args) => (typeof f === 'function' ? f(...args) : undefined)
const Y = (v) => (v === null || v === undefined ? '' : String(v))

const fnCache = new Map()
function compile(refjs) {
  let f = fnCache.get(refjs)
  if (!f) {
    // eslint-disable-next-line no-new-func
    f = new Function('$d', '$s', '$get', '$call', 'return (' + refjs + ')')
    if (fnCache.size > 20000) fnCache.clear()
    fnCache.set(refjs, f)
  }
  return f
}

const isTmplWs = (s) => /^[ \t\n\v\f\r]*$/.test(s)

import { DYN_SLOTS } from './stub_dom.mjs'

// the statement's path algebra (same as oracle/pathres.rs): directory of the referrer or the root, drop '.', pop on '..'
export function resolveRef(base, rel) {
  let stack = []
  let body = rel
  if (rel.startsWith('/')) body = rel.slice(1)
  else { for (const seg of base.split('/')) pushSeg(stack, seg); stack.pop() }
  for (const seg of body.split('/')) pushSeg(stack, seg)
  return stack.join('/')
}
function pushSeg(stack, seg) {
  if (seg === '' || seg === '.') return
  if (seg === '..') { stack.pop(); return }
  stack.push(seg)
}

const PLACEHOLDER = () => ({ k: 'v', id: undefined, slot: undefined, kids: [] })

class Renderer {
  constructor(model, D, pool) {
    this.model = model
    this.pool = pool
    this.scriptCache = Object.create(null)
    this.fileModules = Object.create(null)
    this.D = D
  }

  loadScript(path) {
    const c = this.scriptCache[path]
    if (c) return c.exports
    const def = this.model.scripts[path]
    if (!def) throw new Error('ref: no such script ' + path)
    const module = { exports: {} }
    this.scriptCache[path] = module
    const require = (rel) => {
      const target = def.requires ? def.requires[rel] : undefined
      if (target === undefined) throw new Error('ref: unresolved require ' + rel)
      return this.loadScript(target)
    }
    // eslint-disable-next-line no-new-func
    new Function('require', 'exports', 'module', def.js).call(null, require, module.exports, module)
    return module.exports
  }

  modulesOf(path) {
    let m = this.fileModules[path]
    if (m) return m
    const file = this.model.files[path]
    m = []
    this.fileModules[path] = m
    for (const w of file.wxs || []) {
      if (w.kind === 'inline') {
        const module = { exports: {} }
        // an inline module is registered as `<file>#<module>`: it requires relative to the file's directory
        const require = (rel) => this.loadScript(resolveRef(path, rel))
        // eslint-disable-next-line no-new-func
        new Function('require', 'exports', 'module', w.js).call(null, require, module.exports, module)
        m.push(module.exports)
      } else {
        m.push(this.loadScript(w.path))
      }
    }
    return m
  }

  ev(refjs, ctx) {
    return compile(refjs)(ctx.d, ctx.s, $get, $call)
  }

  // Val -> value
  val(v, ctx) {
    if (v === null || v === undefined) return undefined
    if ('s' in v) return v.s
    if ('v' in v) return v.v
    if ('e' in v) return this.ev(v.e, ctx)
    if ('cat' in v) return v.cat.map((p) => ('lit' in p ? p.lit : Y(this.ev(p.e, ctx)))).join('')
    throw new Error('ref: bad Val ' + JSON.stringify(v))
  }

  valStr(v, ctx) {
    // Val in a position the runtime stringifies with Y()
    if (v === null || v === undefined) return undefined
    if ('s' in v) return v.s
    return Y(this.val(v, ctx))
  }

  truthy(v, ctx) {
    return !!this.val(v, ctx)
  }

  rec(attrs, ctx) {
    const rec = {}
    for (const a of attrs || []) {
      const value = this.val(a.val, ctx)
      switch (a.ch) {
        case 'c': case 'y': case 'i':
          rec[a.ch] = value
          break
        case 'r': {
          rec.r = rec.r || {}
          const it = { v: value }
          this.lv(a, it, ctx)
          rec.r[a.name] = it
          break
        }
        case 'd': case 'm': case 'wl': case 'a':
          rec[a.ch] = rec[a.ch] || {}
          rec[a.ch][a.name] = value
          break
        case 'v': {
          rec.v = rec.v || {}
          const it = { v: value, dyn: !!a.dyn }
          this.lv(a, it, ctx)
          rec.v[`${a.name}|${a.final ? 1 : 0}${a.mutated ? 1 : 0}${a.capture ? 1 : 0}`] = it
          break
        }
        case 'p': case 'l': {
          rec[a.ch] = rec[a.ch] || {}
          const it = { v: value }
          this.lv(a, it, ctx)
          rec[a.ch][a.name] = it
          break
        }
        default:
          throw new Error('ref: bad channel ' + a.ch)
      }
    }
    return rec
  }

  // `g`: the location the binding's expression reads, in the runtime's general form ([0,...data path] | [1,abs,...] |
  // [2,file,module,...]); undefined when the expression is not an access chain. `lvc`: a path must be present.
  lv(a, it, ctx) {
    if (a.lv === undefined || a.lv === null) return
    const g = this.path(a.lv, ctx)
    if (g !== undefined && g !== null) { it.g = g; if (a.lvc) it.lvc = true }
  }

  // expected lvalue path: list of segments {k:'lit',v} | {k:'e',e:refjs} | {k:'scope', i} (prefix taken from scope's path)
  // | {k:'cond', e, t:[...]|null, f:[...]|null}
  path(spec, ctx) {
    const out = []
    for (const seg of spec) {
      if (seg.k === 'lit') out.push(seg.v)
      else if (seg.k === 'e') out.push(this.ev(seg.e, ctx))
      else if (seg.k === 'scope') {
        const p = ctx.paths[seg.i]
        if (!p) return undefined
        out.push(...p)
      } else if (seg.k === 'cond') {
        const br = this.ev(seg.e, ctx) ? seg.t : seg.f
        if (br === null) return null
        const sub = this.path(br, ctx)
        if (sub === undefined || sub === null) return sub
        out.push(...sub)
      } else throw new Error('ref: bad path seg')
    }
    return out
  }

  // `sl`: when defined, the nodes are the content of a dynamic-slot component for one slot instance named `sl.name`
  // (proc_gen_wrapper.ts handleChildrenCreation with a slotElement): text nodes exist only in the default slot, an
  // element / slotted block only in the slot its `slot` attribute names, everything else becomes a placeholder node;
  // if-groups, loops, template calls and includes pass the rule on to their content.
  nodes(list, ctx, out, sl) {
    for (const n of list) this.node(n, ctx, out, sl)
  }

  lpathsOf(file) {
    return (this.model.files[file].wxs || []).map((w) => w.lpath || null)
  }

  lookupTemplate(file, name) {
    // local first, then imports (later import wins)
    const f = this.model.files[file]
    if (f.named && Object.prototype.hasOwnProperty.call(f.named, name)) return { file, body: f.named[name] }
    const imports = f.imports || []
    for (let i = imports.length - 1; i >= 0; i -= 1) {
      const g = this.model.files[imports[i]]
      if (g && g.named && Object.prototype.hasOwnProperty.call(g.named, name)) return { file: imports[i], body: g.named[name] }
    }
    return null
  }

  node(n, ctx, out, sl) {
    switch (n.k) {
      case 'comment':
        return
      case 'text': {
        const dynamic = n.pieces.some((p) => 'e' in p)
        if (!dynamic) {
          const text = n.pieces.map((p) => p.lit).join('')
          if (isTmplWs(text)) return
          if (sl && sl.name !== '') { out.push(PLACEHOLDER()); return }
          out.push({ k: 't', id: n.id, text })
        } else {
          if (sl && sl.name !== '') { out.push(PLACEHOLDER()); return }
          const text = n.pieces.map((p) => ('lit' in p ? p.lit : Y(this.ev(p.e, ctx)))).join('')
          out.push({ k: 't', id: n.id, text })
        }
        return
      }
      case 'el': {
        const kids = []
        const depth = ctx.s.length
        for (const r of n.slotRefs || []) { ctx.s.push(ctx.slotValues ? ctx.slotValues[r.name] : undefined); ctx.paths.push(null) }
        // slot names are strings: static verbatim, dynamic values stringified with null/undefined as ''
        let slot = n.slot === undefined || n.slot === null ? undefined : this.valStr(n.slot, ctx)
        if (sl) {
          if (sl.name !== (slot || '')) { ctx.s.length = depth; ctx.paths.length = depth; out.push(PLACEHOLDER()); return }
          slot = undefined // assigned through the slot element, not through the slot attribute
        }
        const rec = this.rec(n.attrs, ctx)
        if (typeof n.tag === 'string' && n.tag.startsWith('dyn-')) {
          for (const inst of DYN_SLOTS) this.nodes(n.kids, { ...ctx, slotValues: inst.values }, kids, { name: inst.name })
        } else {
          this.nodes(n.kids, { ...ctx, slotValues: undefined }, kids)
        }
        ctx.s.length = depth
        ctx.paths.length = depth
        out.push({ k: 'e', id: n.id, tag: n.tag, generics: n.generics || {}, slot, rec, kids })
        return
      }
      case 'if': {
        for (const br of n.branches) {
          if (br.cond === null || this.truthy(br.cond, ctx)) {
            this.nodes(br.kids, ctx, out, sl)
            return
          }
        }
        return
      }
      case 'for': {
        const list = this.val(n.list, ctx)
        let items = []
        let idx = null
        if (Array.isArray(list)) { items = list }
        else if (typeof list === 'object' && list !== null) { idx = Object.keys(list); items = idx.map((k) => list[k]) }
        else if (typeof list === 'string') { items = Array.from({ length: list.length }, (_, i) => list[i]) }
        else if (typeof list === 'number') {
          const len = Number.isSafeInteger(list) && list >= 0 && list < 2 ** 32 ? list : 0
          items = Array.from({ length: len }, (_, i) => i)
        }
        const listPath = n.listPath === undefined || n.listPath === null ? null : this.path(n.listPath, ctx)
        for (let i = 0; i < items.length; i += 1) {
          const index = idx === null ? i : idx[i]
          const depth = ctx.s.length
          ctx.s.push(i in items ? items[i] : undefined, index)
          ctx.paths.push(listPath ? [...listPath, index] : null, null)
          this.nodes(n.kids, ctx, out, sl)
          ctx.s.length = depth
          ctx.paths.length = depth
        }
        return
      }
      case 'block': {
        const hasSlot = n.slot !== undefined && n.slot !== null
        const refs = n.slotRefs || []
        if (!hasSlot && refs.length === 0) { this.nodes(n.kids, ctx, out, sl); return }
        const depth = ctx.s.length
        for (const r of refs) { ctx.s.push(ctx.slotValues ? ctx.slotValues[r.name] : undefined); ctx.paths.push(null) }
        const kids = []
        const slot = hasSlot ? this.valStr(n.slot, ctx) : undefined
        if (hasSlot && sl) {
          // a slotted block under a dynamic-slot component exists only in the slot it names
          if (sl.name !== slot) { ctx.s.length = depth; ctx.paths.length = depth; out.push(PLACEHOLDER()); return }
          this.nodes(n.kids, { ...ctx, slotValues: undefined }, kids)
          ctx.s.length = depth
          ctx.paths.length = depth
          out.push({ k: 'v', id: n.id, slot: undefined, kids })
          return
        }
        this.nodes(n.kids, hasSlot ? { ...ctx, slotValues: undefined } : ctx, kids, hasSlot ? undefined : sl)
        ctx.s.length = depth
        ctx.paths.length = depth
        if (hasSlot) out.push({ k: 'v', id: n.id, slot, kids })
        else out.push(...kids)
        return
      }
      case 'tis': {
        const name = this.val(n.is, ctx)
        if (!name) return
        const t = this.lookupTemplate(ctx.file, String(name))
        if (!t) return
        const d = n.data === undefined || n.data === null ? '' : this.ev(n.data, ctx)
        const mods = this.modulesOf(t.file)
        this.nodes(t.body, { file: t.file, d, s: [...mods], paths: this.lpathsOf(t.file) }, out, sl)
        return
      }
      case 'include': {
        const f = this.model.files[n.path]
        if (!f) return
        const mods = this.modulesOf(n.path)
        this.nodes(f.body, { file: n.path, d: ctx.d, s: [...mods], paths: this.lpathsOf(n.path) }, out, sl)
        return
      }
      case 'slot': {
        const name = n.name === undefined || n.name === null ? '' : this.valStr(n.name, ctx)
        const depth = ctx.s.length
        for (const r of n.slotRefs || []) { ctx.s.push(ctx.slotValues ? ctx.slotValues[r.name] : undefined); ctx.paths.push(null) }
        const rec = this.rec(n.attrs, ctx)
        const slot = sl || n.slot === undefined || n.slot === null ? undefined : this.valStr(n.slot, ctx)
        ctx.s.length = depth
        ctx.paths.length = depth
        out.push({ k: 's', id: n.id, name, slot, rec })
        return
      }
      default:
        throw new Error('ref: unknown node kind ' + n.k)
    }
  }
}

export function refRender(model, entry, D, pool) {
  const r = new Renderer(model, D, pool)
  const file = model.files[entry]
  if (!file) throw new Error('ref: no such file ' + entry)
  const out = []
  const mods = r.modulesOf(entry)
  r.nodes(file.body, { file: entry, d: D, s: [...mods], paths: r.lpathsOf(entry) }, out)
  return out
}
