#!/bin/sh
# selftest/eval_seed.sh <patch.diff> <Cnn> [more Cnn...]  — apply a seeded change to /repo, run the quick checks, undo it.
# Prints one line per check: "<patch> <Cnn> exit=<code> <first VIOLATION line or ->"
set -u
PATCH="$1"; shift
cd /repo || exit 2
if [ -n "$(git status --porcelain --untracked-files=no)" ]; then echo "/repo not clean" >&2; exit 2; fi
if ! git apply --check "$PATCH" 2>/dev/null; then echo "$PATCH: does not apply" ; exit 3; fi
git apply "$PATCH"
trap 'git -C /repo checkout -- . ' EXIT INT TERM
for ID in "$@"; do
  OUT=$(cd /verif && VERIF_SEED="${VERIF_SEED:-1}" ./run.sh "$ID" quick 2>/tmp/eval_seed.err)
  CODE=$?
  V=$(printf '%s\n' "$OUT" | grep -m1 '^VIOLATION' || echo -)
  W=$(grep -m1 'what:' /tmp/eval_seed.err | cut -c1-220)
  echo "$(basename $(dirname $PATCH))/$(basename $PATCH) $ID exit=$CODE $V $W"
done
