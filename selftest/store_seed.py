#!/usr/bin/env python3
# selftest/store_seed.py <Cnn> <n> "<checks run>" "<result>"  — copy a confirmed seed from /tmp/seed/<Cnn>/SEED_OUT into /verif/seeded/<Cnn>-<n>
import json,os,shutil,sys,subprocess
pid,n,ran,res=sys.argv[1],sys.argv[2],sys.argv[3],sys.argv[4]
dst=sys.argv[5] if len(sys.argv)>5 else n
root=os.environ.get('SEED_ROOT','/tmp/seed')
so=f'{root}/{pid}/SEED_OUT'
d=f'/verif/seeded/{pid}-{dst}'
os.makedirs(d,exist_ok=True)
shutil.copy(f'{so}/patch{n}.diff', f'{d}/patch.diff')
if os.path.exists(f'{d}/demo'): shutil.rmtree(f'{d}/demo')
shutil.copytree(f'{so}/demo{n}', f'{d}/demo', ignore=shutil.ignore_patterns('out','target','*.log','node_modules'))
m=json.load(open(f'{so}/meta{n}.json'))
base=subprocess.check_output(['git','-C',f'{root}/{pid}','log','--format=%h','-1']).decode().strip()
meta={"property":pid,"summary":m.get('summary'),"needs_to_manifest":m.get('needs_to_manifest'),"files_touched":m.get('files_touched'),
      "base_commit":base,
      "confirmed":"selftest/confirm_seed.sh in the agent's scratch worktree: unpatched demo passes; patched tree builds, 84 pinned tests pass, demo fails",
      "checks_run":ran,"check_result":res}
json.dump(meta,open(f'{d}/meta.json','w'),indent=1)
print('stored',d)
