#!/bin/sh
# selftest/run_all.sh <tier> <seed...>  — every claimed check, one line each: id seed exit wall
TIER="$1"; shift
cd /verif
for SEED in "$@"; do
  for ID in C01 C02 C03 C04 C05 C06 C07 C08 C09 C10 C11 C12 C13 C14 C15 C16 C17 C18 C19 C20; do
    S=$(date +%s.%N)
    OUT=$(VERIF_SEED=$SEED ./run.sh $ID $TIER 2>/tmp/run_all.err); CODE=$?
    E=$(date +%s.%N)
    V=$(printf '%s\n' "$OUT" | grep -c '^VIOLATION')
    K=$(printf '%s\n' "$OUT" | grep -c '^KNOWN-FINDING')
    printf '%s seed=%s exit=%s violations=%s known=%s wall=%.1fs\n' "$ID" "$SEED" "$CODE" "$V" "$K" "$(echo "$E - $S" | bc)"
    if [ "$CODE" != "0" ]; then grep -E "sig:|what:|error" /tmp/run_all.err | cut -c1-400 | head -6; fi
  done
done
