#!/bin/sh
# selftest/confirm_seed.sh <worktree> <patch> <demo command...>
# Confirms a seeded change in a scratch worktree: unpatched demo passes; patched tree builds, the 84 pinned tests pass,
# and the demo fails. Prints CONFIRMED or the step that failed.
WT="$1"; PATCH="$2"; shift 2
cd "$WT" || exit 2
git checkout -q -- . 
sh -c "$*" >/tmp/confirm_unpatched.log 2>&1; U=$?
git apply "$PATCH" || { echo "NOT-CONFIRMED: patch does not apply"; exit 1; }
cargo build --workspace --offline >/tmp/confirm_build.log 2>&1; B=$?
cargo test --workspace --offline >/tmp/confirm_tests.log 2>&1; T=$?
NT=$(grep -E "^test result: ok" /tmp/confirm_tests.log | sed -E 's/.*ok\. ([0-9]+) passed.*/\1/' | paste -sd+ | bc)
sh -c "$*" >/tmp/confirm_patched.log 2>&1; P=$?
git checkout -q -- .
if [ $U -eq 0 ] && [ $B -eq 0 ] && [ $T -eq 0 ] && [ $P -ne 0 ]; then echo "CONFIRMED unpatched_demo=pass build=ok tests=$NT patched_demo=fail($P)"; else echo "NOT-CONFIRMED unpatched=$U build=$B tests=$T($NT) patched=$P"; exit 1; fi
