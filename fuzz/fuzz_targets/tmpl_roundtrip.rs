#![no_main]
use libfuzzer_sys::fuzz_target;

// C14 (fixpoint part) on arbitrary text
fuzz_target!(|data: &[u8]| {
    if let Ok(s) = std::str::from_utf8(data) {
        if let Some((prop, what)) = gev::checks::fuzz_oracles::tmpl_roundtrip(s) {
            panic!("GEV-VIOLATION property={} {}", prop, what);
        }
    }
});
