#![no_main]
use libfuzzer_sys::fuzz_target;

// C15 (iii) + C16 on arbitrary text: diagnostic locations, AST locations, source-map tokens (oracle: gev::checks::fuzz_oracles)
fuzz_target!(|data: &[u8]| {
    if let Ok(s) = std::str::from_utf8(data) {
        if let Some((prop, what)) = gev::checks::fuzz_oracles::tmpl_positions(s) {
            panic!("GEV-VIOLATION property={} {}", prop, what);
        }
    }
});
