#![no_main]
use libfuzzer_sys::fuzz_target;

// C01 + C19 (validity part) on arbitrary stylesheets; the first byte selects the options
fuzz_target!(|data: &[u8]| {
    if data.is_empty() {
        return;
    }
    if let Ok(s) = std::str::from_utf8(&data[1..]) {
        if let Some((prop, what)) = gev::checks::fuzz_oracles::wxss_map(s, data[0]) {
            panic!("GEV-VIOLATION property={} {}", prop, what);
        }
    }
});
