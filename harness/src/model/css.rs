//! The generator's CSS model. A stylesheet is a tree (rules, at-rules, selectors, declarations); `tokens()` flattens
//! it into model tokens with context annotations (class-selector name, rpx dimension, ...) separated by whitespace
//! *slots* whose kind says what the property demands there:
//!   Sig  — whitespace carries meaning (descendant combinator; around + / - in calc): source has it, output must keep it
//!   Sep  — the two tokens must stay two tokens (source prints whitespace or a comment; output is only re-tokenised)
//!   Opt  — insignificant: source may or may not have whitespace / comments
//!   Tight — no whitespace in the source, and the output must not introduce any (compound selectors, micro-syntaxes)

use crate::util::Rng;
use serde::{Deserialize, Serialize};

#[derive(Clone, Debug, PartialEq, Serialize, Deserialize)]
pub enum Slot {
    Sig,
    Sep,
    Opt,
    Tight,
}

#[derive(Clone, Debug, PartialEq, Serialize, Deserialize)]
pub enum Bracket {
    Paren,
    Square,
    Curly,
    Func(String),
}

#[derive(Clone, Debug, PartialEq, Serialize, Deserialize)]
pub enum TokKind {
    Ident(String),
    AtKeyword(String),
    /// `#name` (id selector or colour)
    Hash(String),
    Str(String),
    /// unquoted url(...)
    Url(String),
    Delim(char),
    /// numeric tokens keep their exact source spelling: sign, digits, fraction, exponent
    Number(String),
    Percentage(String),
    Dimension(String, String),
    Colon,
    Semicolon,
    Comma,
    /// `~=` `|=` `^=` `$=` `*=`
    Match(String),
    Open(Bracket),
    Close(Bracket),
    /// expectation only (never printed): a comment with this content must precede the next token
    CommentMarker(String),
}

#[derive(Clone, Debug, PartialEq, Serialize, Deserialize)]
pub struct Tok {
    pub kind: TokKind,
    /// identifier that is the name of a class selector in selector context (must be prefixed)
    pub class_name: bool,
    /// a decoy the statement says must stay untouched (for labels)
    pub decoy: bool,
    /// token of an at-rule wrapper (keyword, prelude, braces) in a derived low-priority sheet
    #[serde(default)]
    pub wrapper: bool,
    /// token of a `:host` rule (pure or combined)
    #[serde(default)]
    pub host: bool,
    /// source (line, utf16 col) filled in by the printer
    pub src_pos: (u32, u32),
}

impl Tok {
    pub fn new(kind: TokKind) -> Tok {
        Tok { kind, class_name: false, decoy: false, wrapper: false, host: false, src_pos: (0, 0) }
    }
}

#[derive(Clone, Debug, PartialEq, Serialize, Deserialize)]
pub enum Item {
    T(Tok),
    S(Slot),
}

#[derive(Default)]
pub struct Emit {
    pub items: Vec<Item>,
    /// mark the tokens of at-rule wrappers (used for derived low-priority sheets)
    pub mark_wrappers: bool,
}

impl Emit {
    pub fn tok(&mut self, k: TokKind) {
        self.items.push(Item::T(Tok::new(k)));
    }
    pub fn class(&mut self, name: &str) {
        let mut t = Tok::new(TokKind::Ident(name.to_string()));
        t.class_name = true;
        self.items.push(Item::T(t));
    }
    pub fn decoy(&mut self, k: TokKind) {
        let mut t = Tok::new(k);
        t.decoy = true;
        self.items.push(Item::T(t));
    }
    pub fn slot(&mut self, s: Slot) {
        // merge adjacent slots: the stronger requirement wins (Tight and Sig never meet by construction)
        if let Some(Item::S(prev)) = self.items.last_mut() {
            let rank = |s: &Slot| match s {
                Slot::Opt => 0,
                Slot::Sep => 1,
                Slot::Tight => 2,
                Slot::Sig => 3,
            };
            if rank(&s) > rank(prev) {
                *prev = s;
            }
            return;
        }
        self.items.push(Item::S(s));
    }
    pub fn ident(&mut self, s: &str) {
        self.tok(TokKind::Ident(s.to_string()))
    }
    pub fn delim(&mut self, c: char) {
        self.tok(TokKind::Delim(c))
    }
    pub fn open(&mut self, b: Bracket) {
        self.tok(TokKind::Open(b))
    }
    pub fn close(&mut self, b: Bracket) {
        self.tok(TokKind::Close(b))
    }
}

// ------------------------------------------------------------------------------------------------
// selectors

#[derive(Clone, Debug, PartialEq, Serialize, Deserialize)]
pub enum Comb {
    Descendant,
    Child,
    Next,
    Sibling,
}

#[derive(Clone, Debug, PartialEq, Serialize, Deserialize)]
pub enum Simple {
    Class(String),
    Id(String),
    Attr { name: String, op: Option<String>, val: Option<AttrVal> },
    Pseudo(String),
    PseudoEl(String),
    /// :not(...) :is(...) :where(...) :has(...) ::slotted(...) :host-context(...)
    PseudoFn { name: String, element: bool, args: Vec<Complex> },
    /// :nth-child(An+B [of S])
    Nth { name: String, anb: Vec<String>, of: Option<Vec<Complex>> },
}

#[derive(Clone, Debug, PartialEq, Serialize, Deserialize)]
pub enum AttrVal {
    Ident(String),
    Str(String),
}

#[derive(Clone, Debug, PartialEq, Serialize, Deserialize)]
pub struct Compound {
    /// type selector, `*`, or nothing
    pub ty: Option<String>,
    pub parts: Vec<Simple>,
}

#[derive(Clone, Debug, PartialEq, Serialize, Deserialize)]
pub struct Complex {
    pub first: Compound,
    pub rest: Vec<(Comb, Compound)>,
}

impl Compound {
    pub fn is_empty(&self) -> bool {
        self.ty.is_none() && self.parts.is_empty()
    }
    pub fn emit(&self, e: &mut Emit) {
        let mut first = true;
        let tight = |e: &mut Emit, first: &mut bool| {
            if !*first {
                e.slot(Slot::Tight);
            }
            *first = false;
        };
        if let Some(t) = &self.ty {
            tight(e, &mut first);
            if t == "*" {
                e.delim('*')
            } else {
                e.decoy(TokKind::Ident(t.clone()))
            }
        }
        for p in &self.parts {
            tight(e, &mut first);
            match p {
                Simple::Class(n) => {
                    e.delim('.');
                    e.slot(Slot::Tight);
                    e.class(n);
                }
                Simple::Id(n) => e.decoy(TokKind::Hash(n.clone())),
                Simple::Attr { name, op, val } => {
                    e.open(Bracket::Square);
                    e.slot(Slot::Opt);
                    e.decoy(TokKind::Ident(name.clone()));
                    if let (Some(op), Some(val)) = (op, val) {
                        e.slot(Slot::Opt);
                        if op == "=" {
                            e.delim('=')
                        } else {
                            e.tok(TokKind::Match(op.clone()))
                        }
                        e.slot(Slot::Opt);
                        match val {
                            AttrVal::Ident(s) => e.decoy(TokKind::Ident(s.clone())),
                            AttrVal::Str(s) => e.decoy(TokKind::Str(s.clone())),
                        }
                    }
                    e.slot(Slot::Opt);
                    e.close(Bracket::Square);
                }
                Simple::Pseudo(n) => {
                    e.tok(TokKind::Colon);
                    e.slot(Slot::Tight);
                    e.decoy(TokKind::Ident(n.clone()));
                }
                Simple::PseudoEl(n) => {
                    e.tok(TokKind::Colon);
                    e.slot(Slot::Tight);
                    e.tok(TokKind::Colon);
                    e.slot(Slot::Tight);
                    e.decoy(TokKind::Ident(n.clone()));
                }
                Simple::PseudoFn { name, element, args } => {
                    e.tok(TokKind::Colon);
                    e.slot(Slot::Tight);
                    if *element {
                        e.tok(TokKind::Colon);
                        e.slot(Slot::Tight);
                    }
                    e.open(Bracket::Func(name.clone()));
                    emit_selector_list(args, e);
                    e.close(Bracket::Func(name.clone()));
                }
                Simple::Nth { name, anb, of } => {
                    e.tok(TokKind::Colon);
                    e.slot(Slot::Tight);
                    e.open(Bracket::Func(name.clone()));
                    e.slot(Slot::Opt);
                    for (i, t) in anb.iter().enumerate() {
                        if i > 0 {
                            // `2n +1` / `2n+1` are both valid An+B: whitespace before a signed integer is insignificant
                            e.slot(Slot::Opt);
                        }
                        e.tok(anb_token(t));
                    }
                    if let Some(sel) = of {
                        e.slot(Slot::Sep);
                        e.decoy(TokKind::Ident("of".into()));
                        e.slot(Slot::Sep);
                        emit_selector_list_inner(sel, e);
                    }
                    e.slot(Slot::Opt);
                    e.close(Bracket::Func(name.clone()));
                }
            }
        }
    }
}

/// An+B pieces as the tokens a CSS tokenizer produces for the tight spelling: "2n" "+1" | "odd" | "-n" "+3" | "5" | "n"
pub fn anb_token(t: &str) -> TokKind {
    let b = t.as_bytes();
    let numeric_start = b[0].is_ascii_digit() || ((b[0] == b'+' || b[0] == b'-') && b.len() > 1 && b[1].is_ascii_digit());
    if numeric_start {
        let digits_end = t.char_indices().skip(1).find(|(_, c)| !c.is_ascii_digit()).map(|(i, _)| i).unwrap_or(t.len());
        if digits_end == t.len() {
            TokKind::Number(t.to_string())
        } else {
            TokKind::Dimension(t[..digits_end].to_string(), t[digits_end..].to_string())
        }
    } else {
        TokKind::Ident(t.to_string())
    }
}

impl Complex {
    pub fn emit(&self, e: &mut Emit) {
        self.first.emit(e);
        for (c, comp) in &self.rest {
            match c {
                Comb::Descendant => e.slot(Slot::Sig),
                Comb::Child => {
                    e.slot(Slot::Opt);
                    e.delim('>');
                    e.slot(Slot::Opt);
                }
                Comb::Next => {
                    e.slot(Slot::Opt);
                    e.delim('+');
                    e.slot(Slot::Opt);
                }
                Comb::Sibling => {
                    e.slot(Slot::Opt);
                    e.delim('~');
                    e.slot(Slot::Opt);
                }
            }
            comp.emit(e);
        }
    }
    pub fn class_depths(&self, depth: usize, out: &mut Vec<usize>) {
        let mut visit = |c: &Compound| {
            for p in &c.parts {
                match p {
                    Simple::Class(_) => out.push(depth),
                    Simple::PseudoFn { args, .. } => {
                        for a in args {
                            a.class_depths(depth + 1, out)
                        }
                    }
                    Simple::Nth { of: Some(sel), .. } => {
                        for a in sel {
                            a.class_depths(depth + 1, out)
                        }
                    }
                    _ => {}
                }
            }
        };
        visit(&self.first);
        for (_, c) in &self.rest {
            visit(c);
        }
    }
}

pub fn emit_selector_list_inner(list: &[Complex], e: &mut Emit) {
    for (i, c) in list.iter().enumerate() {
        if i > 0 {
            e.slot(Slot::Opt);
            e.tok(TokKind::Comma);
            e.slot(Slot::Opt);
        }
        c.emit(e);
    }
}

pub fn emit_selector_list(list: &[Complex], e: &mut Emit) {
    e.slot(Slot::Opt);
    emit_selector_list_inner(list, e);
    e.slot(Slot::Opt);
}

// ------------------------------------------------------------------------------------------------
// declaration values

#[derive(Clone, Debug, PartialEq, Serialize, Deserialize)]
pub enum VTok {
    Ident(String),
    Number(String),
    Percentage(String),
    Dimension(String, String),
    Str(String),
    Url(String),
    Hash(String),
    Comma,
    Slash,
    /// `.5`-like decoys are Numbers; `a.b` is Ident Delim Ident written tight
    DottedIdent(String, String),
    Func(String, Vec<VTok>),
    /// calc-family function: operators need whitespace around + and -
    Calc(String, Box<CalcExpr>),
    Paren(Vec<VTok>),
    Square(Vec<VTok>),
    /// U+XXXX[-YYYY] | U+4?? : micro-syntax that depends on its exact spelling
    UnicodeRange(String),
    Important,
}

#[derive(Clone, Debug, PartialEq, Serialize, Deserialize)]
pub enum CalcExpr {
    Leaf(VTok),
    Bin(Box<CalcExpr>, char, Box<CalcExpr>),
    Paren(Box<CalcExpr>),
}

impl CalcExpr {
    pub fn emit(&self, e: &mut Emit) {
        match self {
            CalcExpr::Leaf(v) => emit_values(std::slice::from_ref(v), e),
            CalcExpr::Bin(a, op, b) => {
                a.emit(e);
                if *op == '+' || *op == '-' {
                    e.slot(Slot::Sig);
                    e.delim(*op);
                    e.slot(Slot::Sig);
                } else {
                    e.slot(Slot::Opt);
                    e.delim(*op);
                    e.slot(Slot::Opt);
                }
                b.emit(e);
            }
            CalcExpr::Paren(a) => {
                e.open(Bracket::Paren);
                e.slot(Slot::Opt);
                a.emit(e);
                e.slot(Slot::Opt);
                e.close(Bracket::Paren);
            }
        }
    }
    pub fn depth(&self) -> usize {
        match self {
            CalcExpr::Leaf(_) => 0,
            CalcExpr::Bin(a, _, b) => a.depth().max(b.depth()),
            CalcExpr::Paren(a) => 1 + a.depth(),
        }
    }
}

fn is_punct(v: &VTok) -> bool {
    matches!(v, VTok::Comma | VTok::Slash)
}

pub fn emit_values(vs: &[VTok], e: &mut Emit) {
    for (i, v) in vs.iter().enumerate() {
        if i > 0 {
            if is_punct(v) || is_punct(&vs[i - 1]) {
                e.slot(Slot::Opt);
            } else {
                e.slot(Slot::Sep);
            }
        }
        match v {
            VTok::Ident(s) => e.decoy(TokKind::Ident(s.clone())),
            VTok::Number(s) => e.tok(TokKind::Number(s.clone())),
            VTok::Percentage(s) => e.tok(TokKind::Percentage(s.clone())),
            VTok::Dimension(n, u) => e.tok(TokKind::Dimension(n.clone(), u.clone())),
            VTok::Str(s) => e.decoy(TokKind::Str(s.clone())),
            VTok::Url(s) => e.decoy(TokKind::Url(s.clone())),
            VTok::Hash(s) => e.decoy(TokKind::Hash(s.clone())),
            VTok::Comma => e.tok(TokKind::Comma),
            VTok::Slash => e.delim('/'),
            VTok::DottedIdent(a, b) => {
                e.decoy(TokKind::Ident(a.clone()));
                e.slot(Slot::Tight);
                e.delim('.');
                e.slot(Slot::Tight);
                e.decoy(TokKind::Ident(b.clone()));
            }
            VTok::Func(name, args) => {
                e.open(Bracket::Func(name.clone()));
                e.slot(Slot::Opt);
                emit_values(args, e);
                e.slot(Slot::Opt);
                e.close(Bracket::Func(name.clone()));
            }
            VTok::Calc(name, expr) => {
                e.open(Bracket::Func(name.clone()));
                e.slot(Slot::Opt);
                expr.emit(e);
                e.slot(Slot::Opt);
                e.close(Bracket::Func(name.clone()));
            }
            VTok::Paren(args) => {
                e.open(Bracket::Paren);
                e.slot(Slot::Opt);
                emit_values(args, e);
                e.slot(Slot::Opt);
                e.close(Bracket::Paren);
            }
            VTok::Square(args) => {
                e.open(Bracket::Square);
                e.slot(Slot::Opt);
                emit_values(args, e);
                e.slot(Slot::Opt);
                e.close(Bracket::Square);
            }
            VTok::UnicodeRange(s) => {
                // tokens of the tight spelling as a CSS tokenizer sees them are not modelled: the printer writes the
                // spelling raw and the oracle compares the denoted range (see oracle::css)
                e.tok(TokKind::Ident(format!("\u{1}UR:{}", s)));
            }
            VTok::Important => {
                e.delim('!');
                e.slot(Slot::Opt);
                e.decoy(TokKind::Ident("important".into()));
            }
        }
    }
}

#[derive(Clone, Debug, PartialEq, Serialize, Deserialize)]
pub struct Decl {
    pub prop: String,
    pub value: Vec<VTok>,
}

pub fn emit_decls(decls: &[Decl], e: &mut Emit) {
    e.slot(Slot::Opt);
    for (i, d) in decls.iter().enumerate() {
        if i > 0 {
            e.slot(Slot::Opt);
        }
        e.decoy(TokKind::Ident(d.prop.clone()));
        e.slot(Slot::Opt);
        e.tok(TokKind::Colon);
        e.slot(Slot::Opt);
        emit_values(&d.value, e);
        e.slot(Slot::Opt);
        e.tok(TokKind::Semicolon);
    }
    e.slot(Slot::Opt);
}

// ------------------------------------------------------------------------------------------------
// rules

#[derive(Clone, Debug, PartialEq, Serialize, Deserialize)]
pub struct Rule {
    pub selectors: Vec<Complex>,
    pub decls: Vec<Decl>,
    /// conditional group rules nested in the style rule, each holding declarations only:
    /// `.a { color: red; @media (min-width: 75rpx) { width: 75rpx } }`
    #[serde(default)]
    pub nested: Vec<(String, Prelude, Vec<Decl>)>,
}

#[derive(Clone, Debug, PartialEq, Serialize, Deserialize)]
pub enum MediaCond {
    Ident(String),
    Feature(String, Vec<VTok>),
    And(Box<MediaCond>, Box<MediaCond>),
    Not(Box<MediaCond>),
}

impl MediaCond {
    pub fn emit(&self, e: &mut Emit) {
        match self {
            MediaCond::Ident(s) => e.decoy(TokKind::Ident(s.clone())),
            MediaCond::Feature(name, v) => {
                e.open(Bracket::Paren);
                e.slot(Slot::Opt);
                e.decoy(TokKind::Ident(name.clone()));
                if !v.is_empty() {
                    e.slot(Slot::Opt);
                    e.tok(TokKind::Colon);
                    e.slot(Slot::Opt);
                    emit_values(v, e);
                }
                e.slot(Slot::Opt);
                e.close(Bracket::Paren);
            }
            MediaCond::And(a, b) => {
                a.emit(e);
                e.slot(Slot::Sep);
                e.decoy(TokKind::Ident("and".into()));
                e.slot(Slot::Sep);
                b.emit(e);
            }
            MediaCond::Not(a) => {
                e.decoy(TokKind::Ident("not".into()));
                e.slot(Slot::Sep);
                a.emit(e);
            }
        }
    }
}

#[derive(Clone, Debug, PartialEq, Serialize, Deserialize)]
pub enum ImportForm {
    Str(String),
    UrlFn(String),
    /// `URL("..")` / `Url("..")`: the function name in another letter case
    UrlFnNamed(String, String),
    Url(String),
}

#[derive(Clone, Debug, PartialEq, Serialize, Deserialize)]
pub struct Import {
    pub form: ImportForm,
    pub layer: Option<Option<String>>,
    pub supports: Option<(String, Vec<VTok>)>,
    pub media: Option<MediaCond>,
    /// `supports(selector(..))` (instead of the declaration form)
    #[serde(default)]
    pub supports_sel: Option<Vec<Complex>>,
    /// spelling of the function names `layer(` / `supports(`: 0 lower case, 1 upper case, 2 capitalised
    #[serde(default)]
    pub fn_case: u8,
}

#[derive(Clone, Debug, PartialEq, Serialize, Deserialize)]
pub enum Node {
    Rule(Rule),
    /// pure `:host { ... }` rule
    Host(Vec<Decl>),
    /// `:host(.a) {}` / `:host .a {}` (dropped with a warning when conversion is on)
    HostCombined { func_arg: Option<Complex>, rest: Option<Complex>, decls: Vec<Decl> },
    /// rule-bearing at-rule: media supports document layer container scope starting-style
    Group { name: String, prelude: Prelude, body: Vec<Node> },
    Keyframes { name: String, frames: Vec<(Vec<String>, Vec<Decl>)> },
    /// @font-face / @page: declaration block
    DeclBlock { name: String, prelude: Vec<VTok>, decls: Vec<Decl> },
    Import(Import),
    /// @charset "x"; @namespace a url(x); @layer a, b; unknown statement at-rules
    Statement { name: String, prelude: Vec<VTok> },
    /// expectation only: `[name="value"],[name2="value2"] { decls }` (the converted form of a `:host` rule)
    AttrRule { attrs: Vec<(String, String)>, decls: Vec<Decl> },
    /// expectation only: what an `@import` becomes when an import sign is configured
    ImportPlaceholder { layer: Option<Option<String>>, supports: Option<(String, Vec<VTok>)>, media: Option<MediaCond>, comment_path: String, #[serde(default)] supports_sel: Option<Vec<Complex>> },
}

#[derive(Clone, Debug, PartialEq, Serialize, Deserialize)]
pub enum Prelude {
    None,
    Media(MediaCond),
    /// @supports (decl) / selector(sel)
    Supports(Vec<SupportsCond>),
    /// @layer a.b
    LayerName(Vec<String>),
    /// @container name (cond)
    Container(Option<String>, MediaCond),
    /// @scope (sel) to (sel)
    Scope(Option<Vec<Complex>>, Option<Vec<Complex>>),
    Values(Vec<VTok>),
}

#[derive(Clone, Debug, PartialEq, Serialize, Deserialize)]
pub enum SupportsCond {
    Decl(String, Vec<VTok>),
    Selector(Vec<Complex>),
    And,
    Or,
    Not,
    /// `( <supports-condition> )`
    Paren(Vec<SupportsCond>),
}

pub fn emit_supports(cs: &[SupportsCond], e: &mut Emit, first_slot: Slot) {
    for (i, c) in cs.iter().enumerate() {
        e.slot(if i == 0 { first_slot.clone() } else { Slot::Sep });
        match c {
            SupportsCond::Decl(p, v) => {
                e.open(Bracket::Paren);
                e.slot(Slot::Opt);
                e.decoy(TokKind::Ident(p.clone()));
                e.slot(Slot::Opt);
                e.tok(TokKind::Colon);
                e.slot(Slot::Opt);
                emit_values(v, e);
                e.slot(Slot::Opt);
                e.close(Bracket::Paren);
            }
            SupportsCond::Selector(sel) => {
                e.open(Bracket::Func("selector".into()));
                emit_selector_list(sel, e);
                e.close(Bracket::Func("selector".into()));
            }
            SupportsCond::And => e.decoy(TokKind::Ident("and".into())),
            SupportsCond::Or => e.decoy(TokKind::Ident("or".into())),
            SupportsCond::Not => e.decoy(TokKind::Ident("not".into())),
            SupportsCond::Paren(inner) => {
                e.open(Bracket::Paren);
                emit_supports(inner, e, Slot::Opt);
                e.slot(Slot::Opt);
                e.close(Bracket::Paren);
            }
        }
    }
}

pub fn is_rule_bearing(name: &str) -> bool {
    matches!(name, "media" | "supports" | "document" | "layer" | "container" | "scope" | "starting-style")
}

impl Prelude {
    pub fn emit(&self, e: &mut Emit) {
        match self {
            Prelude::None => {}
            Prelude::Media(m) => {
                e.slot(Slot::Sep);
                m.emit(e)
            }
            Prelude::Supports(cs) => emit_supports(cs, e, Slot::Sep),
            Prelude::LayerName(parts) => {
                e.slot(Slot::Sep);
                for (i, p) in parts.iter().enumerate() {
                    if i > 0 {
                        e.slot(Slot::Tight);
                        e.delim('.');
                        e.slot(Slot::Tight);
                    }
                    e.decoy(TokKind::Ident(p.clone()));
                }
            }
            Prelude::Container(name, cond) => {
                if let Some(n) = name {
                    e.slot(Slot::Sep);
                    e.decoy(TokKind::Ident(n.clone()));
                }
                e.slot(Slot::Sep);
                cond.emit(e);
            }
            Prelude::Scope(a, b) => {
                if let Some(sel) = a {
                    e.slot(Slot::Opt);
                    e.open(Bracket::Paren);
                    emit_selector_list(sel, e);
                    e.close(Bracket::Paren);
                }
                if let Some(sel) = b {
                    e.slot(Slot::Sep);
                    e.decoy(TokKind::Ident("to".into()));
                    e.slot(Slot::Sep);
                    e.open(Bracket::Paren);
                    emit_selector_list(sel, e);
                    e.close(Bracket::Paren);
                }
            }
            Prelude::Values(v) => {
                if !v.is_empty() {
                    e.slot(Slot::Sep);
                    emit_values(v, e);
                }
            }
        }
    }
}

impl Node {
    pub fn emit(&self, e: &mut Emit) {
        let start = e.items.len();
        self.emit_inner(e);
        if matches!(self, Node::Host(_) | Node::HostCombined { .. }) {
            for it in e.items[start..].iter_mut() {
                if let Item::T(t) = it {
                    t.host = true;
                }
            }
        }
    }

    fn emit_inner(&self, e: &mut Emit) {
        match self {
            Node::Rule(r) => {
                emit_selector_list_inner(&r.selectors, e);
                e.slot(Slot::Opt);
                e.open(Bracket::Curly);
                emit_decls(&r.decls, e);
                for (name, prelude, decls) in &r.nested {
                    e.tok(TokKind::AtKeyword(name.clone()));
                    prelude.emit(e);
                    e.slot(Slot::Opt);
                    e.open(Bracket::Curly);
                    emit_decls(decls, e);
                    e.close(Bracket::Curly);
                    e.slot(Slot::Opt);
                }
                e.close(Bracket::Curly);
            }
            Node::Host(decls) => {
                e.tok(TokKind::Colon);
                e.slot(Slot::Tight);
                e.decoy(TokKind::Ident("host".into()));
                e.slot(Slot::Opt);
                e.open(Bracket::Curly);
                emit_decls(decls, e);
                e.close(Bracket::Curly);
            }
            Node::HostCombined { func_arg, rest, decls } => {
                e.tok(TokKind::Colon);
                e.slot(Slot::Tight);
                match func_arg {
                    Some(a) => {
                        e.open(Bracket::Func("host".into()));
                        e.slot(Slot::Opt);
                        a.emit(e);
                        e.slot(Slot::Opt);
                        e.close(Bracket::Func("host".into()));
                    }
                    None => e.decoy(TokKind::Ident("host".into())),
                }
                if let Some(r) = rest {
                    e.slot(Slot::Sig);
                    r.emit(e);
                }
                e.slot(Slot::Opt);
                e.open(Bracket::Curly);
                emit_decls(decls, e);
                e.close(Bracket::Curly);
            }
            Node::Group { name, prelude, body } => {
                let start = e.items.len();
                e.tok(TokKind::AtKeyword(name.clone()));
                prelude.emit(e);
                e.slot(Slot::Opt);
                e.open(Bracket::Curly);
                if e.mark_wrappers {
                    for it in e.items[start..].iter_mut() {
                        if let Item::T(t) = it {
                            t.wrapper = true;
                        }
                    }
                }
                e.slot(Slot::Opt);
                for (i, n) in body.iter().enumerate() {
                    if i > 0 {
                        e.slot(Slot::Opt);
                    }
                    n.emit(e);
                }
                e.slot(Slot::Opt);
                e.close(Bracket::Curly);
                if e.mark_wrappers {
                    if let Some(Item::T(t)) = e.items.last_mut() {
                        t.wrapper = true;
                    }
                }
            }
            Node::Keyframes { name, frames } => {
                e.tok(TokKind::AtKeyword("keyframes".into()));
                e.slot(Slot::Sep);
                e.decoy(TokKind::Ident(name.clone()));
                e.slot(Slot::Opt);
                e.open(Bracket::Curly);
                e.slot(Slot::Opt);
                for (sels, decls) in frames {
                    for (i, s) in sels.iter().enumerate() {
                        if i > 0 {
                            e.slot(Slot::Opt);
                            e.tok(TokKind::Comma);
                            e.slot(Slot::Opt);
                        }
                        if s.ends_with('%') {
                            e.tok(TokKind::Percentage(s.trim_end_matches('%').to_string()));
                        } else {
                            e.decoy(TokKind::Ident(s.clone()));
                        }
                    }
                    e.slot(Slot::Opt);
                    e.open(Bracket::Curly);
                    emit_decls(decls, e);
                    e.close(Bracket::Curly);
                    e.slot(Slot::Opt);
                }
                e.close(Bracket::Curly);
            }
            Node::DeclBlock { name, prelude, decls } => {
                e.tok(TokKind::AtKeyword(name.clone()));
                if !prelude.is_empty() {
                    e.slot(Slot::Sep);
                    emit_values(prelude, e);
                }
                e.slot(Slot::Opt);
                e.open(Bracket::Curly);
                emit_decls(decls, e);
                e.close(Bracket::Curly);
            }
            Node::Import(im) => {
                e.tok(TokKind::AtKeyword("import".into()));
                e.slot(Slot::Sep);
                match &im.form {
                    ImportForm::Str(s) => e.decoy(TokKind::Str(s.clone())),
                    ImportForm::UrlFn(s) => {
                        // nothing but the string inside `url(`: a comment there would make it an unquoted (bad) url
                        e.open(Bracket::Func("url".into()));
                        e.decoy(TokKind::Str(s.clone()));
                        e.close(Bracket::Func("url".into()));
                    }
                    ImportForm::UrlFnNamed(name, s) => {
                        e.open(Bracket::Func(name.clone()));
                        e.decoy(TokKind::Str(s.clone()));
                        e.close(Bracket::Func(name.clone()));
                    }
                    ImportForm::Url(s) => e.decoy(TokKind::Url(s.clone())),
                }
                let fn_case = im.fn_case;
                let cased = |n: &str| -> String {
                    match fn_case % 3 {
                        1 => n.to_ascii_uppercase(),
                        2 => n[..1].to_ascii_uppercase() + &n[1..],
                        _ => n.to_string(),
                    }
                };
                if let Some(l) = &im.layer {
                    e.slot(Slot::Sep);
                    match l {
                        None => e.decoy(TokKind::Ident("layer".into())),
                        Some(n) => {
                            e.open(Bracket::Func(cased("layer")));
                            e.slot(Slot::Opt);
                            e.decoy(TokKind::Ident(n.clone()));
                            e.slot(Slot::Opt);
                            e.close(Bracket::Func(cased("layer")));
                        }
                    }
                }
                if let Some((p, v)) = &im.supports {
                    e.slot(Slot::Sep);
                    e.open(Bracket::Func(cased("supports")));
                    e.slot(Slot::Opt);
                    e.decoy(TokKind::Ident(p.clone()));
                    e.slot(Slot::Opt);
                    e.tok(TokKind::Colon);
                    e.slot(Slot::Opt);
                    emit_values(v, e);
                    e.slot(Slot::Opt);
                    e.close(Bracket::Func(cased("supports")));
                }
                if let Some(sel) = &im.supports_sel {
                    e.slot(Slot::Sep);
                    e.open(Bracket::Func(cased("supports")));
                    e.slot(Slot::Opt);
                    e.open(Bracket::Func("selector".into()));
                    emit_selector_list(sel, e);
                    e.close(Bracket::Func("selector".into()));
                    e.slot(Slot::Opt);
                    e.close(Bracket::Func(cased("supports")));
                }
                if let Some(m) = &im.media {
                    e.slot(Slot::Sep);
                    m.emit(e);
                }
                e.slot(Slot::Opt);
                e.tok(TokKind::Semicolon);
            }
            Node::Statement { name, prelude } => {
                e.tok(TokKind::AtKeyword(name.clone()));
                if !prelude.is_empty() {
                    e.slot(Slot::Sep);
                    emit_values(prelude, e);
                }
                e.slot(Slot::Opt);
                e.tok(TokKind::Semicolon);
            }
            Node::AttrRule { attrs, decls } => {
                for (i, (n, v)) in attrs.iter().enumerate() {
                    if i > 0 {
                        e.slot(Slot::Opt);
                        e.tok(TokKind::Comma);
                        e.slot(Slot::Opt);
                    }
                    e.open(Bracket::Square);
                    e.slot(Slot::Opt);
                    e.decoy(TokKind::Ident(n.clone()));
                    e.slot(Slot::Opt);
                    e.delim('=');
                    e.slot(Slot::Opt);
                    e.decoy(TokKind::Str(v.clone()));
                    e.slot(Slot::Opt);
                    e.close(Bracket::Square);
                }
                e.slot(Slot::Opt);
                e.open(Bracket::Curly);
                emit_decls(decls, e);
                e.close(Bracket::Curly);
            }
            Node::ImportPlaceholder { layer, supports, media, comment_path, supports_sel } => {
                let mut closes = 0;
                if let Some(l) = layer {
                    e.tok(TokKind::AtKeyword("layer".into()));
                    if let Some(n) = l {
                        e.slot(Slot::Sep);
                        e.decoy(TokKind::Ident(n.clone()));
                    }
                    e.slot(Slot::Opt);
                    e.open(Bracket::Curly);
                    closes += 1;
                }
                if let Some((p, v)) = supports {
                    e.slot(Slot::Opt);
                    e.tok(TokKind::AtKeyword("supports".into()));
                    e.slot(Slot::Opt);
                    e.open(Bracket::Paren);
                    e.slot(Slot::Opt);
                    e.decoy(TokKind::Ident(p.clone()));
                    e.slot(Slot::Opt);
                    e.tok(TokKind::Colon);
                    e.slot(Slot::Opt);
                    emit_values(v, e);
                    e.slot(Slot::Opt);
                    e.close(Bracket::Paren);
                    e.slot(Slot::Opt);
                    e.open(Bracket::Curly);
                    closes += 1;
                }
                if let Some(sel) = supports_sel {
                    e.slot(Slot::Opt);
                    e.tok(TokKind::AtKeyword("supports".into()));
                    e.slot(Slot::Opt);
                    e.open(Bracket::Paren);
                    e.slot(Slot::Opt);
                    e.open(Bracket::Func("selector".into()));
                    emit_selector_list(sel, e);
                    e.close(Bracket::Func("selector".into()));
                    e.slot(Slot::Opt);
                    e.close(Bracket::Paren);
                    e.slot(Slot::Opt);
                    e.open(Bracket::Curly);
                    closes += 1;
                }
                if let Some(m) = media {
                    e.slot(Slot::Opt);
                    e.tok(TokKind::AtKeyword("media".into()));
                    e.slot(Slot::Sep);
                    m.emit(e);
                    e.slot(Slot::Opt);
                    e.open(Bracket::Curly);
                    closes += 1;
                }
                e.slot(Slot::Opt);
                e.tok(TokKind::CommentMarker(comment_path.clone()));
                for _ in 0..closes {
                    e.slot(Slot::Opt);
                    e.close(Bracket::Curly);
                }
            }
        }
    }
}

#[derive(Clone, Debug, PartialEq, Serialize, Deserialize, Default)]
pub struct Sheet {
    pub nodes: Vec<Node>,
}

impl Sheet {
    pub fn items(&self) -> Vec<Item> {
        self.items_marked(false)
    }

    pub fn items_marked(&self, mark_wrappers: bool) -> Vec<Item> {
        let mut e = Emit::default();
        e.mark_wrappers = mark_wrappers;
        e.slot(Slot::Opt);
        for (i, n) in self.nodes.iter().enumerate() {
            if i > 0 {
                e.slot(Slot::Opt);
            }
            n.emit(&mut e);
        }
        e.slot(Slot::Opt);
        e.items
    }
}

// ------------------------------------------------------------------------------------------------
// printing

pub fn css_escape_ident(s: &str, rng: &mut Rng, loose: bool) -> String {
    let mut out = String::new();
    for (i, c) in s.chars().enumerate() {
        let plain = c.is_ascii_alphanumeric() || c == '_' || c == '-' || (c as u32) >= 0x80;
        let must = !plain || (i == 0 && c.is_ascii_digit()) || (i == 0 && c == '-' && s.len() == 1) || (i == 1 && s.starts_with('-') && c.is_ascii_digit());
        if must {
            if c.is_ascii_digit() || c.is_ascii_hexdigit() || (c as u32) < 0x20 || c == '\u{7f}' {
                out.push_str(&format!("\\{:x} ", c as u32));
            } else {
                out.push('\\');
                out.push(c);
            }
        } else if loose && rng.chance(1, 15) {
            out.push_str(&format!("\\{:x} ", c as u32));
        } else {
            out.push(c);
        }
    }
    out
}

pub fn css_string(s: &str, rng: &mut Rng, loose: bool) -> String {
    let q = if loose && rng.chance(1, 3) && !s.contains('\'') { '\'' } else { '"' };
    let mut out = String::new();
    out.push(q);
    for c in s.chars() {
        match c {
            c if c == q => {
                out.push('\\');
                out.push(c)
            }
            '\\' => out.push_str("\\\\"),
            '\n' => out.push_str("\\a "),
            '\r' => out.push_str("\\d "),
            '\u{c}' => out.push_str("\\c "),
            '\u{0}' => out.push_str("\\fffd "),
            c => out.push(c),
        }
    }
    out.push(q);
    out
}

pub struct Printed {
    pub text: String,
    pub items: Vec<Item>,
}

/// Print the model. `style` 0 = canonical (single space where needed, nothing elsewhere).
pub fn print(sheet: &Sheet, style: u64) -> Printed {
    let mut items = sheet.items();
    let mut rng = Rng::new(style);
    let loose = style != 0;
    let mut out = String::new();
    let mut line = 0u32;
    let mut col = 0u32;
    let mut synced = 0usize;
    let n = items.len();
    for i in 0..n {
        // keep (line, col) in sync
        for c in out[synced..].chars() {
            if c == '\n' {
                line += 1;
                col = 0;
            } else {
                col += c.len_utf16() as u32;
            }
        }
        synced = out.len();
        match &mut items[i] {
            Item::S(slot) => {
                let ws = |rng: &mut Rng, out: &mut String| match rng.below(6) {
                    0 => out.push_str("  "),
                    1 => out.push('\n'),
                    2 => out.push_str("\n\t"),
                    3 => out.push('\t'),
                    _ => out.push(' '),
                };
                match slot {
                    Slot::Tight => {}
                    Slot::Sig => {
                        if loose {
                            let before = out.len();
                            ws(&mut rng, &mut out);
                            if rng.chance(1, 6) {
                                // a comment next to the meaningful whitespace: before it, after it, on both sides,
                                // or directly after the previous token (`.a/* c */ .b`) / before the next (`.a /* c */.b`)
                                match rng.below(4) {
                                    0 => {
                                        out.push_str("/* c */");
                                        ws(&mut rng, &mut out);
                                    }
                                    1 => {
                                        out.truncate(before);
                                        out.push_str("/* c */");
                                        ws(&mut rng, &mut out);
                                    }
                                    2 => out.push_str("/* c */"),
                                    _ => {
                                        out.truncate(before);
                                        out.push_str("/**/");
                                        ws(&mut rng, &mut out);
                                        out.push_str("/* c */");
                                    }
                                }
                            }
                        } else {
                            out.push(' ');
                        }
                    }
                    Slot::Sep => {
                        if loose {
                            match rng.below(5) {
                                0 => out.push_str("/**/"),
                                1 => {
                                    ws(&mut rng, &mut out);
                                    out.push_str("/* x */");
                                }
                                _ => ws(&mut rng, &mut out),
                            }
                        } else {
                            out.push(' ');
                        }
                    }
                    Slot::Opt => {
                        if loose {
                            match rng.below(6) {
                                0 => ws(&mut rng, &mut out),
                                1 => out.push_str("/* o */"),
                                2 => {
                                    ws(&mut rng, &mut out);
                                    out.push_str("/*o*/");
                                    ws(&mut rng, &mut out);
                                }
                                _ => {}
                            }
                        }
                    }
                }
            }
            Item::T(t) => {
                t.src_pos = (line, col);
                match &t.kind {
                    TokKind::Ident(s) => {
                        if let Some(ur) = s.strip_prefix("\u{1}UR:") {
                            out.push_str(ur)
                        } else if s.starts_with("--") {
                            out.push_str(s)
                        } else {
                            out.push_str(&css_escape_ident(s, &mut rng, loose))
                        }
                    }
                    TokKind::AtKeyword(s) => {
                        out.push('@');
                        out.push_str(s)
                    }
                    TokKind::Hash(s) => {
                        out.push('#');
                        if s.chars().all(|c| c.is_ascii_alphanumeric() || c == '-' || c == '_') {
                            out.push_str(s)
                        } else {
                            out.push_str(&css_escape_ident(s, &mut rng, false))
                        }
                    }
                    TokKind::Str(s) => out.push_str(&css_string(s, &mut rng, loose)),
                    TokKind::Url(s) => {
                        out.push_str("url(");
                        out.push_str(s);
                        out.push(')');
                    }
                    TokKind::Delim(c) => out.push(*c),
                    TokKind::Number(s) => out.push_str(s),
                    TokKind::Percentage(s) => {
                        out.push_str(s);
                        out.push('%')
                    }
                    TokKind::Dimension(n, u) => {
                        out.push_str(n);
                        out.push_str(u)
                    }
                    TokKind::Colon => out.push(':'),
                    TokKind::Semicolon => out.push(';'),
                    TokKind::Comma => out.push(','),
                    TokKind::Match(s) => out.push_str(s),
                    TokKind::Open(b) => match b {
                        Bracket::Paren => out.push('('),
                        Bracket::Square => out.push('['),
                        Bracket::Curly => out.push('{'),
                        Bracket::Func(n) => {
                            out.push_str(n);
                            out.push('(')
                        }
                    },
                    TokKind::Close(b) => match b {
                        Bracket::Paren | Bracket::Func(_) => out.push(')'),
                        Bracket::Square => out.push(']'),
                        Bracket::Curly => out.push('}'),
                    },
                    TokKind::CommentMarker(_) => {}
                }
            }
        }
    }
    Printed { text: out, items }
}
