//! Data values (the `D` objects and scope values) as a model that prints to JavaScript source.
//! `P.<name>` refers to a member of the worker's function pool.

use crate::util::js_str;
use serde::{Deserialize, Serialize};

#[derive(Clone, Debug, PartialEq, Serialize, Deserialize)]
pub enum JsVal {
    Undefined,
    Null,
    Bool(bool),
    /// number by JS source spelling: `0`, `-0`, `1`, `NaN`, `Infinity`, `1.5` ...
    Num(String),
    Str(String),
    Arr(Vec<JsVal>),
    Obj(Vec<(String, JsVal)>),
    /// pool function / constructor
    Pool(String),
}

impl JsVal {
    pub fn num(n: i64) -> JsVal {
        JsVal::Num(n.to_string())
    }
    pub fn str(s: &str) -> JsVal {
        JsVal::Str(s.to_string())
    }
    pub fn to_js(&self) -> String {
        let mut s = String::new();
        self.print(&mut s);
        s
    }
    pub fn print(&self, out: &mut String) {
        match self {
            JsVal::Undefined => out.push_str("undefined"),
            JsVal::Null => out.push_str("null"),
            JsVal::Bool(b) => out.push_str(if *b { "true" } else { "false" }),
            JsVal::Num(t) => out.push_str(t),
            JsVal::Str(s) => out.push_str(&js_str(s)),
            JsVal::Arr(items) => {
                out.push('[');
                for (i, it) in items.iter().enumerate() {
                    if i > 0 {
                        out.push(',');
                    }
                    it.print(out);
                }
                out.push(']');
            }
            JsVal::Obj(items) => {
                out.push('{');
                for (i, (k, v)) in items.iter().enumerate() {
                    if i > 0 {
                        out.push(',');
                    }
                    out.push_str(&js_str(k));
                    out.push(':');
                    v.print(out);
                }
                out.push('}');
            }
            JsVal::Pool(name) => {
                out.push_str("P.");
                out.push_str(name);
            }
        }
    }

    pub fn get_field(&self, k: &str) -> Option<&JsVal> {
        match self {
            JsVal::Obj(items) => items.iter().rev().find(|(n, _)| n == k).map(|(_, v)| v),
            _ => None,
        }
    }

    pub fn set_field(&mut self, k: &str, v: JsVal) {
        if let JsVal::Obj(items) = self {
            if let Some(slot) = items.iter_mut().find(|(n, _)| n == k) {
                slot.1 = v;
            } else {
                items.push((k.to_string(), v));
            }
        }
    }

    pub fn is_container(&self) -> bool {
        matches!(self, JsVal::Arr(_) | JsVal::Obj(_))
    }

    pub fn value_class(&self) -> &'static str {
        match self {
            JsVal::Undefined => "undefined",
            JsVal::Null => "null",
            JsVal::Bool(_) => "bool",
            JsVal::Num(t) => match t.as_str() {
                "0" => "zero",
                "-0" => "negzero",
                "NaN" => "nan",
                "Infinity" | "-Infinity" => "inf",
                _ => "num",
            },
            JsVal::Str(s) => {
                if s.is_empty() {
                    "emptystr"
                } else {
                    "str"
                }
            }
            JsVal::Arr(_) => "arr",
            JsVal::Obj(_) => "obj",
            JsVal::Pool(_) => "fn",
        }
    }
}
