pub mod css;
pub mod data;
pub mod expr;
pub mod wxml;
