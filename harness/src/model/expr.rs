//! The generator's own expression model, its concrete-syntax printer and its reference-JS printer.
//! Nothing here looks at the compiler's AST: precedence, associativity and scoping of the reference come from
//! this tree and from V8.

use crate::util::{js_str, Rng};
use serde::{Deserialize, Serialize};

#[derive(Clone, Copy, Debug, PartialEq, Eq, Hash, Serialize, Deserialize)]
pub enum UnOp {
    Not,
    BitNot,
    Plus,
    Neg,
    TypeOf,
    Void,
}

impl UnOp {
    pub const ALL: [UnOp; 6] = [UnOp::Not, UnOp::BitNot, UnOp::Plus, UnOp::Neg, UnOp::TypeOf, UnOp::Void];
    pub fn text(self) -> &'static str {
        match self {
            UnOp::Not => "!",
            UnOp::BitNot => "~",
            UnOp::Plus => "+",
            UnOp::Neg => "-",
            UnOp::TypeOf => "typeof ",
            UnOp::Void => "void ",
        }
    }
    pub fn key(self) -> &'static str {
        match self {
            UnOp::Not => "!",
            UnOp::BitNot => "~",
            UnOp::Plus => "u+",
            UnOp::Neg => "u-",
            UnOp::TypeOf => "typeof",
            UnOp::Void => "void",
        }
    }
}

#[derive(Clone, Copy, Debug, PartialEq, Eq, Hash, Serialize, Deserialize)]
pub enum BinOp {
    Mul,
    Div,
    Rem,
    Add,
    Sub,
    Shl,
    Shr,
    UShr,
    Lt,
    Gt,
    Le,
    Ge,
    InstanceOf,
    Eq,
    Ne,
    EqS,
    NeS,
    BitAnd,
    BitXor,
    BitOr,
    And,
    Or,
    Nullish,
}

impl BinOp {
    pub const ALL: [BinOp; 23] = [
        BinOp::Mul,
        BinOp::Div,
        BinOp::Rem,
        BinOp::Add,
        BinOp::Sub,
        BinOp::Shl,
        BinOp::Shr,
        BinOp::UShr,
        BinOp::Lt,
        BinOp::Gt,
        BinOp::Le,
        BinOp::Ge,
        BinOp::InstanceOf,
        BinOp::Eq,
        BinOp::Ne,
        BinOp::EqS,
        BinOp::NeS,
        BinOp::BitAnd,
        BinOp::BitXor,
        BinOp::BitOr,
        BinOp::And,
        BinOp::Or,
        BinOp::Nullish,
    ];
    pub fn text(self) -> &'static str {
        match self {
            BinOp::Mul => "*",
            BinOp::Div => "/",
            BinOp::Rem => "%",
            BinOp::Add => "+",
            BinOp::Sub => "-",
            BinOp::Shl => "<<",
            BinOp::Shr => ">>",
            BinOp::UShr => ">>>",
            BinOp::Lt => "<",
            BinOp::Gt => ">",
            BinOp::Le => "<=",
            BinOp::Ge => ">=",
            BinOp::InstanceOf => " instanceof ",
            BinOp::Eq => "==",
            BinOp::Ne => "!=",
            BinOp::EqS => "===",
            BinOp::NeS => "!==",
            BinOp::BitAnd => "&",
            BinOp::BitXor => "^",
            BinOp::BitOr => "|",
            BinOp::And => "&&",
            BinOp::Or => "||",
            BinOp::Nullish => "??",
        }
    }
    /// JavaScript precedence (ECMA-262), higher binds tighter.
    pub fn prec(self) -> u8 {
        match self {
            BinOp::Mul | BinOp::Div | BinOp::Rem => 13,
            BinOp::Add | BinOp::Sub => 12,
            BinOp::Shl | BinOp::Shr | BinOp::UShr => 11,
            BinOp::Lt | BinOp::Gt | BinOp::Le | BinOp::Ge | BinOp::InstanceOf => 10,
            BinOp::Eq | BinOp::Ne | BinOp::EqS | BinOp::NeS => 9,
            BinOp::BitAnd => 8,
            BinOp::BitXor => 7,
            BinOp::BitOr => 6,
            BinOp::And => 5,
            BinOp::Or => 4,
            BinOp::Nullish => 4,
        }
    }
}

#[derive(Clone, Debug, PartialEq, Serialize, Deserialize)]
pub enum ArrItem {
    Hole,
    Item(Expr),
    Spread(Expr),
}

#[derive(Clone, Debug, PartialEq, Serialize, Deserialize)]
pub enum ObjItem {
    KV(String, Expr),
    Short(String),
    Spread(Expr),
}

#[derive(Clone, Debug, PartialEq, Serialize, Deserialize)]
pub enum Expr {
    Ident(String),
    Undefined,
    Null,
    Bool(bool),
    /// number literal by source spelling (decimal, hex, legacy octal, float, exponent); the reference evaluates the
    /// same spelling in sloppy-mode JS
    Num(String),
    Str(String),
    Unary(UnOp, Box<Expr>),
    Binary(BinOp, Box<Expr>, Box<Expr>),
    Cond(Box<Expr>, Box<Expr>, Box<Expr>),
    Member(Box<Expr>, String),
    Index(Box<Expr>, Box<Expr>),
    Call(Box<Expr>, Vec<Expr>),
    Arr(Vec<ArrItem>),
    Obj(Vec<ObjItem>),
    /// redundant source parentheses (must be honoured exactly = no effect beyond grouping)
    Paren(Box<Expr>),
    /// raw operator text (exhaustive operator-pair enumeration): `src` goes to the compiler, `js` is the same token
    /// sequence with identifiers bound for V8 — precedence of the reference is V8's own
    Raw { src: String, js: String },
}

pub const PREC_PRIMARY: u8 = 20;
pub const PREC_UNARY: u8 = 15;
pub const PREC_COND: u8 = 3;

impl Expr {
    pub fn ident(s: &str) -> Expr {
        Expr::Ident(s.to_string())
    }
    pub fn prec(&self) -> u8 {
        match self {
            Expr::Unary(..) => PREC_UNARY,
            Expr::Binary(op, ..) => op.prec(),
            Expr::Cond(..) => PREC_COND,
            _ => PREC_PRIMARY,
        }
    }

    pub fn size(&self) -> usize {
        let mut n = 1;
        self.for_each_child(&mut |c| n += c.size());
        n
    }

    pub fn depth(&self) -> usize {
        let mut d = 0;
        self.for_each_child(&mut |c| d = d.max(c.depth()));
        d + 1
    }

    pub fn for_each_child(&self, f: &mut dyn FnMut(&Expr)) {
        match self {
            Expr::Unary(_, a) | Expr::Paren(a) | Expr::Member(a, _) => f(a),
            Expr::Binary(_, a, b) | Expr::Index(a, b) => {
                f(a);
                f(b)
            }
            Expr::Cond(a, b, c) => {
                f(a);
                f(b);
                f(c)
            }
            Expr::Call(a, args) => {
                f(a);
                for x in args {
                    f(x)
                }
            }
            Expr::Arr(items) => {
                for it in items {
                    match it {
                        ArrItem::Hole => {}
                        ArrItem::Item(e) | ArrItem::Spread(e) => f(e),
                    }
                }
            }
            Expr::Obj(items) => {
                for it in items {
                    match it {
                        ObjItem::KV(_, e) | ObjItem::Spread(e) => f(e),
                        ObjItem::Short(_) => {}
                    }
                }
            }
            _ => {}
        }
    }

    pub fn walk(&self, f: &mut dyn FnMut(&Expr)) {
        f(self);
        self.for_each_child(&mut |c| c.walk(f));
    }

    /// identifiers read by the expression (including object shorthand names)
    pub fn idents(&self) -> Vec<String> {
        let mut out = vec![];
        self.walk(&mut |e| match e {
            Expr::Ident(n) => out.push(n.clone()),
            Expr::Obj(items) => {
                for it in items {
                    if let ObjItem::Short(n) = it {
                        out.push(n.clone())
                    }
                }
            }
            _ => {}
        });
        out
    }

    /// operator skeleton used as shape key in failure signatures
    pub fn shape(&self) -> String {
        match self {
            Expr::Ident(_) => "id".into(),
            Expr::Undefined => "undefined".into(),
            Expr::Null => "null".into(),
            Expr::Bool(_) => "bool".into(),
            Expr::Num(t) => format!("num:{}", num_class(t)),
            Expr::Str(_) => "str".into(),
            Expr::Unary(op, a) => format!("({} {})", op.key(), a.shape()),
            Expr::Binary(op, a, b) => format!("({} {} {})", a.shape(), op.text().trim(), b.shape()),
            Expr::Cond(a, b, c) => format!("({} ? {} : {})", a.shape(), b.shape(), c.shape()),
            Expr::Member(a, _) => format!("{}.m", a.shape()),
            Expr::Index(a, b) => format!("{}[{}]", a.shape(), b.shape()),
            Expr::Call(a, args) => format!("{}({})", a.shape(), args.iter().map(|x| x.shape()).collect::<Vec<_>>().join(",")),
            Expr::Arr(items) => format!(
                "[{}]",
                items
                    .iter()
                    .map(|x| match x {
                        ArrItem::Hole => "<hole>".to_string(),
                        ArrItem::Item(e) => e.shape(),
                        ArrItem::Spread(e) => format!("...{}", e.shape()),
                    })
                    .collect::<Vec<_>>()
                    .join(",")
            ),
            Expr::Obj(items) => format!(
                "{{{}}}",
                items
                    .iter()
                    .map(|x| match x {
                        ObjItem::KV(_, e) => format!("k:{}", e.shape()),
                        ObjItem::Short(_) => "short".to_string(),
                        ObjItem::Spread(e) => format!("...{}", e.shape()),
                    })
                    .collect::<Vec<_>>()
                    .join(",")
            ),
            Expr::Paren(a) => format!("paren{}", a.shape()),
            Expr::Raw { src, .. } => format!("raw:{}", src),
        }
    }
}

pub fn num_class(t: &str) -> &'static str {
    if t.starts_with("0x") {
        "hex"
    } else if t.len() > 1 && t.starts_with('0') && t.chars().all(|c| c.is_ascii_digit()) {
        if t.chars().all(|c| ('0'..='7').contains(&c)) {
            "octal"
        } else {
            "dec-leading0"
        }
    } else if t.contains('e') {
        "exp"
    } else if t.contains('.') {
        "float"
    } else if t.len() > 15 {
        "bigint"
    } else {
        "int"
    }
}

// ------------------------------------------------------------------------------------------------
// concrete syntax

/// Style choices for one printed expression, all drawn from a generated seed.
pub struct ExprStyle {
    pub rng: Rng,
    /// quote char used for string literals (must differ from the enclosing attribute quote)
    pub str_quote: char,
    /// allow whitespace / comments between tokens
    pub loose: bool,
}

impl ExprStyle {
    pub fn canonical() -> Self {
        ExprStyle { rng: Rng(0), str_quote: '\'', loose: false }
    }
    fn ws(&mut self, out: &mut String) {
        if !self.loose {
            return;
        }
        // a comment directly after `*` or `/` would read as `*/` or `//`: always separate with a space
        match self.rng.below(13) {
            0 => out.push(' '),
            1 => out.push_str("  "),
            2 => out.push('\n'),
            3 => out.push('\t'),
            4 => out.push_str(" /* c */"),
            5 => out.push_str(" /*x*/ "),
            // multi-line comment whose last line holds an astral character (position bookkeeping of skipped spans)
            6 => out.push_str(" /* c\n\u{1d4b3} */"),
            _ => {}
        }
    }
}

fn needs_space_before_unary(out: &str, op: UnOp) -> bool {
    match op {
        UnOp::Plus => out.ends_with('+'),
        UnOp::Neg => out.ends_with('-'),
        UnOp::TypeOf | UnOp::Void => out.chars().last().map(|c| c.is_ascii_alphanumeric() || c == '_' || c == '$').unwrap_or(false),
        _ => false,
    }
}

pub fn print_str_lit(s: &str, quote: char, rng: &mut Rng, out: &mut String) {
    out.push(quote);
    for c in s.chars() {
        let code = c as u32;
        match c {
            '\\' => out.push_str("\\\\"),
            c if c == quote => {
                out.push('\\');
                out.push(c)
            }
            // a raw line break inside a string literal is accepted by the template expression grammar
            '\n' => {
                if rng.chance(1, 2) {
                    out.push_str("\\n")
                } else {
                    out.push('\n')
                }
            }
            '\r' => out.push_str("\\r"),
            '\t' => {
                if rng.chance(1, 2) {
                    out.push_str("\\t")
                } else {
                    out.push('\t')
                }
            }
            '\u{8}' => out.push_str("\\b"),
            '\u{c}' => out.push_str("\\f"),
            '\u{b}' => out.push_str("\\v"),
            c if code < 0x20 || code == 0x7f => out.push_str(&format!("\\x{:02x}", code)),
            c if code <= 0xFF && rng.chance(1, 6) => out.push_str(&format!("\\x{:02X}", code)),
            c if code <= 0xFFFF && !(0xD800..=0xDFFF).contains(&code) && rng.chance(1, 6) => out.push_str(&format!("\\u{:04x}", code)),
            // braces are fine inside a string; `}}` inside a string literal would end nothing for a real JS lexer
            c => out.push(c),
        }
    }
    out.push(quote);
}

pub fn print_source(e: &Expr, st: &mut ExprStyle, out: &mut String) {
    print_src_prec(e, 0, st, out)
}

fn paren_if(cond: bool, e: &Expr, st: &mut ExprStyle, out: &mut String) {
    if cond {
        out.push('(');
        st.ws(out);
        print_src_prec(e, 0, st, out);
        st.ws(out);
        out.push(')');
    } else {
        print_src_prec(e, 0, st, out);
    }
}

fn is_logical(op: BinOp) -> bool {
    matches!(op, BinOp::And | BinOp::Or)
}

fn print_src_prec(e: &Expr, _min: u8, st: &mut ExprStyle, out: &mut String) {
    match e {
        Expr::Ident(n) => out.push_str(n),
        Expr::Undefined => out.push_str("undefined"),
        Expr::Null => out.push_str("null"),
        Expr::Bool(b) => out.push_str(if *b { "true" } else { "false" }),
        Expr::Num(t) => out.push_str(t),
        Expr::Str(s) => {
            let q = st.str_quote;
            print_str_lit(s, q, &mut st.rng, out)
        }
        Expr::Paren(a) => {
            out.push('(');
            st.ws(out);
            print_src_prec(a, 0, st, out);
            st.ws(out);
            out.push(')');
        }
        Expr::Raw { src, .. } => out.push_str(src),
        Expr::Unary(op, a) => {
            if needs_space_before_unary(out, *op) {
                out.push(' ');
            }
            out.push_str(op.text());
            st.ws(out);
            // a unary operand that itself starts with the same sign needs a separator
            let need_paren = a.prec() < PREC_UNARY;
            if !need_paren {
                if let Expr::Unary(inner, _) = &**a {
                    if (*op == UnOp::Plus && *inner == UnOp::Plus) || (*op == UnOp::Neg && *inner == UnOp::Neg) {
                        out.push(' ');
                    }
                }
                if let Expr::Num(_) = &**a {
                    // `- 1` and `-1` are the same expression
                }
            }
            paren_if(need_paren, a, st, out);
        }
        Expr::Binary(op, a, b) => {
            let p = op.prec();
            let mut lp = a.prec() < p;
            let mut rp = b.prec() <= p;
            // `??` cannot be mixed with `&&` / `||` without parentheses in JavaScript
            if *op == BinOp::Nullish {
                if let Expr::Binary(o, ..) = &**a {
                    if is_logical(*o) {
                        lp = true
                    }
                }
                if let Expr::Binary(o, ..) = &**b {
                    if is_logical(*o) || *o == BinOp::Nullish {
                        rp = true
                    }
                }
            }
            if is_logical(*op) {
                if let Expr::Binary(BinOp::Nullish, ..) = &**a {
                    lp = true
                }
                if let Expr::Binary(BinOp::Nullish, ..) = &**b {
                    rp = true
                }
            }
            paren_if(lp, a, st, out);
            st.ws(out);
            if matches!(op, BinOp::Add | BinOp::Sub) && (out.ends_with('+') || out.ends_with('-')) {
                out.push(' ');
            }
            out.push_str(op.text());
            st.ws(out);
            // unary sign right after a binary sign: keep them apart
            let before = out.len();
            paren_if(rp, b, st, out);
            if matches!(op, BinOp::Add | BinOp::Sub) {
                let first = out[before..].chars().next();
                if first == Some('+') || first == Some('-') {
                    out.insert(before, ' ');
                }
            }
            if matches!(op, BinOp::Div) {
                // avoid creating `//` or `/*`
                let first = out[before..].chars().next();
                if first == Some('/') || first == Some('*') {
                    out.insert(before, ' ');
                }
            }
            if matches!(op, BinOp::Lt) {
                // `<` immediately followed by a name would look like a tag start in text nodes; keep a space
                let first = out[before..].chars().next();
                if first.map(|c| c.is_ascii_alphabetic() || c == '_' || c == '/' || c == '!').unwrap_or(false) {
                    out.insert(before, ' ');
                }
            }
        }
        Expr::Cond(c, t, f) => {
            paren_if(c.prec() <= PREC_COND, c, st, out);
            st.ws(out);
            out.push('?');
            // `?.` followed by a digit is handled by the parser, but `?.x` would be optional chaining: keep a space
            let before = out.len();
            st.ws(out);
            print_src_prec(t, 0, st, out);
            if out[before..].starts_with('.') {
                out.insert(before, ' ');
            }
            st.ws(out);
            out.push(':');
            st.ws(out);
            print_src_prec(f, 0, st, out);
        }
        Expr::Member(a, name) => {
            let need = a.prec() < PREC_PRIMARY || matches!(&**a, Expr::Num(_));
            paren_if(need, a, st, out);
            out.push('.');
            out.push_str(name);
        }
        Expr::Index(a, i) => {
            let need = a.prec() < PREC_PRIMARY;
            paren_if(need, a, st, out);
            out.push('[');
            st.ws(out);
            print_src_prec(i, 0, st, out);
            st.ws(out);
            out.push(']');
        }
        Expr::Call(f, args) => {
            let need = f.prec() < PREC_PRIMARY || matches!(&**f, Expr::Num(_));
            paren_if(need, f, st, out);
            out.push('(');
            for (i, a) in args.iter().enumerate() {
                if i > 0 {
                    out.push(',');
                }
                st.ws(out);
                print_src_prec(a, 0, st, out);
            }
            st.ws(out);
            out.push(')');
        }
        Expr::Arr(items) => {
            out.push('[');
            let n = items.len();
            for (i, it) in items.iter().enumerate() {
                st.ws(out);
                match it {
                    ArrItem::Hole => {}
                    ArrItem::Item(e) => print_src_prec(e, 0, st, out),
                    ArrItem::Spread(e) => {
                        out.push_str("...");
                        print_src_prec(e, 0, st, out)
                    }
                }
                // a trailing hole needs its own comma: `[a,,]` has length 2 in JS, so a final Hole prints `,`
                if i + 1 < n || matches!(it, ArrItem::Hole) {
                    out.push(',');
                }
            }
            st.ws(out);
            out.push(']');
        }
        Expr::Obj(items) => {
            out.push('{');
            for (i, it) in items.iter().enumerate() {
                if i > 0 {
                    out.push(',');
                }
                st.ws(out);
                match it {
                    ObjItem::KV(k, v) => {
                        out.push_str(k);
                        st.ws(out);
                        out.push(':');
                        st.ws(out);
                        print_src_prec(v, 0, st, out);
                    }
                    ObjItem::Short(k) => out.push_str(k),
                    ObjItem::Spread(e) => {
                        out.push_str("...");
                        print_src_prec(e, 0, st, out)
                    }
                }
            }
            st.ws(out);
            // `}}` would terminate the binding for a naive scanner; keep a space before the closing brace so that the
            // enclosing `}}` is never adjacent to an object brace
            out.push(' ');
            out.push('}');
        }
    }
}

// ------------------------------------------------------------------------------------------------
// reference JS

/// Known-finding taint switches for the reference printer (see DESIGN §1.4): when set, the reference JS reports
/// at run time that an evaluation went through a condition a listed finding is about.
#[derive(Clone, Debug, Default)]
pub struct RefOpts {
    pub taint: bool,
}

/// Print the fully parenthesised reference JS with identifiers resolved against `scopes` (innermost last).
pub fn print_ref(e: &Expr, scopes: &[String], out: &mut String) {
    match e {
        Expr::Ident(n) => out.push_str(&resolve_ident(n, scopes)),
        Expr::Undefined => out.push_str("(void 0)"),
        Expr::Null => out.push_str("null"),
        Expr::Bool(b) => out.push_str(if *b { "true" } else { "false" }),
        Expr::Num(t) => {
            out.push('(');
            out.push_str(t);
            out.push(')');
        }
        Expr::Str(s) => out.push_str(&js_str(s)),
        Expr::Paren(a) => print_ref(a, scopes, out),
        Expr::Raw { js, .. } => {
            out.push('(');
            out.push_str(js);
            out.push(')');
        }
        Expr::Unary(op, a) => {
            out.push('(');
            out.push_str(op.text());
            out.push(' ');
            print_ref(a, scopes, out);
            out.push(')');
        }
        Expr::Binary(op, a, b) => {
            out.push('(');
            print_ref(a, scopes, out);
            out.push(' ');
            out.push_str(op.text());
            out.push(' ');
            print_ref(b, scopes, out);
            out.push(')');
        }
        Expr::Cond(c, t, f) => {
            out.push('(');
            print_ref(c, scopes, out);
            out.push_str(" ? ");
            print_ref(t, scopes, out);
            out.push_str(" : ");
            print_ref(f, scopes, out);
            out.push(')');
        }
        Expr::Member(a, name) => {
            out.push_str("$get(");
            print_ref(a, scopes, out);
            out.push(',');
            out.push_str(&js_str(name));
            out.push(')');
        }
        Expr::Index(a, i) => {
            out.push_str("$get(");
            print_ref(a, scopes, out);
            out.push(',');
            print_ref(i, scopes, out);
            out.push(')');
        }
        Expr::Call(f, args) => {
            out.push_str("$call(");
            print_ref(f, scopes, out);
            out.push_str(",[");
            for (i, a) in args.iter().enumerate() {
                if i > 0 {
                    out.push(',');
                }
                print_ref(a, scopes, out);
            }
            out.push_str("])");
        }
        Expr::Arr(items) => {
            out.push('[');
            let n = items.len();
            for (i, it) in items.iter().enumerate() {
                match it {
                    ArrItem::Hole => {}
                    ArrItem::Item(e) => print_ref(e, scopes, out),
                    ArrItem::Spread(e) => {
                        out.push_str("...");
                        print_ref(e, scopes, out)
                    }
                }
                if i + 1 < n || matches!(it, ArrItem::Hole) {
                    out.push(',');
                }
            }
            out.push(']');
        }
        Expr::Obj(items) => {
            out.push_str("({");
            for (i, it) in items.iter().enumerate() {
                if i > 0 {
                    out.push(',');
                }
                match it {
                    ObjItem::KV(k, v) => {
                        out.push_str(&js_str(k));
                        out.push(':');
                        print_ref(v, scopes, out);
                    }
                    ObjItem::Short(k) => {
                        out.push_str(&js_str(k));
                        out.push(':');
                        out.push_str(&resolve_ident(k, scopes));
                    }
                    ObjItem::Spread(e) => {
                        out.push_str("...");
                        print_ref(e, scopes, out)
                    }
                }
            }
            out.push_str("})");
        }
    }
}

pub fn resolve_ident(n: &str, scopes: &[String]) -> String {
    for (i, s) in scopes.iter().enumerate().rev() {
        if s == n {
            return format!("$s[{}]", i);
        }
    }
    format!("$get($d,{})", js_str(n))
}

pub fn ref_js(e: &Expr, scopes: &[String]) -> String {
    let mut s = String::new();
    print_ref(e, scopes, &mut s);
    s
}

pub fn source(e: &Expr, st: &mut ExprStyle) -> String {
    let mut s = String::new();
    print_source(e, st, &mut s);
    s
}
