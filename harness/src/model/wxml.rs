//! The generator's WXML model: concrete-syntax printer (with a position table) and the JSON model interpreted by the
//! reference renderer in the node worker.

use super::expr::{self, Expr, ExprStyle, ObjItem};
use crate::oracle::pathres;
use crate::util::Rng;
use serde_json::{json, Map, Value};
use std::collections::BTreeMap;
use serde::{Deserialize, Serialize};

#[derive(Clone, Debug, PartialEq, Serialize, Deserialize)]
pub enum Piece {
    Lit(String),
    Bind(Expr),
}

#[derive(Clone, Debug, PartialEq, Serialize, Deserialize)]
pub enum Val {
    Static(String),
    Bind(Expr),
    Mixed(Vec<Piece>),
}

impl Val {
    pub fn exprs(&self) -> Vec<&Expr> {
        match self {
            Val::Static(_) => vec![],
            Val::Bind(e) => vec![e],
            Val::Mixed(ps) => ps.iter().filter_map(|p| if let Piece::Bind(e) = p { Some(e) } else { None }).collect(),
        }
    }
    pub fn is_dynamic(&self) -> bool {
        !matches!(self, Val::Static(_))
    }
    pub fn shape(&self) -> String {
        match self {
            Val::Static(_) => "static".into(),
            Val::Bind(e) => format!("bind:{}", e.shape()),
            Val::Mixed(ps) => format!(
                "mixed[{}]",
                ps.iter().map(|p| match p { Piece::Lit(_) => "lit".to_string(), Piece::Bind(e) => e.shape() }).collect::<Vec<_>>().join("+")
            ),
        }
    }
    /// normalise: merge adjacent literals, drop empty literals; a Mixed with no binding becomes Static,
    /// a Mixed that is exactly one binding becomes Bind
    pub fn normalise(self) -> Val {
        match self {
            Val::Mixed(ps) => {
                let ps = normalise_pieces(ps);
                if ps.iter().all(|p| matches!(p, Piece::Lit(_))) {
                    Val::Static(ps.into_iter().map(|p| if let Piece::Lit(s) = p { s } else { unreachable!() }).collect())
                } else if ps.len() == 1 {
                    match ps.into_iter().next().unwrap() {
                        Piece::Bind(e) => Val::Bind(e),
                        Piece::Lit(s) => Val::Static(s),
                    }
                } else {
                    Val::Mixed(ps)
                }
            }
            v => v,
        }
    }
}

pub fn normalise_pieces(ps: Vec<Piece>) -> Vec<Piece> {
    let mut out: Vec<Piece> = vec![];
    for p in ps {
        match p {
            Piece::Lit(s) => {
                if s.is_empty() {
                    continue;
                }
                if let Some(Piece::Lit(prev)) = out.last_mut() {
                    prev.push_str(&s);
                } else {
                    out.push(Piece::Lit(s));
                }
            }
            b => out.push(b),
        }
    }
    out
}

#[derive(Clone, Copy, Debug, PartialEq, Eq, Hash, Serialize, Deserialize)]
pub enum EvKind {
    Bind,
    Catch,
    MutBind,
    CaptureBind,
    CaptureCatch,
    CaptureMutBind,
}

impl EvKind {
    pub const ALL: [EvKind; 6] = [EvKind::Bind, EvKind::Catch, EvKind::MutBind, EvKind::CaptureBind, EvKind::CaptureCatch, EvKind::CaptureMutBind];
    pub fn prefix(self) -> &'static str {
        match self {
            EvKind::Bind => "bind",
            EvKind::Catch => "catch",
            EvKind::MutBind => "mut-bind",
            EvKind::CaptureBind => "capture-bind",
            EvKind::CaptureCatch => "capture-catch",
            EvKind::CaptureMutBind => "capture-mut-bind",
        }
    }
    /// (final, mutated, capture) as documented
    pub fn flags(self) -> (bool, bool, bool) {
        match self {
            EvKind::Bind => (false, false, false),
            EvKind::Catch => (true, false, false),
            EvKind::MutBind => (false, true, false),
            EvKind::CaptureBind => (false, false, true),
            EvKind::CaptureCatch => (true, false, true),
            EvKind::CaptureMutBind => (false, true, true),
        }
    }
}

#[derive(Clone, Copy, Debug, PartialEq, Eq, Hash, Serialize, Deserialize)]
pub enum AttrKind {
    Plain,
    Class,
    Style,
    Id,
    DataHyphen,
    DataColon,
    Mark,
    Event(EvKind),
    Model,
    Change,
    Worklet,
    Generic,
    ExtraAttr,
}

impl AttrKind {
    pub fn label(self) -> &'static str {
        match self {
            AttrKind::Plain => "plain",
            AttrKind::Class => "class",
            AttrKind::Style => "style",
            AttrKind::Id => "id",
            AttrKind::DataHyphen => "data-",
            AttrKind::DataColon => "data:",
            AttrKind::Mark => "mark:",
            AttrKind::Event(_) => "event",
            AttrKind::Model => "model:",
            AttrKind::Change => "change:",
            AttrKind::Worklet => "worklet:",
            AttrKind::Generic => "generic:",
            AttrKind::ExtraAttr => "extra-attr:",
        }
    }
    pub fn is_static_only(self) -> bool {
        matches!(self, AttrKind::Worklet | AttrKind::Generic | AttrKind::ExtraAttr)
    }
}

#[derive(Clone, Debug, PartialEq, Serialize, Deserialize)]
pub struct Attr {
    pub kind: AttrKind,
    /// source spelling of the name part (without prefix; for DataHyphen without the `data-`)
    pub name: String,
    pub val: Option<Val>,
}

/// our own statement of the documented dash→camel normalisation (single dashes between alphanumeric segments only are generated)
pub fn dash_to_camel_ref(s: &str) -> String {
    let mut out = String::new();
    let mut up = false;
    for c in s.chars() {
        if c == '-' {
            up = true;
        } else if up {
            out.extend(c.to_uppercase());
            up = false;
        } else {
            out.push(c);
        }
    }
    out
}

impl Attr {
    pub fn source_name(&self) -> String {
        match self.kind {
            AttrKind::Plain => self.name.clone(),
            AttrKind::Class => "class".into(),
            AttrKind::Style => "style".into(),
            AttrKind::Id => "id".into(),
            AttrKind::DataHyphen => format!("data-{}", self.name),
            AttrKind::DataColon => format!("data:{}", self.name),
            AttrKind::Mark => format!("mark:{}", self.name),
            AttrKind::Event(k) => format!("{}:{}", k.prefix(), self.name),
            AttrKind::Model => format!("model:{}", self.name),
            AttrKind::Change => format!("change:{}", self.name),
            AttrKind::Worklet => format!("worklet:{}", self.name),
            AttrKind::Generic => format!("generic:{}", self.name),
            AttrKind::ExtraAttr => format!("extra-attr:{}", self.name),
        }
    }
    /// (channel, expected normalised name) on a normal element
    pub fn channel(&self, on_slot: bool) -> (&'static str, String) {
        match self.kind {
            AttrKind::Plain => {
                if on_slot {
                    ("l", dash_to_camel_ref(&self.name))
                } else {
                    ("r", self.name.clone())
                }
            }
            AttrKind::Class => ("c", String::new()),
            AttrKind::Style => ("y", String::new()),
            AttrKind::Id => ("i", String::new()),
            AttrKind::DataHyphen => ("d", dash_to_camel_ref(&self.name.to_lowercase())),
            AttrKind::DataColon => ("d", self.name.clone()),
            AttrKind::Mark => ("m", self.name.clone()),
            AttrKind::Event(_) => ("v", self.name.clone()),
            AttrKind::Model => ("r", dash_to_camel_ref(&self.name)),
            AttrKind::Change => ("p", dash_to_camel_ref(&self.name)),
            AttrKind::Worklet => ("wl", dash_to_camel_ref(&self.name)),
            AttrKind::Generic => ("g", self.name.clone()),
            AttrKind::ExtraAttr => ("a", self.name.clone()),
        }
    }
    /// uniqueness key inside one element (what the parser treats as a duplicate)
    pub fn dup_key(&self, on_slot: bool) -> String {
        let (ch, n) = self.channel(on_slot);
        match self.kind {
            AttrKind::Event(_) => format!("v:{}:{}", self.source_name(), n),
            _ => format!("{}:{}", ch, n),
        }
    }
}

#[derive(Clone, Debug, PartialEq, Serialize, Deserialize)]
pub struct SlotRef {
    pub name: String,
    pub alias: Option<String>,
}

impl SlotRef {
    pub fn scope_name(&self) -> String {
        self.alias.clone().unwrap_or_else(|| dash_to_camel_ref(&self.name))
    }
}

#[derive(Clone, Debug, PartialEq, Serialize, Deserialize)]
pub struct El {
    pub tag: String,
    pub attrs: Vec<Attr>,
    pub slot: Option<Val>,
    pub slot_refs: Vec<SlotRef>,
    pub kids: Vec<Node>,
}

#[derive(Clone, Copy, Debug, PartialEq, Eq, Serialize, Deserialize)]
pub enum Carrier {
    Block,
    OnChild,
}

#[derive(Clone, Debug, PartialEq, Serialize, Deserialize)]
pub struct Branch {
    /// None = wx:else (only as last branch)
    pub cond: Option<Val>,
    pub kids: Vec<Node>,
    pub carrier: Carrier,
}

#[derive(Clone, Debug, PartialEq, Serialize, Deserialize)]
pub struct ForNode {
    pub list: Val,
    pub item: Option<String>,
    pub index: Option<String>,
    pub key: Option<String>,
    pub kids: Vec<Node>,
    pub carrier: Carrier,
}

#[derive(Clone, Debug, PartialEq, Serialize, Deserialize)]
pub struct BlockNode {
    pub slot: Option<Val>,
    pub slot_refs: Vec<SlotRef>,
    pub kids: Vec<Node>,
}

#[derive(Clone, Debug, PartialEq, Serialize, Deserialize)]
pub struct Tis {
    pub is: Val,
    pub data: Option<Vec<ObjItem>>,
    /// `data="{{ (expr) }}"`: the data object is the value of one expression (used when `data` is None)
    #[serde(default)]
    pub data_expr: Option<Expr>,
}

#[derive(Clone, Debug, PartialEq, Serialize, Deserialize)]
pub struct SlotEl {
    pub name: Option<Val>,
    /// plain attributes of `<slot>` are slot values; the others (id, data, mark, events) are common attributes
    pub attrs: Vec<Attr>,
    pub slot: Option<Val>,
    pub slot_refs: Vec<SlotRef>,
}

#[derive(Clone, Debug, PartialEq, Serialize, Deserialize)]
pub enum Node {
    Text(Vec<Piece>),
    Comment(String),
    El(El),
    If(Vec<Branch>),
    For(Box<ForNode>),
    Block(BlockNode),
    Tis(Tis),
    Include(String),
    Slot(SlotEl),
}

#[derive(Clone, Debug, PartialEq, Serialize, Deserialize)]
pub enum Wxs {
    Inline { module: String, js: String },
    Ref { module: String, src: String },
}

impl Wxs {
    pub fn module(&self) -> &str {
        match self {
            Wxs::Inline { module, .. } | Wxs::Ref { module, .. } => module,
        }
    }
}

#[derive(Clone, Debug, PartialEq, Default, Serialize, Deserialize)]
pub struct Tmpl {
    pub path: String,
    pub imports: Vec<String>,
    pub wxs: Vec<Wxs>,
    pub named: Vec<(String, Vec<Node>)>,
    pub body: Vec<Node>,
}

#[derive(Clone, Debug, PartialEq, Default, Serialize, Deserialize)]
pub struct Script {
    pub path: String,
    pub js: String,
    /// `require` arguments used inside `js` (so the reference can resolve them with its own resolver)
    pub requires: Vec<String>,
}

#[derive(Clone, Debug, PartialEq, Default, Serialize, Deserialize)]
pub struct Group {
    pub files: Vec<Tmpl>,
    pub scripts: Vec<Script>,
}

// ------------------------------------------------------------------------------------------------
// normalisation (so that the model denotes exactly what its printed text denotes)

pub fn normalise_nodes(nodes: Vec<Node>) -> Vec<Node> {
    let mut out: Vec<Node> = vec![];
    for n in nodes {
        let n = match n {
            Node::Text(ps) => {
                let ps = normalise_pieces(ps);
                if ps.is_empty() {
                    continue;
                }
                if let Some(Node::Text(prev)) = out.last_mut() {
                    let mut merged = std::mem::take(prev);
                    merged.extend(ps);
                    *prev = normalise_pieces(merged);
                    continue;
                }
                Node::Text(ps)
            }
            Node::El(mut e) => {
                e.kids = normalise_nodes(e.kids);
                e.slot = e.slot.map(|v| v.normalise());
                for a in e.attrs.iter_mut() {
                    a.val = a.val.take().map(|v| v.normalise());
                }
                Node::El(e)
            }
            Node::If(brs) => Node::If(
                brs.into_iter()
                    .map(|mut b| {
                        b.kids = normalise_nodes(b.kids);
                        b.cond = b.cond.map(|v| v.normalise());
                        b
                    })
                    .collect(),
            ),
            Node::For(mut f) => {
                f.kids = normalise_nodes(f.kids);
                f.list = f.list.normalise();
                Node::For(f)
            }
            Node::Block(mut b) => {
                b.kids = normalise_nodes(b.kids);
                b.slot = b.slot.map(|v| v.normalise());
                Node::Block(b)
            }
            Node::Tis(mut t) => {
                t.is = t.is.normalise();
                Node::Tis(t)
            }
            Node::Slot(mut s) => {
                s.name = s.name.map(|v| v.normalise());
                s.slot = s.slot.map(|v| v.normalise());
                for a in s.attrs.iter_mut() {
                    a.val = a.val.take().map(|v| v.normalise());
                }
                Node::Slot(s)
            }
            other => other,
        };
        out.push(n);
    }
    out
}

impl Tmpl {
    pub fn normalise(mut self) -> Tmpl {
        self.body = normalise_nodes(self.body);
        self.named = self.named.into_iter().map(|(n, b)| (n, normalise_nodes(b))).collect();
        self
    }
}

pub fn count_nodes(nodes: &[Node]) -> usize {
    let mut n = 0;
    for x in nodes {
        n += 1;
        match x {
            Node::El(e) => n += count_nodes(&e.kids),
            Node::If(b) => {
                for br in b {
                    n += count_nodes(&br.kids)
                }
            }
            Node::For(f) => n += count_nodes(&f.kids),
            Node::Block(b) => n += count_nodes(&b.kids),
            _ => {}
        }
    }
    n
}

/// visit every expression with the scope stack in effect
pub fn visit_exprs(nodes: &[Node], scopes: &mut Vec<String>, f: &mut dyn FnMut(&Expr, &[String], &str)) {
    fn val(v: &Val, scopes: &[String], what: &str, f: &mut dyn FnMut(&Expr, &[String], &str)) {
        for e in v.exprs() {
            f(e, scopes, what)
        }
    }
    for n in nodes {
        match n {
            Node::Text(ps) => {
                for p in ps {
                    if let Piece::Bind(e) = p {
                        f(e, scopes, "text")
                    }
                }
            }
            Node::Comment(_) | Node::Include(_) => {}
            Node::El(e) => {
                let d = scopes.len();
                for r in &e.slot_refs {
                    scopes.push(r.scope_name());
                }
                for a in &e.attrs {
                    if let Some(v) = &a.val {
                        val(v, scopes, a.kind.label(), f)
                    }
                }
                if let Some(v) = &e.slot {
                    val(v, scopes, "slot", f)
                }
                visit_exprs(&e.kids, scopes, f);
                scopes.truncate(d);
            }
            Node::If(brs) => {
                for b in brs {
                    if let Some(c) = &b.cond {
                        val(c, scopes, "cond", f)
                    }
                    visit_exprs(&b.kids, scopes, f);
                }
            }
            Node::For(fo) => {
                val(&fo.list, scopes, "list", f);
                let d = scopes.len();
                scopes.push(fo.item.clone().unwrap_or_else(|| "item".into()));
                scopes.push(fo.index.clone().unwrap_or_else(|| "index".into()));
                visit_exprs(&fo.kids, scopes, f);
                scopes.truncate(d);
            }
            Node::Block(b) => {
                let d = scopes.len();
                for r in &b.slot_refs {
                    scopes.push(r.scope_name());
                }
                if let Some(v) = &b.slot {
                    val(v, scopes, "slot", f)
                }
                visit_exprs(&b.kids, scopes, f);
                scopes.truncate(d);
            }
            Node::Tis(t) => {
                val(&t.is, scopes, "is", f);
                if let Some(items) = &t.data {
                    let e = Expr::Obj(items.clone());
                    f(&e, scopes, "tdata");
                } else if let Some(e) = &t.data_expr {
                    f(e, scopes, "tdata");
                }
            }
            Node::Slot(s) => {
                let d = scopes.len();
                for r in &s.slot_refs {
                    scopes.push(r.scope_name());
                }
                if let Some(v) = &s.name {
                    val(v, scopes, "slotname", f)
                }
                for a in &s.attrs {
                    if let Some(v) = &a.val {
                        val(v, scopes, a.kind.label(), f)
                    }
                }
                if let Some(v) = &s.slot {
                    val(v, scopes, "slot", f)
                }
                scopes.truncate(d);
            }
        }
    }
}

// ------------------------------------------------------------------------------------------------
// concrete syntax printer

#[derive(Clone, Debug, Default)]
pub struct PosEntry {
    pub kind: &'static str,
    pub text: String,
    pub start: (u32, u32),
    pub end: (u32, u32),
    /// byte range in the printed source
    pub byte_start: usize,
    pub byte_end: usize,
}

pub struct Printer {
    pub out: String,
    pub rng: Rng,
    /// 0 = canonical (no optional whitespace, double quotes, raw characters wherever legal)
    pub loose: bool,
    pub positions: Vec<PosEntry>,
    pub record_positions: bool,
    line: u32,
    col16: u32,
    synced: usize,
    /// byte offset at the latest `pos()` call (start of the item being recorded)
    mark_byte: usize,
}

const NAMED_ENTITIES: &[(char, &str)] = &[
    ('&', "amp"),
    ('<', "lt"),
    ('>', "gt"),
    ('"', "quot"),
    ('\'', "apos"),
    ('\u{a0}', "nbsp"),
    ('©', "copy"),
    ('{', "lbrace"),
    ('}', "rbrace"),
    ('é', "eacute"),
    ('→', "rarr"),
];

impl Printer {
    pub fn new(style_seed: u64) -> Self {
        Printer { out: String::new(), rng: Rng::new(style_seed), loose: style_seed != 0, positions: vec![], record_positions: false, line: 0, col16: 0, synced: 0, mark_byte: 0 }
    }

    fn sync(&mut self) {
        let s = &self.out[self.synced..];
        for c in s.chars() {
            if c == '\n' {
                self.line += 1;
                self.col16 = 0;
            } else {
                self.col16 += c.len_utf16() as u32;
            }
        }
        self.synced = self.out.len();
    }

    pub fn pos(&mut self) -> (u32, u32) {
        self.sync();
        self.mark_byte = self.out.len();
        (self.line, self.col16)
    }

    fn record(&mut self, kind: &'static str, start: (u32, u32), text: &str) {
        if self.record_positions {
            let byte_start = self.mark_byte;
            let end = self.pos();
            self.positions.push(PosEntry { kind, text: text.to_string(), start, end, byte_start, byte_end: self.out.len() });
        }
    }

    /// record a span given by its byte start (line/column of the start are recomputed)
    fn record_span(&mut self, kind: &'static str, byte_start: usize, text: &str) {
        if self.record_positions {
            let mut line = 0u32;
            let mut col = 0u32;
            for c in self.out[..byte_start].chars() {
                if c == '\n' {
                    line += 1;
                    col = 0;
                } else {
                    col += c.len_utf16() as u32;
                }
            }
            let end = self.pos();
            self.positions.push(PosEntry { kind, text: text.to_string(), start: (line, col), end, byte_start, byte_end: self.out.len() });
        }
    }

    fn ws_opt(&mut self) {
        if !self.loose {
            return;
        }
        match self.rng.below(10) {
            0 => self.out.push(' '),
            1 => self.out.push('\n'),
            2 => self.out.push_str("\n  "),
            3 => self.out.push('\t'),
            _ => {}
        }
    }

    fn ws_req(&mut self) {
        if !self.loose {
            self.out.push(' ');
            return;
        }
        match self.rng.below(8) {
            0 => self.out.push_str("  "),
            1 => self.out.push('\n'),
            2 => self.out.push_str("\n\t"),
            3 => self.out.push('\t'),
            4 => self.out.push_str("\r\n"),
            _ => self.out.push(' '),
        }
    }

    /// static characters → source text with entity encoding. `quote`: Some(q) inside an attribute value.
    pub fn static_text(&mut self, s: &str, quote: Option<char>) {
        self.static_text_before(s, quote, false)
    }

    /// `binding_follows`: the literal is immediately followed by `{{`, so a trailing `{` must not touch it
    pub fn static_text_before(&mut self, s: &str, quote: Option<char>, binding_follows: bool) {
        let chars: Vec<char> = s.chars().collect();
        for (i, &c) in chars.iter().enumerate() {
            let next = chars.get(i + 1).copied().or(if binding_follows { Some('{') } else { None });
            let must = match c {
                '&' => true,
                '<' => quote.is_none(),
                '{' => next == Some('{'),
                c if Some(c) == quote => true,
                _ => false,
            };
            let may = self.loose && self.rng.chance(1, 12);
            if must || may {
                self.entity(c, must);
            } else {
                self.out.push(c);
            }
        }
    }

    fn entity(&mut self, c: char, _must: bool) {
        let named = NAMED_ENTITIES.iter().find(|(ch, _)| *ch == c).map(|(_, n)| *n);
        let choice = if self.loose { self.rng.below(4) } else { 0 };
        match (choice, named) {
            (0, Some(n)) | (3, Some(n)) => {
                self.out.push('&');
                self.out.push_str(n);
                self.out.push(';');
            }
            (1, _) => self.out.push_str(&format!("&#{};", c as u32)),
            (2, _) => self.out.push_str(&format!("&#x{:x};", c as u32)),
            _ => self.out.push_str(&format!("&#x{:X};", c as u32)),
        }
    }

    fn expr(&mut self, e: &Expr, attr_quote: Option<char>) {
        let str_quote = match attr_quote {
            Some('"') => '\'',
            Some('\'') => '"',
            _ => {
                if self.loose && self.rng.chance(1, 2) {
                    '"'
                } else {
                    '\''
                }
            }
        };
        let mut st = ExprStyle { rng: Rng(self.rng.next()), str_quote, loose: self.loose };
        if !self.loose {
            st.rng = Rng(0);
            st.loose = false;
        }
        self.out.push_str("{{");
        self.ws_opt_inline();
        let start = self.pos();
        let mut s = String::new();
        expr::print_source(e, &mut st, &mut s);
        // an expression that starts with `{` must not touch the opening braces
        if s.starts_with('{') {
            self.out.push(' ');
        }
        self.out.push_str(&s);
        self.record("expr", start, &s);
        self.ws_opt_inline();
        if self.out.ends_with('}') {
            self.out.push(' ');
        }
        self.out.push_str("}}");
    }

    fn ws_opt_inline(&mut self) {
        if self.loose {
            match self.rng.below(6) {
                0 => self.out.push(' '),
                1 => self.out.push_str("  "),
                2 => self.out.push('\n'),
                _ => {}
            }
        }
    }

    fn pieces(&mut self, ps: &[Piece], quote: Option<char>) {
        for (i, p) in ps.iter().enumerate() {
            match p {
                Piece::Lit(s) => {
                    let follows = matches!(ps.get(i + 1), Some(Piece::Bind(_)));
                    self.static_text_before(s, quote, follows)
                }
                Piece::Bind(e) => self.expr(e, quote),
            }
        }
    }

    fn val(&mut self, v: &Val, quote: Option<char>) {
        match v {
            Val::Static(s) => self.static_text(s, quote),
            Val::Bind(e) => self.expr(e, quote),
            Val::Mixed(ps) => self.pieces(ps, quote),
        }
    }

    fn quote(&mut self) -> char {
        if self.loose && self.rng.chance(1, 3) {
            '\''
        } else {
            '"'
        }
    }

    fn attr_raw(&mut self, name: &str, v: Option<&Val>) {
        self.ws_req();
        let start = self.pos();
        self.out.push_str(name);
        self.record("attr-name", start, name);
        if let Some(v) = v {
            self.out.push('=');
            let q = self.quote();
            self.out.push(q);
            let vstart = self.pos();
            let before = self.out.len();
            self.val(v, Some(q));
            if let Val::Static(s) = v {
                let _ = before;
                self.record("attr-static", vstart, s);
            }
            self.out.push(q);
        }
    }

    fn obj_inner_attr(&mut self, name: &str, items: &[ObjItem]) {
        self.ws_req();
        self.out.push_str(name);
        self.out.push('=');
        let q = self.quote();
        self.out.push(q);
        let str_quote = if q == '"' { '\'' } else { '"' };
        let mut st = ExprStyle { rng: Rng(self.rng.next()), str_quote, loose: self.loose };
        if !self.loose {
            st.rng = Rng(0);
        }
        let mut s = String::new();
        expr::print_source(&Expr::Obj(items.to_vec()), &mut st, &mut s);
        // strip the outer braces: `{{ a, b:1, ...c }}`
        let inner = s.trim();
        let inner = &inner[1..inner.len() - 1];
        self.out.push_str("{{");
        self.out.push_str(inner);
        self.out.push_str("}}");
        self.out.push(q);
    }

    fn slot_refs(&mut self, refs: &[SlotRef]) {
        for r in refs {
            let name = format!("slot:{}", r.name);
            match &r.alias {
                Some(a) => self.attr_raw(&name, Some(&Val::Static(a.clone()))),
                None => self.attr_raw(&name, None),
            }
        }
    }

    /// directive attributes carried by the element being printed
    fn directives(&mut self, d: &Directives) {
        if let Some(f) = d.for_ {
            // the companions of `wx:for` may stand in any order, also in front of it
            let mut order = [0usize, 1, 2, 3];
            if self.loose && self.rng.chance(1, 3) {
                for i in (1..4).rev() {
                    let j = self.rng.below(i as u64 + 1) as usize;
                    order.swap(i, j);
                }
            }
            for which in order {
                match which {
                    0 => self.attr_raw("wx:for", Some(&f.list)),
                    1 => {
                        if let Some(i) = &f.item {
                            self.attr_raw("wx:for-item", Some(&Val::Static(i.clone())));
                        }
                    }
                    2 => {
                        if let Some(i) = &f.index {
                            self.attr_raw("wx:for-index", Some(&Val::Static(i.clone())));
                        }
                    }
                    _ => {
                        if let Some(k) = &f.key {
                            self.attr_raw("wx:key", Some(&Val::Static(k.clone())));
                        }
                    }
                }
            }
        }
        match &d.cond {
            CondDir::None => {}
            CondDir::If(v) => self.attr_raw("wx:if", Some(v)),
            CondDir::Elif(v) => self.attr_raw("wx:elif", Some(v)),
            CondDir::Else => self.attr_raw("wx:else", None),
        }
    }

    fn open_close(&mut self, tag: &str, write_attrs: &mut dyn FnMut(&mut Printer), kids: Option<&[Node]>) {
        let lt = self.out.len();
        self.out.push('<');
        let start = self.pos();
        self.out.push_str(tag);
        self.record("tag-name", start, tag);
        write_attrs(self);
        self.ws_opt();
        let empty = kids.map(|k| k.is_empty()).unwrap_or(true);
        if empty && (!self.loose || self.rng.chance(2, 3)) {
            self.out.push_str("/>");
            self.record_span("open-tag-selfclosed", lt, tag);
            return;
        }
        self.out.push('>');
        self.record_span("open-tag", lt, tag);
        if let Some(k) = kids {
            self.nodes(k);
        }
        let et = self.out.len();
        self.out.push_str("</");
        self.out.push_str(tag);
        self.ws_opt();
        self.out.push('>');
        self.record_span("end-tag", et, tag);
    }

    fn attrs_in_order(&mut self, n: usize) -> Vec<usize> {
        let mut idx: Vec<usize> = (0..n).collect();
        if self.loose {
            for i in (1..n).rev() {
                let j = self.rng.below(i as u64 + 1) as usize;
                idx.swap(i, j);
            }
        }
        idx
    }

    pub fn nodes(&mut self, nodes: &[Node]) {
        for n in nodes {
            self.node(n, &Directives::none());
        }
    }

    fn node(&mut self, n: &Node, d: &Directives) {
        match n {
            Node::Text(ps) => {
                debug_assert!(d.is_none());
                let start = self.pos();
                self.pieces(ps, None);
                if ps.len() == 1 {
                    if let Piece::Lit(s) = &ps[0] {
                        self.record("text-static", start, s);
                    }
                }
            }
            Node::Comment(c) => {
                self.out.push_str("<!--");
                self.out.push_str(c);
                self.out.push_str("-->");
            }
            Node::El(e) => {
                let order = self.attrs_in_order(e.attrs.len());
                self.open_close(
                    &e.tag,
                    &mut |p: &mut Printer| {
                        let dir_first = !p.loose || p.rng.chance(1, 2);
                        if dir_first {
                            p.directives(d);
                        }
                        p.slot_refs(&e.slot_refs);
                        if let Some(s) = &e.slot {
                            p.attr_raw("slot", Some(s));
                        }
                        for &i in &order {
                            let a = &e.attrs[i];
                            p.attr_raw(&a.source_name(), a.val.as_ref());
                        }
                        if !dir_first {
                            p.directives(d);
                        }
                    },
                    Some(&e.kids),
                );
            }
            Node::Block(b) => {
                self.open_close(
                    "block",
                    &mut |p: &mut Printer| {
                        p.directives(d);
                        p.slot_refs(&b.slot_refs);
                        if let Some(s) = &b.slot {
                            p.attr_raw("slot", Some(s));
                        }
                    },
                    Some(&b.kids),
                );
            }
            Node::Tis(t) => {
                self.open_close(
                    "template",
                    &mut |p: &mut Printer| {
                        p.attr_raw("is", Some(&t.is));
                        if let Some(items) = &t.data {
                            p.obj_inner_attr("data", items);
                        } else if let Some(e) = &t.data_expr {
                            p.attr_raw("data", Some(&Val::Bind(e.clone())));
                        }
                        p.directives(d);
                    },
                    None,
                );
            }
            Node::Include(src) => {
                self.open_close(
                    "include",
                    &mut |p: &mut Printer| {
                        p.attr_raw("src", Some(&Val::Static(src.clone())));
                        p.directives(d);
                    },
                    None,
                );
            }
            Node::Slot(s) => {
                let order = self.attrs_in_order(s.attrs.len());
                self.open_close(
                    "slot",
                    &mut |p: &mut Printer| {
                        p.directives(d);
                        if let Some(n) = &s.name {
                            p.attr_raw("name", Some(n));
                        }
                        p.slot_refs(&s.slot_refs);
                        if let Some(sl) = &s.slot {
                            p.attr_raw("slot", Some(sl));
                        }
                        for &i in &order {
                            let a = &s.attrs[i];
                            p.attr_raw(&a.source_name(), a.val.as_ref());
                        }
                    },
                    None,
                );
            }
            Node::If(brs) => {
                debug_assert!(d.cond_is_none());
                for (i, b) in brs.iter().enumerate() {
                    let cond = match (&b.cond, i) {
                        (Some(v), 0) => CondDir::If(v.clone()),
                        (Some(v), _) => CondDir::Elif(v.clone()),
                        (None, _) => CondDir::Else,
                    };
                    // a `wx:for` directive handed down applies to the first (only) branch
                    let dd = Directives { for_: if i == 0 { d.for_ } else { None }, cond };
                    if i > 0 && self.loose {
                        match self.rng.below(4) {
                            0 => self.out.push_str("\n"),
                            1 => self.out.push_str("<!-- between branches -->"),
                            2 => self.out.push_str("  "),
                            _ => {}
                        }
                    }
                    if b.carrier == Carrier::OnChild && b.kids.len() == 1 && can_carry(&b.kids[0]) {
                        self.node(&b.kids[0], &dd);
                    } else {
                        self.open_close("block", &mut |p: &mut Printer| p.directives(&dd), Some(&b.kids));
                    }
                }
            }
            Node::For(f) => {
                debug_assert!(d.is_none());
                let fd = ForDir { list: f.list.clone(), item: f.item.clone(), index: f.index.clone(), key: f.key.clone() };
                let dd = Directives { for_: Some(&fd), cond: CondDir::None };
                if f.carrier == Carrier::OnChild && f.kids.len() == 1 {
                    match &f.kids[0] {
                        k if can_carry(k) => {
                            self.node(k, &dd);
                            return;
                        }
                        Node::If(brs) if brs.len() == 1 && brs[0].cond.is_some() && brs[0].carrier == Carrier::OnChild && brs[0].kids.len() == 1 && can_carry(&brs[0].kids[0]) => {
                            self.node(&f.kids[0], &dd);
                            return;
                        }
                        _ => {}
                    }
                }
                self.open_close("block", &mut |p: &mut Printer| p.directives(&dd), Some(&f.kids));
            }
        }
    }

    fn header_import(&mut self, i: &str) {
        self.open_close("import", &mut |p: &mut Printer| p.attr_raw("src", Some(&Val::Static(i.to_string()))), None);
    }

    fn header_wxs(&mut self, w: &Wxs) {
        match w {
            Wxs::Inline { module, js } => {
                self.out.push_str("<wxs");
                self.attr_raw("module", Some(&Val::Static(module.clone())));
                self.out.push('>');
                self.out.push_str(js);
                self.out.push_str("</wxs>");
            }
            Wxs::Ref { module, src } => {
                self.out.push_str("<wxs");
                self.attr_raw("module", Some(&Val::Static(module.clone())));
                self.attr_raw("src", Some(&Val::Static(src.clone())));
                self.out.push_str("/>");
            }
        }
    }

    fn header_named(&mut self, name: &str, body: &[Node]) {
        self.out.push_str("<template");
        self.attr_raw("name", Some(&Val::Static(name.to_string())));
        self.out.push('>');
        self.nodes(body);
        self.out.push_str("</template>");
    }

    /// Imports, script modules and named templates are file-global wherever they stand: in loose style they are
    /// interleaved with the top-level body nodes in any order (imports keep their relative order, which decides
    /// precedence; wxs modules keep theirs, which decides scope indices; body nodes keep theirs).
    pub fn template(&mut self, t: &Tmpl) {
        enum Item<'a> {
            Import(&'a str),
            Wxs(&'a Wxs),
            Named(&'a str, &'a [Node]),
            Body(&'a Node),
        }
        let mut queues: Vec<Vec<Item>> = vec![
            t.imports.iter().map(|i| Item::Import(i.as_str())).collect(),
            t.wxs.iter().map(Item::Wxs).collect(),
            t.named.iter().map(|(n, b)| Item::Named(n.as_str(), b.as_slice())).collect(),
            t.body.iter().map(Item::Body).collect(),
        ];
        for q in queues.iter_mut() {
            q.reverse();
        }
        let interleave = self.loose && self.rng.chance(1, 2);
        let mut prev_was_header = false;
        loop {
            let avail: Vec<usize> = (0..4).filter(|i| !queues[*i].is_empty()).collect();
            if avail.is_empty() {
                break;
            }
            let qi = if interleave { avail[self.rng.below(avail.len() as u64) as usize] } else { avail[0] };
            let item = queues[qi].pop().unwrap();
            match item {
                Item::Body(n) => {
                    self.node(n, &Directives::none());
                    prev_was_header = false;
                }
                other => {
                    // optional whitespace only between two header items (it would join a neighbouring text node otherwise)
                    if prev_was_header {
                        self.ws_opt();
                    }
                    match other {
                        Item::Import(i) => self.header_import(i),
                        Item::Wxs(w) => self.header_wxs(w),
                        Item::Named(n, b) => self.header_named(n, b),
                        Item::Body(_) => unreachable!(),
                    }
                    prev_was_header = true;
                }
            }
        }
    }
}

pub struct ForDir {
    pub list: Val,
    pub item: Option<String>,
    pub index: Option<String>,
    pub key: Option<String>,
}

pub enum CondDir {
    None,
    If(Val),
    Elif(Val),
    Else,
}

pub struct Directives<'a> {
    pub for_: Option<&'a ForDir>,
    pub cond: CondDir,
}

impl<'a> Directives<'a> {
    pub fn none() -> Self {
        Directives { for_: None, cond: CondDir::None }
    }
    pub fn is_none(&self) -> bool {
        self.for_.is_none() && matches!(self.cond, CondDir::None)
    }
    pub fn cond_is_none(&self) -> bool {
        matches!(self.cond, CondDir::None)
    }
}

pub fn can_carry(n: &Node) -> bool {
    match n {
        Node::El(e) => e.slot_refs.is_empty(),
        Node::Block(b) => b.slot_refs.is_empty(),
        Node::Slot(s) => s.slot_refs.is_empty(),
        Node::Tis(_) | Node::Include(_) => true,
        _ => false,
    }
}

pub fn print_template(t: &Tmpl, style_seed: u64) -> String {
    let mut p = Printer::new(style_seed);
    p.template(t);
    p.out
}

pub fn print_template_with_positions(t: &Tmpl, style_seed: u64) -> (String, Vec<PosEntry>) {
    let mut p = Printer::new(style_seed);
    p.record_positions = true;
    p.template(t);
    (p.out, p.positions)
}

// ------------------------------------------------------------------------------------------------
// JSON model for the reference renderer

pub struct ModelJson {
    pub value: Value,
    /// id -> (node kind, per-attribute "ch:name" -> value shape)
    pub info: BTreeMap<String, NodeInfo>,
}

#[derive(Clone, Debug, Default)]
pub struct NodeInfo {
    pub kind: String,
    pub attrs: BTreeMap<String, String>,
    pub tags: BTreeMap<String, Vec<String>>,
}

/// what a lexical scope entry is, for the l-value path model (C11)
#[derive(Clone, Copy, Debug, PartialEq)]
pub enum ScopeKind {
    Module,
    /// `complete`: the list (and every enclosing list) is a pure data access chain
    Item { complete: bool },
    Other,
}

/// The model's statement of "the location an expression reads", as a spec the reference renderer evaluates:
/// segments `{k:'lit',v}` | `{k:'e',e:<ref js>}` | `{k:'scope',i}` | `{k:'cond',e,t,f}`. Data-rooted paths start with the
/// literal 0 (the runtime's general form); `None` = not an access chain. The flag says whether the chain is purely
/// data-rooted (the class for which the repository's own tests document that a `model:` binding receives a path).
pub fn path_spec(e: &Expr, scopes: &[String], kinds: &[ScopeKind]) -> Option<(Vec<Value>, bool)> {
    match e {
        Expr::Paren(x) => path_spec(x, scopes, kinds),
        Expr::Ident(n) => {
            for (i, s) in scopes.iter().enumerate().rev() {
                if s == n {
                    return match kinds.get(i).copied().unwrap_or(ScopeKind::Other) {
                        ScopeKind::Module => Some((vec![json!({"k":"scope","i":i})], false)),
                        ScopeKind::Item { complete } => Some((vec![json!({"k":"scope","i":i})], complete)),
                        ScopeKind::Other => None,
                    };
                }
            }
            Some((vec![json!({"k":"lit","v":0}), json!({"k":"lit","v":n})], true))
        }
        Expr::Member(b, name) => {
            let (mut p, c) = path_spec(b, scopes, kinds)?;
            p.push(json!({"k":"lit","v":name}));
            Some((p, c))
        }
        Expr::Index(b, idx) => {
            let (mut p, c) = path_spec(b, scopes, kinds)?;
            p.push(json!({"k":"e","e":expr::ref_js(idx, scopes)}));
            Some((p, c))
        }
        Expr::Cond(c, t, f) => {
            let ts = path_spec(t, scopes, kinds);
            let fs = path_spec(f, scopes, kinds);
            if ts.is_none() && fs.is_none() {
                return None;
            }
            let complete = ts.as_ref().map(|x| x.1).unwrap_or(false) && fs.as_ref().map(|x| x.1).unwrap_or(false);
            Some((
                vec![json!({"k":"cond","e":expr::ref_js(c, scopes),"t":ts.map(|x| Value::Array(x.0)),"f":fs.map(|x| Value::Array(x.0))})],
                complete,
            ))
        }
        _ => None,
    }
}

struct Jb<'a> {
    kinds: Vec<ScopeKind>,
    counter: usize,
    info: BTreeMap<String, NodeInfo>,
    file: &'a str,
    /// hook computing known-finding tags for an expression in context
    tagger: &'a dyn Fn(&Expr, &[String]) -> Vec<String>,
}

fn val_json(v: &Val, scopes: &[String]) -> Value {
    match v {
        Val::Static(s) => json!({ "s": s }),
        Val::Bind(e) => json!({ "e": expr::ref_js(e, scopes) }),
        Val::Mixed(ps) => json!({ "cat": pieces_json(ps, scopes) }),
    }
}

fn pieces_json(ps: &[Piece], scopes: &[String]) -> Vec<Value> {
    ps.iter()
        .map(|p| match p {
            Piece::Lit(s) => json!({ "lit": s }),
            Piece::Bind(e) => json!({ "e": expr::ref_js(e, scopes) }),
        })
        .collect()
}

impl<'a> Jb<'a> {
    fn id(&mut self, kind: &str) -> String {
        let id = format!("n{}", self.counter);
        self.counter += 1;
        self.info.insert(id.clone(), NodeInfo { kind: kind.to_string(), ..Default::default() });
        id
    }

    fn note(&mut self, id: &str, key: String, v: Option<&Val>, scopes: &[String]) {
        let shape = v.map(|v| v.shape()).unwrap_or_else(|| "valueless".into());
        let mut tags = vec![];
        if let Some(v) = v {
            for e in v.exprs() {
                tags.extend((self.tagger)(e, scopes));
            }
        }
        let info = self.info.get_mut(id).unwrap();
        info.attrs.insert(key.clone(), shape);
        if !tags.is_empty() {
            info.tags.insert(key, tags);
        }
    }

    fn attrs(&mut self, id: &str, attrs: &[Attr], on_slot: bool, scopes: &[String], generics: &mut Map<String, Value>) -> Vec<Value> {
        let mut out = vec![];
        for a in attrs {
            let (ch, name) = a.channel(on_slot);
            if ch == "g" {
                let v = match &a.val {
                    Some(Val::Static(s)) => s.clone(),
                    _ => String::new(),
                };
                generics.insert(name, Value::String(v));
                continue;
            }
            // valueless defaults per family
            let valj = match (&a.val, a.kind) {
                (Some(v), _) => val_json(v, scopes),
                (None, AttrKind::Event(_)) => json!({ "s": "" }),
                (None, AttrKind::Worklet) | (None, AttrKind::ExtraAttr) => json!({ "s": "" }),
                (None, AttrKind::Plain) if on_slot => json!({ "s": "" }),
                (None, _) => json!({ "v": true }),
            };
            if a.kind == AttrKind::Change && !a.val.as_ref().map(|v| v.is_dynamic()).unwrap_or(false) {
                // static / valueless change: bindings are not emitted at all
                continue;
            }
            let mut o = Map::new();
            o.insert("ch".into(), json!(ch));
            o.insert("name".into(), json!(name));
            o.insert("val".into(), valj);
            if let AttrKind::Event(k) = a.kind {
                let (f, m, c) = k.flags();
                o.insert("final".into(), json!(f));
                o.insert("mutated".into(), json!(m));
                o.insert("capture".into(), json!(c));
                o.insert("dyn".into(), json!(a.val.as_ref().map(|v| v.is_dynamic()).unwrap_or(false)));
            }
            if let Some(Val::Bind(e)) = &a.val {
                if let Some((spec, complete)) = path_spec(e, scopes, &self.kinds) {
                    o.insert("lv".into(), Value::Array(spec));
                    o.insert("lvc".into(), json!(complete && a.kind == AttrKind::Model));
                }
            }
            self.note(id, format!("{}:{}", ch, name), a.val.as_ref(), scopes);
            out.push(Value::Object(o));
        }
        out
    }

    fn nodes(&mut self, nodes: &[Node], scopes: &mut Vec<String>) -> Vec<Value> {
        nodes.iter().map(|n| self.node(n, scopes)).collect()
    }

    fn slot_refs_json(refs: &[SlotRef]) -> Vec<Value> {
        refs.iter().map(|r| json!({"name": dash_to_camel_ref(&r.name), "alias": r.scope_name()})).collect()
    }

    fn node(&mut self, n: &Node, scopes: &mut Vec<String>) -> Value {
        match n {
            Node::Text(ps) => {
                let id = self.id("text");
                let v = Val::Mixed(ps.clone()).normalise();
                self.note(&id, "text:".into(), Some(&v), scopes);
                json!({"k":"text","id":id,"pieces":pieces_json(ps, scopes)})
            }
            Node::Comment(_) => json!({"k":"comment"}),
            Node::El(e) => {
                let id = self.id("el");
                let d = scopes.len();
                for r in &e.slot_refs {
                    scopes.push(r.scope_name());
                    self.kinds.push(ScopeKind::Other);
                }
                let mut generics = Map::new();
                let attrs = self.attrs(&id, &e.attrs, false, scopes, &mut generics);
                let slot = e.slot.as_ref().map(|v| val_json(v, scopes));
                if let Some(v) = &e.slot {
                    self.note(&id, "slot:".into(), Some(v), scopes);
                }
                let kids = self.nodes(&e.kids, scopes);
                scopes.truncate(d);
                self.kinds.truncate(d);
                json!({"k":"el","id":id,"tag":e.tag,"generics":generics,"attrs":attrs,"slot":slot,"slotRefs":Self::slot_refs_json(&e.slot_refs),"kids":kids})
            }
            Node::If(brs) => {
                let id = self.id("if");
                let mut out = vec![];
                for (i, b) in brs.iter().enumerate() {
                    if let Some(c) = &b.cond {
                        self.note(&id, format!("cond:{}", i), Some(c), scopes);
                    }
                    let kids = self.nodes(&b.kids, scopes);
                    out.push(json!({"cond": b.cond.as_ref().map(|c| val_json(c, scopes)), "kids": kids}));
                }
                json!({"k":"if","id":id,"branches":out})
            }
            Node::For(f) => {
                let id = self.id("for");
                self.note(&id, "list:".into(), Some(&f.list), scopes);
                let list = val_json(&f.list, scopes);
                let lp = match &f.list {
                    Val::Bind(e) => path_spec(e, scopes, &self.kinds),
                    _ => None,
                };
                let d = scopes.len();
                scopes.push(f.item.clone().unwrap_or_else(|| "item".into()));
                scopes.push(f.index.clone().unwrap_or_else(|| "index".into()));
                self.kinds.push(match &lp {
                    Some((_, c)) => ScopeKind::Item { complete: *c },
                    None => ScopeKind::Other,
                });
                self.kinds.push(ScopeKind::Other);
                let kids = self.nodes(&f.kids, scopes);
                scopes.truncate(d);
                self.kinds.truncate(d);
                json!({"k":"for","id":id,"list":list,"listPath":lp.map(|x| Value::Array(x.0)),"kids":kids})
            }
            Node::Block(b) => {
                let id = self.id("block");
                let d = scopes.len();
                for r in &b.slot_refs {
                    scopes.push(r.scope_name());
                    self.kinds.push(ScopeKind::Other);
                }
                let slot = b.slot.as_ref().map(|v| val_json(v, scopes));
                if let Some(v) = &b.slot {
                    self.note(&id, "slot:".into(), Some(v), scopes);
                }
                let kids = self.nodes(&b.kids, scopes);
                scopes.truncate(d);
                self.kinds.truncate(d);
                json!({"k":"block","id":id,"slot":slot,"slotRefs":Self::slot_refs_json(&b.slot_refs),"kids":kids})
            }
            Node::Tis(t) => {
                let id = self.id("tis");
                self.note(&id, "is:".into(), Some(&t.is), scopes);
                let data = t.data.as_ref().map(|items| {
                    let e = Expr::Obj(items.clone());
                    let v = Val::Bind(e.clone());
                    self.note(&id, "tdata:".into(), Some(&v), scopes);
                    expr::ref_js(&e, scopes)
                });
                let data = match (&data, &t.data_expr) {
                    (None, Some(e)) => {
                        self.note(&id, "tdata:".into(), Some(&Val::Bind(e.clone())), scopes);
                        Some(expr::ref_js(e, scopes))
                    }
                    _ => data,
                };
                json!({"k":"tis","id":id,"is":val_json(&t.is, scopes),"data":data})
            }
            Node::Include(src) => {
                let id = self.id("include");
                json!({"k":"include","id":id,"path":pathres::resolve_ref(self.file, strip_suffix(src, ".wxml"))})
            }
            Node::Slot(s) => {
                let id = self.id("slot");
                let d = scopes.len();
                for r in &s.slot_refs {
                    scopes.push(r.scope_name());
                    self.kinds.push(ScopeKind::Other);
                }
                let mut generics = Map::new();
                let attrs = self.attrs(&id, &s.attrs, true, scopes, &mut generics);
                let name = s.name.as_ref().map(|v| val_json(v, scopes));
                if let Some(v) = &s.name {
                    self.note(&id, "slotname:".into(), Some(v), scopes);
                }
                let slot = s.slot.as_ref().map(|v| val_json(v, scopes));
                scopes.truncate(d);
                self.kinds.truncate(d);
                json!({"k":"slot","id":id,"name":name,"attrs":attrs,"slot":slot,"slotRefs":Self::slot_refs_json(&s.slot_refs)})
            }
        }
    }
}

pub fn strip_suffix<'s>(s: &'s str, suffix: &str) -> &'s str {
    s.strip_suffix(suffix).unwrap_or(s)
}

pub fn no_tags(_: &Expr, _: &[String]) -> Vec<String> {
    vec![]
}

pub fn group_json(g: &Group, tagger: &dyn Fn(&Expr, &[String]) -> Vec<String>) -> (Value, BTreeMap<String, BTreeMap<String, NodeInfo>>) {
    let mut files = Map::new();
    let mut infos = BTreeMap::new();
    for t in &g.files {
        let mut jb = Jb { kinds: vec![], counter: 0, info: BTreeMap::new(), file: &t.path, tagger };
        let mods: Vec<String> = t.wxs.iter().map(|w| w.module().to_string()).collect();
        let mut named = Map::new();
        for (name, body) in &t.named {
            let mut scopes = mods.clone();
            jb.kinds = mods.iter().map(|_| ScopeKind::Module).collect();
            named.insert(name.clone(), Value::Array(jb.nodes(body, &mut scopes)));
        }
        let mut scopes = mods.clone();
        jb.kinds = mods.iter().map(|_| ScopeKind::Module).collect();
        let body = jb.nodes(&t.body, &mut scopes);
        let wxs: Vec<Value> = t
            .wxs
            .iter()
            .map(|w| match w {
                Wxs::Inline { module, js } => json!({"kind":"inline","name":module,"js":js,"lpath":[2, t.path, module]}),
                Wxs::Ref { module, src } => {
                    let abs = pathres::resolve_ref(&t.path, strip_suffix(src, ".wxs"));
                    json!({"kind":"ref","name":module,"path":abs,"lpath":[1, abs]})
                }
            })
            .collect();
        let imports: Vec<String> = t.imports.iter().map(|i| pathres::resolve_ref(&t.path, strip_suffix(i, ".wxml"))).collect();
        files.insert(t.path.clone(), json!({"imports":imports,"wxs":wxs,"named":named,"body":body}));
        infos.insert(t.path.clone(), jb.info);
    }
    let mut scripts = Map::new();
    for s in &g.scripts {
        let mut req = Map::new();
        for r in &s.requires {
            req.insert(r.clone(), json!(pathres::resolve_ref(&s.path, r)));
        }
        scripts.insert(s.path.clone(), json!({"js": s.js, "requires": req}));
    }
    (json!({"files": files, "scripts": scripts}), infos)
}
