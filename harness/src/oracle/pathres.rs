//! Reference path resolver written from the property statement (C13), independent of `path.rs`:
//! resolve against the directory of the referrer (or the root when `rel` starts with `/`), drop `.` segments,
//! pop on `..` but never above the root. Empty segments are dropped (the statement is silent; the repository's own
//! WXS `require` drops them) — checks that compare against the code under test treat empty-segment cases leniently.

pub fn resolve_ref(base: &str, rel: &str) -> String {
    let mut stack: Vec<&str> = vec![];
    let rel_body = if let Some(r) = rel.strip_prefix('/') {
        r
    } else {
        let mut dir: Vec<&str> = vec![];
        for seg in base.split('/') {
            push_seg(&mut dir, seg);
        }
        dir.pop(); // file name of the referrer
        stack = dir;
        rel
    };
    for seg in rel_body.split('/') {
        push_seg(&mut stack, seg);
    }
    stack.join("/")
}

fn push_seg<'a>(stack: &mut Vec<&'a str>, seg: &'a str) {
    match seg {
        "" | "." => {}
        ".." => {
            stack.pop();
        }
        s => stack.push(s),
    }
}

pub fn normalize_ref(path: &str) -> String {
    let mut stack: Vec<&str> = vec![];
    for seg in path.split('/') {
        push_seg(&mut stack, seg);
    }
    stack.join("/")
}

pub fn has_empty_segment(p: &str) -> bool {
    let body = p.strip_prefix('/').unwrap_or(p);
    body.is_empty() || body.split('/').any(|s| s.is_empty())
}
