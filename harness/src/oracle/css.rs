//! CSS re-tokenisation (trusted base: cssparser's tokenizer) and the alignment of an output token stream with the
//! model's expected token stream.

use crate::model::css::{Bracket, Item, Slot, Tok, TokKind};
use cssparser::{Parser, ParserInput, Token};

#[derive(Clone, Debug, PartialEq)]
pub enum OKind {
    Ident(String),
    AtKeyword(String),
    Hash(String),
    Str(String),
    Url(String),
    Delim(char),
    /// raw spelling of the numeric part (sign, digits, fraction, exponent)
    Number(String),
    Percentage(String),
    Dimension(String, String),
    Colon,
    Semicolon,
    Comma,
    Match(String),
    Open(Bracket),
    Close(Bracket),
    Other(String),
}

#[derive(Clone, Debug)]
pub struct OTok {
    pub kind: OKind,
    pub ws_before: bool,
    /// comments seen since the previous token
    pub comments_before: Vec<String>,
    pub start: usize,
    pub end: usize,
    pub line: u32,
    /// UTF-16 column
    pub col: u32,
}

fn numeric_prefix(raw: &str) -> usize {
    // length of the CSS number at the start of `raw`
    let b = raw.as_bytes();
    let mut i = 0;
    if i < b.len() && (b[i] == b'+' || b[i] == b'-') {
        i += 1;
    }
    while i < b.len() && b[i].is_ascii_digit() {
        i += 1;
    }
    if i + 1 < b.len() && b[i] == b'.' && b[i + 1].is_ascii_digit() {
        i += 1;
        while i < b.len() && b[i].is_ascii_digit() {
            i += 1;
        }
    }
    if i < b.len() && (b[i] == b'e' || b[i] == b'E') {
        let mut j = i + 1;
        if j < b.len() && (b[j] == b'+' || b[j] == b'-') {
            j += 1;
        }
        if j < b.len() && b[j].is_ascii_digit() {
            while j < b.len() && b[j].is_ascii_digit() {
                j += 1;
            }
            i = j;
        }
    }
    i
}

fn walk<'i, 't>(p: &mut Parser<'i, 't>, src: &str, out: &mut Vec<OTok>, ws: &mut bool, comments: &mut Vec<String>) {
    loop {
        let start = p.position();
        let loc = p.current_source_location();
        let tok = match p.next_including_whitespace_and_comments() {
            Ok(t) => t.clone(),
            Err(_) => break,
        };
        let end = p.position();
        let raw = p.slice(start..end).to_string();
        let start_b = start.byte_index();
        let end_b = end.byte_index();
        let mut push = |kind: OKind, out: &mut Vec<OTok>, ws: &mut bool, comments: &mut Vec<String>| {
            out.push(OTok { kind, ws_before: *ws, comments_before: std::mem::take(comments), start: start_b, end: end_b, line: loc.line, col: loc.column - 1 });
            *ws = false;
        };
        let _ = src;
        match tok {
            Token::WhiteSpace(_) => {
                *ws = true;
            }
            Token::Comment(c) => comments.push(c.to_string()),
            Token::Ident(v) => push(OKind::Ident(v.to_string()), out, ws, comments),
            Token::AtKeyword(v) => push(OKind::AtKeyword(v.to_string()), out, ws, comments),
            Token::Hash(v) | Token::IDHash(v) => push(OKind::Hash(v.to_string()), out, ws, comments),
            Token::QuotedString(v) => push(OKind::Str(v.to_string()), out, ws, comments),
            Token::UnquotedUrl(v) => push(OKind::Url(v.to_string()), out, ws, comments),
            Token::Delim(c) => push(OKind::Delim(c), out, ws, comments),
            Token::Number { .. } => push(OKind::Number(raw.clone()), out, ws, comments),
            Token::Percentage { .. } => push(OKind::Percentage(raw.trim_end_matches('%').to_string()), out, ws, comments),
            Token::Dimension { unit, .. } => {
                let n = numeric_prefix(&raw);
                push(OKind::Dimension(raw[..n].to_string(), unit.to_string()), out, ws, comments)
            }
            Token::Colon => push(OKind::Colon, out, ws, comments),
            Token::Semicolon => push(OKind::Semicolon, out, ws, comments),
            Token::Comma => push(OKind::Comma, out, ws, comments),
            Token::IncludeMatch => push(OKind::Match("~=".into()), out, ws, comments),
            Token::DashMatch => push(OKind::Match("|=".into()), out, ws, comments),
            Token::PrefixMatch => push(OKind::Match("^=".into()), out, ws, comments),
            Token::SuffixMatch => push(OKind::Match("$=".into()), out, ws, comments),
            Token::SubstringMatch => push(OKind::Match("*=".into()), out, ws, comments),
            Token::Function(name) => {
                let b = Bracket::Func(name.to_string());
                push(OKind::Open(b.clone()), out, ws, comments);
                nested(p, src, out, ws, comments, b);
            }
            Token::ParenthesisBlock => {
                push(OKind::Open(Bracket::Paren), out, ws, comments);
                nested(p, src, out, ws, comments, Bracket::Paren);
            }
            Token::SquareBracketBlock => {
                push(OKind::Open(Bracket::Square), out, ws, comments);
                nested(p, src, out, ws, comments, Bracket::Square);
            }
            Token::CurlyBracketBlock => {
                push(OKind::Open(Bracket::Curly), out, ws, comments);
                nested(p, src, out, ws, comments, Bracket::Curly);
            }
            other => push(OKind::Other(format!("{:?}", other)), out, ws, comments),
        }
    }
}

fn nested<'i, 't>(p: &mut Parser<'i, 't>, src: &str, out: &mut Vec<OTok>, ws: &mut bool, comments: &mut Vec<String>, b: Bracket) {
    let _ = p.parse_nested_block::<_, (), ()>(|inner| {
        walk(inner, src, out, ws, comments);
        Ok(())
    });
    let loc = p.current_source_location();
    let end = p.position().byte_index();
    // the closing bracket is the byte before the current position when the block was closed in the source
    let closed = end > 0 && matches!(src.as_bytes()[end - 1], b')' | b']' | b'}');
    out.push(OTok {
        kind: OKind::Close(b),
        ws_before: *ws,
        comments_before: std::mem::take(comments),
        start: if closed { end - 1 } else { end },
        end,
        line: loc.line,
        col: (loc.column - 1).saturating_sub(if closed { 1 } else { 0 }),
    });
    *ws = false;
}

pub fn tokenize(src: &str) -> Vec<OTok> {
    tokenize_full(src).0
}

/// tokens plus the comments that follow the last token
pub fn tokenize_full(src: &str) -> (Vec<OTok>, Vec<String>) {
    let mut input = ParserInput::new(src);
    let mut parser = Parser::new(&mut input);
    let mut out = vec![];
    let mut ws = false;
    let mut comments = vec![];
    walk(&mut parser, src, &mut out, &mut ws, &mut comments);
    (out, comments)
}

/// exact decimal value of a CSS number spelling as f64 (our own scanner; not cssparser's f32)
pub fn number_value(s: &str) -> Option<f64> {
    if numeric_prefix(s) != s.len() || s.is_empty() {
        return None;
    }
    s.trim_start_matches('+').parse::<f64>().ok()
}

pub fn is_integer_spelling(s: &str) -> bool {
    let t = s.trim_start_matches(|c| c == '+' || c == '-');
    !t.is_empty() && t.chars().all(|c| c.is_ascii_digit())
}

/// what the model's token must look like in the *input* tokenisation (generator self-check)
pub fn same_as_model(o: &OKind, m: &TokKind) -> bool {
    match (o, m) {
        (OKind::Ident(a), TokKind::Ident(b)) => a == b,
        (OKind::AtKeyword(a), TokKind::AtKeyword(b)) => a == b,
        (OKind::Hash(a), TokKind::Hash(b)) => a == b,
        (OKind::Str(a), TokKind::Str(b)) => a == b,
        (OKind::Url(a), TokKind::Url(b)) => a == b,
        (OKind::Delim(a), TokKind::Delim(b)) => a == b,
        (OKind::Number(a), TokKind::Number(b)) => a == b,
        (OKind::Percentage(a), TokKind::Percentage(b)) => a == b,
        (OKind::Dimension(a, u), TokKind::Dimension(b, v)) => a == b && u == v,
        (OKind::Colon, TokKind::Colon) | (OKind::Semicolon, TokKind::Semicolon) | (OKind::Comma, TokKind::Comma) => true,
        (OKind::Match(a), TokKind::Match(b)) => a == b,
        (OKind::Open(a), TokKind::Open(b)) | (OKind::Close(a), TokKind::Close(b)) => a == b,
        _ => false,
    }
}

/// a unicode-range spelling denotes (start, end)
pub fn unicode_range_value(s: &str) -> Option<(u32, u32)> {
    let t = s.strip_prefix("U+").or_else(|| s.strip_prefix("u+"))?;
    if let Some((a, b)) = t.split_once('-') {
        let x = u32::from_str_radix(a, 16).ok()?;
        let y = u32::from_str_radix(b, 16).ok()?;
        Some((x, y))
    } else if t.contains('?') {
        let lo = t.replace('?', "0");
        let hi = t.replace('?', "F");
        Some((u32::from_str_radix(&lo, 16).ok()?, u32::from_str_radix(&hi, 16).ok()?))
    } else {
        let x = u32::from_str_radix(t, 16).ok()?;
        Some((x, x))
    }
}

pub fn model_tokens(items: &[Item]) -> Vec<(Tok, Slot)> {
    // each token with the slot that precedes it
    let mut out = vec![];
    let mut slot = Slot::Opt;
    for it in items {
        match it {
            Item::S(s) => slot = s.clone(),
            Item::T(t) => {
                out.push((t.clone(), slot.clone()));
                slot = Slot::Tight;
            }
        }
    }
    out
}
