pub mod pathres;
