pub mod css;
pub mod pathres;
