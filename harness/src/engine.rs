//! Sharded generated-input search: proptest strategies drive generation and shrinking, the check supplies the oracle.

use crate::findings::{Finding, Findings};
use crate::jsworker::Worker;
use crate::util::{fnv64, mix};
use proptest::strategy::{BoxedStrategy, Strategy, ValueTree};
use proptest::test_runner::{Config, RngAlgorithm, TestRng, TestRunner};
use serde_json::{json, Value};
use std::collections::{BTreeMap, BTreeSet, HashSet};
use std::sync::Mutex;
use std::time::Instant;

#[derive(Clone, Copy, Debug, PartialEq, Eq)]
pub enum Tier {
    Quick,
    Thorough,
}

impl Tier {
    pub fn name(self) -> &'static str {
        match self {
            Tier::Quick => "quick",
            Tier::Thorough => "thorough",
        }
    }
    pub fn pick<T>(self, q: T, t: T) -> T {
        match self {
            Tier::Quick => q,
            Tier::Thorough => t,
        }
    }
}

#[derive(Clone, Debug)]
pub struct RunCfg {
    pub prop: &'static str,
    pub tier: Tier,
    pub seed: u64,
}

/// One oracle disagreement. `tag`: narrow known-finding tag computed by the check (None = nothing the check knows about).
#[derive(Clone, Debug)]
pub struct Failure {
    pub sig: String,
    pub tag: Option<String>,
    pub what: String,
    pub detail: Value,
}

#[derive(Clone, Debug, Default)]
pub struct Outcome {
    /// hashes of the distinct non-trivial units (cases, expressions, tokens ...) this case contributed
    pub nt: Vec<u64>,
    pub labels: Vec<String>,
    pub failures: Vec<Failure>,
    pub excluded: u64,
    pub sample: Option<Value>,
    pub units: u64,
}

pub trait PropCheck: Sync {
    type Case: Clone + std::fmt::Debug + Send + 'static;
    fn strategy(&self) -> BoxedStrategy<Self::Case>;
    fn needs_worker(&self) -> bool {
        true
    }
    /// evaluate a batch; must be a pure function of the cases
    fn eval(&self, w: Option<&mut Worker>, cases: &[Self::Case]) -> Result<Vec<Outcome>, String>;
    /// evaluation used while shrinking (a check may use cheaper confirmation there)
    fn eval_shrink(&self, w: Option<&mut Worker>, case: &Self::Case) -> Result<Outcome, String> {
        self.eval(w, std::slice::from_ref(case)).map(|mut o| o.pop().unwrap_or_default())
    }
    fn max_shrink_evals(&self) -> u64 {
        600
    }
    /// a shard stops generating once it has recorded a violation (checks whose failures are expensive to observe —
    /// a hang costs its whole CPU budget, three times — would otherwise spend hours on a tree that hangs often)
    fn stop_shard_after_violation(&self) -> bool {
        false
    }
    fn case_json(&self, case: &Self::Case) -> Value;
    fn case_from_json(&self, v: &Value) -> Result<Self::Case, String>;
    /// does a saved case (the `case` object of a replay / regress file) belong to this check? (properties with several
    /// stages keep one case type per stage)
    fn owns_case(&self, _v: &Value) -> bool {
        true
    }
}

#[derive(Clone, Debug)]
pub struct Violation {
    pub sig: String,
    pub what: String,
    pub replay: Value,
}

#[derive(Debug, Default)]
pub struct Report {
    pub evaluations: u64,
    pub units: u64,
    pub nontrivial: HashSet<u64>,
    pub labels: BTreeMap<String, u64>,
    pub samples: Vec<Value>,
    pub violations: Vec<Violation>,
    pub known_hits: BTreeMap<String, (u64, String)>,
    pub excluded: u64,
    pub shrink_evals: u64,
    pub errors: Vec<String>,
    pub extra: BTreeMap<String, Value>,
}

impl Report {
    pub fn merge(&mut self, o: Report) {
        self.evaluations += o.evaluations;
        self.units += o.units;
        self.nontrivial.extend(o.nontrivial);
        for (k, v) in o.labels {
            *self.labels.entry(k).or_default() += v;
        }
        for s in o.samples {
            if self.samples.len() < 6 {
                self.samples.push(s);
            }
        }
        for v in o.violations {
            if !self.violations.iter().any(|x| x.sig == v.sig) {
                self.violations.push(v);
            }
        }
        for (k, (n, ex)) in o.known_hits {
            let e = self.known_hits.entry(k).or_insert((0, ex));
            e.0 += n;
        }
        self.excluded += o.excluded;
        self.shrink_evals += o.shrink_evals;
        self.errors.extend(o.errors);
        for (k, v) in o.extra {
            self.extra.insert(k, v);
        }
    }
}

/// a panic of the harness itself becomes a machinery error (exit 2), never a silent death and never a violation
pub fn safe_eval<C: PropCheck>(check: &C, w: Option<&mut Worker>, cases: &[C::Case]) -> Result<Vec<Outcome>, String> {
    std::panic::catch_unwind(std::panic::AssertUnwindSafe(|| check.eval(w, cases))).unwrap_or_else(|e| Err(format!("harness panic: {}", crate::compile::panic_message(e))))
}

pub fn make_runner(seed: u64, prop_no: u64, shard: u64) -> TestRunner {
    let s = mix(seed, prop_no, shard);
    let mut bytes = [0u8; 32];
    for i in 0..4 {
        let x = crate::util::splitmix64(s.wrapping_add(i as u64));
        bytes[i * 8..i * 8 + 8].copy_from_slice(&x.to_le_bytes());
    }
    let rng = TestRng::from_seed(RngAlgorithm::ChaCha, &bytes);
    let cfg = Config { failure_persistence: None, ..Config::default() };
    TestRunner::new_with_rng(cfg, rng)
}

fn split_failures(out: &Outcome, known: &BTreeMap<String, Finding>) -> (Vec<Failure>, Vec<(String, String)>) {
    let mut unknown = vec![];
    let mut hits = vec![];
    for f in &out.failures {
        match &f.tag {
            Some(t) if known.contains_key(t) => hits.push((t.clone(), f.what.clone())),
            _ => unknown.push(f.clone()),
        }
    }
    (unknown, hits)
}

pub fn prop_no(prop: &str) -> u64 {
    prop.trim_start_matches('C').parse().unwrap_or(0)
}

/// Run `cases` generated cases over `shards` threads.
pub fn run_generated<C: PropCheck>(check: &C, cfg: &RunCfg, cases: u64, batch: usize, shards: usize, findings: &Findings, stream: u64) -> Report {
    let known = findings.for_property(cfg.prop);
    let total = Mutex::new(Report::default());
    // development aid: GEV_CASES overrides the number of generated cases (never set by registered commands)
    let cases = std::env::var("GEV_CASES").ok().and_then(|s| s.parse::<u64>().ok()).unwrap_or(cases);
    let per = (cases + shards as u64 - 1) / shards as u64;
    std::thread::scope(|sc| {
        for shard in 0..shards {
            let known = &known;
            let total = &total;
            sc.spawn(move || {
                let mut rep = Report::default();
                let mut runner = make_runner(cfg.seed, prop_no(cfg.prop) * 1000 + stream, shard as u64);
                let strat = check.strategy();
                let mut worker = if check.needs_worker() {
                    match Worker::spawn() {
                        Ok(w) => Some(w),
                        Err(e) => {
                            rep.errors.push(format!("worker: {}", e.0));
                            total.lock().unwrap().merge(rep);
                            return;
                        }
                    }
                } else {
                    None
                };
                let mut done = 0u64;
                let mut shrunk_sigs: BTreeSet<String> = BTreeSet::new();
                while done < per {
                    let n = batch.min((per - done) as usize);
                    let mut trees = Vec::with_capacity(n);
                    for _ in 0..n {
                        match strat.new_tree(&mut runner) {
                            Ok(t) => trees.push(t),
                            Err(e) => {
                                rep.errors.push(format!("generator rejected: {}", e));
                            }
                        }
                    }
                    if trees.is_empty() {
                        break;
                    }
                    let vals: Vec<C::Case> = trees.iter().map(|t| t.current()).collect();
                    let outs = match safe_eval(check, worker.as_mut(), &vals) {
                        Ok(o) => o,
                        Err(e) => {
                            // find the case in flight: re-run the batch one by one on fresh workers and keep the culprit
                            let mut culprit = None;
                            for v in &vals {
                                let mut w2 = if check.needs_worker() { Worker::spawn().ok() } else { None };
                                if safe_eval(check, w2.as_mut(), std::slice::from_ref(v)).is_err() {
                                    culprit = Some(check.case_json(v));
                                    break;
                                }
                            }
                            let where_ = match culprit {
                                Some(c) => {
                                    let path = format!("{}/replays/{}-machinery-{:016x}.json", crate::jsworker::verif_root(), cfg.prop, fnv64(c.to_string().as_bytes()));
                                    let _ = std::fs::create_dir_all(format!("{}/replays", crate::jsworker::verif_root()));
                                    let _ = std::fs::write(&path, serde_json::to_string_pretty(&json!({"property": cfg.prop, "machinery_error": e, "case": c})).unwrap());
                                    format!(" (case saved to {})", path)
                                }
                                None => " (not reproducible case by case)".to_string(),
                            };
                            rep.errors.push(format!("{}{}", e, where_));
                            break;
                        }
                    };
                    done += vals.len() as u64;
                    for (i, out) in outs.iter().enumerate() {
                        rep.evaluations += 1;
                        rep.units += out.units;
                        rep.excluded += out.excluded;
                        rep.nontrivial.extend(out.nt.iter().copied());
                        for l in &out.labels {
                            *rep.labels.entry(l.clone()).or_default() += 1;
                        }
                        if rep.samples.len() < 2 && !out.nt.is_empty() {
                            if let Some(s) = &out.sample {
                                rep.samples.push(s.clone());
                            }
                        }
                        let (unknown, hits) = split_failures(out, known);
                        for (t, w) in hits {
                            let e = rep.known_hits.entry(t).or_insert((0, w));
                            e.0 += 1;
                        }
                        if let Some(first) = unknown.first() {
                            if rep.violations.len() >= 3 || shrunk_sigs.contains(&first.sig) {
                                continue;
                            }
                            // shrink this case: "still has a failure that is not a listed finding"
                            let tree = &mut trees[i];
                            let mut best_case = vals[i].clone();
                            let mut best_fail = first.clone();
                            let mut evals = 0u64;
                            if tree.simplify() {
                                loop {
                                    if evals >= check.max_shrink_evals() {
                                        break;
                                    }
                                    let cur = tree.current();
                                    evals += 1;
                                    let o = match check.eval_shrink(worker.as_mut(), &cur) {
                                        Ok(o) => o,
                                        Err(e) => {
                                            rep.errors.push(format!("during shrink: {}", e));
                                            break;
                                        }
                                    };
                                    let (unk, _) = split_failures(&o, known);
                                    if let Some(f) = unk.into_iter().next() {
                                        best_case = cur;
                                        best_fail = f;
                                        if !tree.simplify() {
                                            break;
                                        }
                                    } else if !tree.complicate() {
                                        break;
                                    }
                                }
                            }
                            rep.shrink_evals += evals;
                            shrunk_sigs.insert(first.sig.clone());
                            shrunk_sigs.insert(best_fail.sig.clone());
                            if !rep.violations.iter().any(|v| v.sig == best_fail.sig) {
                                rep.violations.push(Violation {
                                    sig: best_fail.sig.clone(),
                                    what: best_fail.what.clone(),
                                    replay: json!({
                                        "property": cfg.prop,
                                        "tier": cfg.tier.name(),
                                        "seed": cfg.seed,
                                        "shard": shard,
                                        "sig": best_fail.sig,
                                        "what": best_fail.what,
                                        "detail": best_fail.detail,
                                        "case": check.case_json(&best_case),
                                    }),
                                });
                            }
                        }
                    }
                    if !rep.errors.is_empty() {
                        break;
                    }
                    if check.stop_shard_after_violation() && !rep.violations.is_empty() {
                        *rep.labels.entry("shard-stopped-after-violation".into()).or_default() += 1;
                        break;
                    }
                }
                total.lock().unwrap().merge(rep);
            });
        }
    });
    total.into_inner().unwrap()
}

/// Evaluate explicit cases (enumerators, regress replays). No shrinking: enumerated cases are already minimal units.
pub fn run_explicit<C: PropCheck>(check: &C, cfg: &RunCfg, cases: Vec<C::Case>, batch: usize, shards: usize, findings: &Findings) -> Report {
    let known = findings.for_property(cfg.prop);
    let total = Mutex::new(Report::default());
    let chunks: Vec<Vec<C::Case>> = {
        let mut v: Vec<Vec<C::Case>> = (0..shards).map(|_| vec![]).collect();
        for (i, c) in cases.into_iter().enumerate() {
            v[i % shards].push(c);
        }
        v
    };
    std::thread::scope(|sc| {
        for (shard, chunk) in chunks.into_iter().enumerate() {
            let known = &known;
            let total = &total;
            sc.spawn(move || {
                let mut rep = Report::default();
                if chunk.is_empty() {
                    return;
                }
                let mut worker = if check.needs_worker() {
                    match Worker::spawn() {
                        Ok(w) => Some(w),
                        Err(e) => {
                            rep.errors.push(format!("worker: {}", e.0));
                            total.lock().unwrap().merge(rep);
                            return;
                        }
                    }
                } else {
                    None
                };
                for part in chunk.chunks(batch.max(1)) {
                    let outs = match safe_eval(check, worker.as_mut(), part) {
                        Ok(o) => o,
                        Err(e) => {
                            rep.errors.push(e);
                            break;
                        }
                    };
                    for (i, out) in outs.iter().enumerate() {
                        rep.evaluations += 1;
                        rep.units += out.units;
                        rep.excluded += out.excluded;
                        rep.nontrivial.extend(out.nt.iter().copied());
                        for l in &out.labels {
                            *rep.labels.entry(l.clone()).or_default() += 1;
                        }
                        if rep.samples.len() < 2 && !out.nt.is_empty() {
                            if let Some(s) = &out.sample {
                                rep.samples.push(s.clone());
                            }
                        }
                        let (unknown, hits) = split_failures(out, known);
                        for (t, w) in hits {
                            let e = rep.known_hits.entry(t).or_insert((0, w));
                            e.0 += 1;
                        }
                        for f in unknown {
                            if rep.violations.len() < 5 && !rep.violations.iter().any(|v| v.sig == f.sig) {
                                rep.violations.push(Violation {
                                    sig: f.sig.clone(),
                                    what: f.what.clone(),
                                    replay: json!({
                                        "property": cfg.prop, "tier": cfg.tier.name(), "seed": cfg.seed, "shard": shard,
                                        "sig": f.sig, "what": f.what, "detail": f.detail, "case": f.detail.get("replay_case").cloned().unwrap_or_else(|| check.case_json(&part[i])),
                                    }),
                                });
                            }
                        }
                    }
                }
                total.lock().unwrap().merge(rep);
            });
        }
    });
    total.into_inner().unwrap()
}

pub fn case_hash(v: &Value) -> u64 {
    fnv64(v.to_string().as_bytes())
}

// -------------------------------------------------------------------------------------------------
// finishing a check: regress replays, evidence, verdict lines, exit code

pub struct Finish {
    pub cfg: RunCfg,
    pub report: Report,
    pub rule: String,
    pub assumptions: Vec<String>,
    pub started: Instant,
    pub exhaustive: bool,
}

pub fn finish(f: Finish, findings: &Findings) -> i32 {
    let root = crate::jsworker::verif_root();
    let prop = f.cfg.prop;
    let mut rep = f.report;
    let mut exit = 0;
    if !rep.errors.is_empty() {
        for e in rep.errors.iter().take(5) {
            eprintln!("gev: machinery error: {}", e);
        }
        exit = 2;
    }
    let known = findings.for_property(prop);
    let mut confirmed = vec![];
    for (tag, fnd) in &known {
        if let Some((n, ex)) = rep.known_hits.get(tag) {
            println!("KNOWN-FINDING: property={} {} [{}] ({} generated cases hit it this run; e.g. {})", prop, fnd.what, fnd.id, n, crate::util::truncate(ex, 160));
            confirmed.push(json!({"id": fnd.id, "hits": n}));
        }
    }
    let _ = std::fs::create_dir_all(format!("{}/replays", root));
    let mut vio_count = 0;
    for v in rep.violations.iter() {
        let h = fnv64(v.replay.to_string().as_bytes());
        let path = format!("{}/replays/{}-{:016x}.json", root, prop, h);
        let _ = std::fs::write(&path, serde_json::to_string_pretty(&v.replay).unwrap());
        println!("VIOLATION property={} replay={}", prop, path);
        eprintln!("  sig: {}\n  what: {}", v.sig, crate::util::truncate(&v.what, 600));
        vio_count += 1;
        exit = if exit == 2 { 2 } else { 1 };
    }
    if vio_count > 0 && exit == 2 {
        exit = 1;
    }
    // evidence
    let mut labels = serde_json::Map::new();
    for (k, v) in &rep.labels {
        labels.insert(k.clone(), json!(v));
    }
    if rep.samples.is_empty() {
        rep.samples.push(json!("(no non-trivial sample captured)"));
    }
    let mut coverage = json!({
        "evaluations": rep.evaluations,
        "distinct_nontrivial": rep.nontrivial.len(),
        "rule": f.rule,
        "samples": rep.samples,
        "labels": labels,
        "compared_units": rep.units,
        "excluded_by_known_finding": rep.excluded,
        "known_findings_confirmed": confirmed,
        "shrink_evaluations": rep.shrink_evals,
        "exhaustive": f.exhaustive,
    });
    for (k, v) in &rep.extra {
        coverage[k.as_str()] = v.clone();
    }
    let ev = json!({
        "property_id": prop,
        "tier": f.cfg.tier.name(),
        "seed": f.cfg.seed,
        "level": "exploration",
        "coverage": coverage,
        "assumptions": f.assumptions,
        "wall_s": f.started.elapsed().as_secs_f64(),
        "violations": vio_count,
    });
    let _ = std::fs::create_dir_all(format!("{}/evidence", root));
    let path = format!("{}/evidence/{}.json", root, prop);
    if let Err(e) = std::fs::write(&path, serde_json::to_string_pretty(&ev).unwrap()) {
        eprintln!("gev: cannot write evidence: {}", e);
        exit = 2;
    }
    eprintln!(
        "gev: {} {} seed={} evaluations={} nontrivial={} units={} violations={} known_hits={:?} wall={:.1}s",
        prop,
        f.cfg.tier.name(),
        f.cfg.seed,
        rep.evaluations,
        rep.nontrivial.len(),
        rep.units,
        vio_count,
        rep.known_hits.iter().map(|(k, v)| (k.clone(), v.0)).collect::<Vec<_>>(),
        f.started.elapsed().as_secs_f64()
    );
    exit
}
