//! The gev harness as a library (the `gev` binary and the libFuzzer targets under /verif/fuzz use it).
#![allow(dead_code, unused_variables)]
pub mod checks;
pub mod compile;
pub mod engine;
pub mod findings;
pub mod gen;
pub mod isolate;
pub mod jsworker;
pub mod model;
pub mod oracle;
pub mod util;
