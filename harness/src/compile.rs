//! Compile a model group with the library built from /repo (path dependency) and collect artefacts.

use crate::model::wxml::{print_template, Group};
use glass_easel_template_compiler::parse::{ParseError, ParseErrorLevel};
use glass_easel_template_compiler::TmplGroup;
use std::panic::{catch_unwind, AssertUnwindSafe};

#[derive(Clone, Debug)]
pub struct Diag {
    pub path: String,
    pub level: u8,
    pub kind: String,
    pub start: (u32, u32),
    pub end: (u32, u32),
}

pub fn level_no(l: &ParseErrorLevel) -> u8 {
    match l {
        ParseErrorLevel::Note => 1,
        ParseErrorLevel::Warn => 2,
        ParseErrorLevel::Error => 3,
        ParseErrorLevel::Fatal => 4,
    }
}

pub fn diag_of(e: &ParseError) -> Diag {
    Diag {
        path: e.path.clone(),
        level: level_no(&e.kind.level()),
        kind: format!("{}", e.kind),
        start: (e.location.start.line, e.location.start.utf16_col),
        end: (e.location.end.line, e.location.end.utf16_col),
    }
}

#[derive(Clone, Debug, Default)]
pub struct Compiled {
    pub sources: Vec<(String, String)>,
    pub bundle: String,
    pub diags: Vec<Diag>,
}

pub fn install_quiet_panic_hook() {
    // panics of the code under test are caught and reported by the checks; GEV_PANIC=1 shows them (debugging aid)
    if std::env::var("GEV_PANIC").is_ok() {
        return;
    }
    std::panic::set_hook(Box::new(|_| {}));
}

pub fn panic_message(e: Box<dyn std::any::Any + Send>) -> String {
    if let Some(s) = e.downcast_ref::<&str>() {
        s.to_string()
    } else if let Some(s) = e.downcast_ref::<String>() {
        s.clone()
    } else {
        "<non-string panic>".into()
    }
}

pub fn print_group(g: &Group, style_seed: u64) -> Vec<(String, String)> {
    g.files.iter().enumerate().map(|(i, t)| (t.path.clone(), print_template(t, if style_seed == 0 { 0 } else { style_seed.wrapping_add(i as u64 * 7919) }))).collect()
}

pub fn compile_sources(sources: &[(String, String)], scripts: &[(String, String)], dev: bool) -> Result<(TmplGroup, Vec<Diag>), String> {
    catch_unwind(AssertUnwindSafe(|| {
        let mut group = if dev { TmplGroup::new_dev() } else { TmplGroup::new() };
        let mut diags = vec![];
        for (path, src) in sources {
            for e in group.add_tmpl(path, src) {
                diags.push(diag_of(&e));
            }
        }
        for (path, js) in scripts {
            group.add_script(path, js);
        }
        (group, diags)
    }))
    .map_err(panic_message)
}

pub fn compile_group(g: &Group, style_seed: u64) -> Result<Compiled, String> {
    let sources = print_group(g, style_seed);
    let scripts: Vec<(String, String)> = g.scripts.iter().map(|s| (s.path.clone(), s.js.clone())).collect();
    let (group, diags) = compile_sources(&sources, &scripts, false)?;
    let bundle = catch_unwind(AssertUnwindSafe(|| group.get_tmpl_gen_object_groups())).map_err(panic_message)?.map_err(|e| format!("TmplError: {}", e.message))?;
    Ok(Compiled { sources, bundle, diags })
}
