//! Known findings (read-only at run time). One JSON object per line in /verif/known_findings.jsonl:
//! {"status":"known","property":"C03","id":"C03-F1","tag":"<narrow signature tag>","what":"...","replay":"regress/...json"}
//! {"status":"fixed","property":"C01","commit":"<sha>","tag":"...","what":"..."}   (suppresses nothing)

use serde_json::Value;
use std::collections::BTreeMap;

#[derive(Clone, Debug)]
pub struct Finding {
    pub property: String,
    pub id: String,
    pub tag: String,
    pub what: String,
    pub replay: Option<String>,
}

#[derive(Clone, Debug, Default)]
pub struct Findings {
    pub known: Vec<Finding>,
    pub fixed: Vec<Value>,
}

impl Findings {
    pub fn load() -> Findings {
        let path = format!("{}/known_findings.jsonl", crate::jsworker::verif_root());
        let mut out = Findings::default();
        let Ok(text) = std::fs::read_to_string(&path) else { return out };
        for line in text.lines() {
            let line = line.trim();
            if line.is_empty() || line.starts_with('#') {
                continue;
            }
            let Ok(v) = serde_json::from_str::<Value>(line) else {
                eprintln!("gev: ignoring malformed known_findings line: {}", line);
                continue;
            };
            match v.get("status").and_then(|s| s.as_str()) {
                Some("known") => out.known.push(Finding {
                    property: v["property"].as_str().unwrap_or("").to_string(),
                    id: v["id"].as_str().unwrap_or("").to_string(),
                    tag: v["tag"].as_str().unwrap_or("").to_string(),
                    what: v["what"].as_str().unwrap_or("").to_string(),
                    replay: v.get("replay").and_then(|s| s.as_str()).map(|s| s.to_string()),
                }),
                Some("fixed") => out.fixed.push(v),
                _ => {}
            }
        }
        out
    }

    pub fn for_property(&self, prop: &str) -> BTreeMap<String, Finding> {
        self.known.iter().filter(|f| f.property == prop).map(|f| (f.tag.clone(), f.clone())).collect()
    }
}
