//! Isolation runner (engine I): a child `gev isolate-worker` process with RLIMIT_AS, a big-stack work thread and one
//! input in flight at a time, so that a panic, abort, stack overflow, runaway allocation or hang is attributed to the
//! input that caused it.

use serde_json::{json, Value};
use std::io::{BufRead, BufReader, Write};
use std::panic::{catch_unwind, AssertUnwindSafe};
use std::process::{Child, ChildStdin, Command, Stdio};
use std::sync::mpsc::{channel, Receiver, RecvTimeoutError};
use std::time::Duration;

pub const AS_LIMIT: u64 = 4 << 30;
pub const CPU_LIMIT_S: f64 = 20.0;
pub const STACK: usize = 1 << 30;

fn run_template(req: &Value) -> Value {
    use glass_easel_template_compiler::TmplGroup;
    let path = req["path"].as_str().unwrap_or("p");
    let text = req["text"].as_str().unwrap_or("");
    let mut g = if req["dev"].as_bool().unwrap_or(false) { TmplGroup::new_dev() } else { TmplGroup::new() };
    if let Some(x) = req["extra"].as_str() {
        g.set_extra_runtime_script(x);
    }
    if let Some(s) = req["script"].as_str() {
        g.add_script("lib/s", s);
    }
    let diags = g.add_tmpl(path, text);
    let mut total = 0usize;
    let mut max_level = 0u8;
    let mut bad_loc = Value::Null;
    let lines: Vec<&str> = text.split('\n').collect();
    for d in &diags {
        max_level = max_level.max(crate::compile::level_no(&d.kind.level()));
        let s = d.location.start;
        let e = d.location.end;
        let ok = |p: glass_easel_template_compiler::parse::Position| {
            (p.line as usize) < lines.len() && (p.utf16_col as usize) <= lines[p.line as usize].encode_utf16().count()
        };
        if !(s <= e && ok(s) && ok(e)) && bad_loc.is_null() {
            bad_loc = json!({"kind": format!("{}", d.kind), "start": [s.line, s.utf16_col], "end": [e.line, e.utf16_col], "lines": lines.len()});
        }
    }
    total += g.get_tmpl_gen_object(path).map(|s| s.len()).unwrap_or(0);
    total += g.get_tmpl_gen_object_groups().map(|s| s.len()).unwrap_or(0);
    total += g.get_wx_gen_object_groups().map(|s| s.len()).unwrap_or(0);
    total += g.get_runtime_string().len();
    total += g.export_globals().map(|s| s.len()).unwrap_or(0);
    total += g.export_all_scripts().map(|s| s.len()).unwrap_or(0);
    total += g.stringify_tmpl(path).map(|s| s.len()).unwrap_or(0);
    total += g.direct_dependencies(path).map(|i| i.count()).unwrap_or(0);
    total += g.script_dependencies(path).map(|i| i.count()).unwrap_or(0);
    json!({"ok": true, "diags": diags.len(), "max_level": max_level, "out": total, "bad_loc": bad_loc})
}

pub fn sheet_options(o: &Value) -> glass_easel_stylesheet_compiler::StyleSheetOptions {
    glass_easel_stylesheet_compiler::StyleSheetOptions {
        class_prefix: o["class_prefix"].as_str().map(|s| s.to_string()),
        class_prefix_sign: o["class_prefix_sign"].as_str().map(|s| s.to_string()),
        rpx_ratio: o["rpx_ratio"].as_f64().map(|x| x as f32).unwrap_or_else(|| match o["rpx_ratio"].as_str() {
            Some("NaN") => f32::NAN,
            Some("inf") => f32::INFINITY,
            _ => 750.0,
        }),
        import_sign: o["import_sign"].as_str().map(|s| s.to_string()),
        convert_host: o["convert_host"].as_bool().unwrap_or(false),
        host_is: o["host_is"].as_str().map(|s| s.to_string()),
    }
}

fn run_sheet(req: &Value) -> Value {
    use glass_easel_stylesheet_compiler::StyleSheetTransformer;
    let text = req["text"].as_str().unwrap_or("");
    let t = StyleSheetTransformer::from_css(req["path"].as_str().unwrap_or(""), text, sheet_options(&req["opts"]));
    let warnings = t.warnings().count();
    let (a, b) = t.output_and_low_priority_output();
    let mut total = 0;
    for o in [a, b] {
        let mut s = Vec::new();
        o.write(&mut s).unwrap();
        total += s.len();
        let mut sm = Vec::new();
        let _ = o.write_source_map(&mut sm);
        total += sm.len();
    }
    json!({"ok": true, "diags": warnings, "out": total})
}

pub fn worker_main() {
    // address-space limit
    unsafe {
        let lim = libc::rlimit { rlim_cur: AS_LIMIT, rlim_max: AS_LIMIT };
        libc::setrlimit(libc::RLIMIT_AS, &lim);
    }
    std::panic::set_hook(Box::new(|_| {}));
    let handle = std::thread::Builder::new()
        .stack_size(STACK)
        .spawn(|| {
            let stdin = std::io::stdin();
            let stdout = std::io::stdout();
            for line in stdin.lock().lines() {
                let Ok(line) = line else { break };
                if line.trim().is_empty() {
                    continue;
                }
                let req: Value = match serde_json::from_str(&line) {
                    Ok(v) => v,
                    Err(_) => {
                        let _ = writeln!(stdout.lock(), "{}", json!({"fatal":"bad json"}));
                        continue;
                    }
                };
                let resp = catch_unwind(AssertUnwindSafe(|| match req["k"].as_str() {
                    Some("t") => run_template(&req),
                    Some("s") => run_sheet(&req),
                    _ => json!({"fatal":"unknown kind"}),
                }))
                .unwrap_or_else(|e| {
                    let msg = crate::compile::panic_message(e);
                    json!({"panic": msg})
                });
                let mut out = stdout.lock();
                let _ = writeln!(out, "{}", resp);
                let _ = out.flush();
            }
        })
        .expect("spawn work thread");
    let _ = handle.join();
}

#[derive(Debug, Clone)]
pub enum IsoOutcome {
    Ok(Value),
    Panic(String),
    /// child died: signal / exit description
    Died(String),
    /// exceeded the CPU budget for one input
    Hang(f64),
    Machinery(String),
}

pub struct Iso {
    child: Child,
    stdin: ChildStdin,
    rx: Receiver<String>,
    pid: u32,
}

fn cpu_seconds(pid: u32) -> f64 {
    let Ok(s) = std::fs::read_to_string(format!("/proc/{}/stat", pid)) else { return 0.0 };
    // fields after the closing paren of comm: state is field 3; utime = 14, stime = 15
    let Some(rp) = s.rfind(')') else { return 0.0 };
    let rest: Vec<&str> = s[rp + 2..].split_whitespace().collect();
    let ut: f64 = rest.get(11).and_then(|x| x.parse().ok()).unwrap_or(0.0);
    let st: f64 = rest.get(12).and_then(|x| x.parse().ok()).unwrap_or(0.0);
    let hz = unsafe { libc::sysconf(libc::_SC_CLK_TCK) } as f64;
    (ut + st) / hz.max(1.0)
}

impl Iso {
    pub fn spawn() -> Result<Iso, String> {
        let exe = std::env::current_exe().map_err(|e| e.to_string())?;
        let mut child = Command::new(exe).arg("isolate-worker").stdin(Stdio::piped()).stdout(Stdio::piped()).stderr(Stdio::null()).spawn().map_err(|e| format!("spawn isolate worker: {}", e))?;
        let stdin = child.stdin.take().unwrap();
        let stdout = BufReader::new(child.stdout.take().unwrap());
        let (tx, rx) = channel();
        std::thread::spawn(move || {
            let mut stdout = stdout;
            loop {
                let mut line = String::new();
                match stdout.read_line(&mut line) {
                    Ok(0) | Err(_) => break,
                    Ok(_) => {
                        if tx.send(line).is_err() {
                            break;
                        }
                    }
                }
            }
        });
        let pid = child.id();
        Ok(Iso { child, stdin, rx, pid })
    }

    pub fn run(&mut self, req: &Value) -> IsoOutcome {
        self.run_limit(req, CPU_LIMIT_S)
    }

    pub fn run_limit(&mut self, req: &Value, cpu_limit: f64) -> IsoOutcome {
        let mut line = req.to_string();
        line.push('\n');
        let cpu0 = cpu_seconds(self.pid);
        if self.stdin.write_all(line.as_bytes()).is_err() || self.stdin.flush().is_err() {
            return self.died();
        }
        loop {
            match self.rx.recv_timeout(Duration::from_millis(250)) {
                Ok(l) => {
                    let v: Value = match serde_json::from_str(&l) {
                        Ok(v) => v,
                        Err(e) => return IsoOutcome::Machinery(format!("bad json from isolate worker: {}", e)),
                    };
                    if let Some(p) = v.get("panic") {
                        return IsoOutcome::Panic(p.as_str().unwrap_or("").to_string());
                    }
                    if let Some(f) = v.get("fatal") {
                        return IsoOutcome::Machinery(f.to_string());
                    }
                    return IsoOutcome::Ok(v);
                }
                Err(RecvTimeoutError::Timeout) => {
                    let used = cpu_seconds(self.pid) - cpu0;
                    if used > cpu_limit {
                        let _ = self.child.kill();
                        let _ = self.child.wait();
                        return IsoOutcome::Hang(used);
                    }
                    if let Ok(Some(_)) = self.child.try_wait() {
                        return self.died();
                    }
                }
                Err(RecvTimeoutError::Disconnected) => return self.died(),
            }
        }
    }

    fn died(&mut self) -> IsoOutcome {
        use std::os::unix::process::ExitStatusExt;
        match self.child.wait() {
            Ok(st) => {
                if let Some(sig) = st.signal() {
                    IsoOutcome::Died(format!("killed by signal {}", sig))
                } else {
                    IsoOutcome::Died(format!("exit status {:?}", st.code()))
                }
            }
            Err(e) => IsoOutcome::Machinery(format!("wait: {}", e)),
        }
    }

    pub fn alive(&mut self) -> bool {
        matches!(self.child.try_wait(), Ok(None))
    }
}

impl Drop for Iso {
    fn drop(&mut self) {
        let _ = self.child.kill();
        let _ = self.child.wait();
    }
}
