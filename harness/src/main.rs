#![allow(dead_code, unused_variables)]
use gev::engine::Tier;
use gev::{checks, compile, isolate};

fn usage() -> ! {
    eprintln!("usage: gev check <Cnn> [--tier quick|thorough] [--seed N]\n       gev replay <file>\n       gev print-sample <Cnn> [--seed N]");
    std::process::exit(2)
}

fn main() {
    let args: Vec<String> = std::env::args().collect();
    if args.len() < 2 {
        usage();
    }
    compile::install_quiet_panic_hook();
    match args[1].as_str() {
        "check" => {
            if args.len() < 3 {
                usage();
            }
            let prop = args[2].clone();
            let mut tier = match std::env::var("VERIF_TIER").ok().as_deref() {
                Some("thorough") => Tier::Thorough,
                _ => Tier::Quick,
            };
            let mut seed: u64 = std::env::var("VERIF_SEED").ok().and_then(|s| s.trim().parse().ok()).unwrap_or(1);
            let mut i = 3;
            while i < args.len() {
                match args[i].as_str() {
                    "--tier" => {
                        tier = if args.get(i + 1).map(|s| s.as_str()) == Some("thorough") { Tier::Thorough } else { Tier::Quick };
                        i += 2;
                    }
                    "--seed" => {
                        seed = args.get(i + 1).and_then(|s| s.parse().ok()).unwrap_or(1);
                        i += 2;
                    }
                    _ => usage(),
                }
            }
            if seed == 0 {
                seed = 1;
            }
            let code = checks::run(&prop, tier, seed);
            std::process::exit(code);
        }
        "emit" => {
            // gev emit <group.json>: {"files":[[path,src]...],"scripts":[[path,js]...],"order":[indices]?} -> bundle on stdout
            let text = if args.get(2).map(|s| s.as_str()) == Some("-") {
                let mut t = String::new();
                use std::io::Read;
                std::io::stdin().read_to_string(&mut t).unwrap_or_else(|_| usage());
                t
            } else {
                std::fs::read_to_string(&args[2]).unwrap_or_else(|_| usage())
            };
            let v: serde_json::Value = serde_json::from_str(&text).unwrap_or_else(|_| usage());
            std::process::exit(checks::c20_emit(&v));
        }
        "corpus" => {
            // gev corpus <tmpl|wxss> <dir> <count> <seed>: seed corpus files for the libFuzzer targets, from the generators
            let kind = args.get(2).cloned().unwrap_or_default();
            let dir = args.get(3).cloned().unwrap_or_else(|| usage());
            let count: usize = args.get(4).and_then(|s| s.parse().ok()).unwrap_or(50);
            let seed: u64 = args.get(5).and_then(|s| s.parse().ok()).unwrap_or(1);
            std::process::exit(checks::write_corpus(&kind, &dir, count, seed));
        }
        "fuzz-replay" => {
            // gev fuzz-replay <target> <artifact>: run the target's oracle on a saved libFuzzer input
            let target = args.get(2).cloned().unwrap_or_default();
            let data = std::fs::read(args.get(3).cloned().unwrap_or_else(|| usage())).unwrap_or_else(|_| usage());
            std::process::exit(checks::fuzz_replay(&target, &data));
        }
        "ast" => {
            // debugging aid: gev ast <file.wxml> prints the parsed AST and diagnostics
            let text = std::fs::read_to_string(&args[2]).unwrap_or_else(|_| usage());
            let (t, mut ps) = glass_easel_template_compiler::parse::parse("p", &text);
            println!("{:#?}", t);
            println!("{:?}", ps.take_warnings());
        }
        "isolate-worker" => {
            isolate::worker_main();
        }
        "replay" => {
            if args.len() < 3 {
                usage();
            }
            let code = checks::replay(&args[2]);
            std::process::exit(code);
        }
        _ => usage(),
    }
}
