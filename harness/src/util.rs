//! Small deterministic helpers: seed mixing, hashing, JS string escaping.

pub fn splitmix64(mut x: u64) -> u64 {
    x = x.wrapping_add(0x9E37_79B9_7F4A_7C15);
    let mut z = x;
    z = (z ^ (z >> 30)).wrapping_mul(0xBF58_476D_1CE4_E5B9);
    z = (z ^ (z >> 27)).wrapping_mul(0x94D0_49BB_1331_11EB);
    z ^ (z >> 31)
}

pub fn mix(seed: u64, a: u64, b: u64) -> u64 {
    splitmix64(splitmix64(seed ^ splitmix64(a)).wrapping_add(splitmix64(b ^ 0xA5A5_A5A5)))
}

/// Tiny PRNG used only to expand a *generated* seed value into concrete-syntax choices.
#[derive(Clone, Debug)]
pub struct Rng(pub u64);
impl Rng {
    pub fn new(seed: u64) -> Self {
        Rng(splitmix64(seed ^ 0x5DEECE66D))
    }
    pub fn next(&mut self) -> u64 {
        self.0 = self.0.wrapping_add(0x9E37_79B9_7F4A_7C15);
        splitmix64(self.0)
    }
    /// uniform in 0..n (n>0). A zero seed is mapped so that `below` returns 0 for every call ("canonical style").
    pub fn below(&mut self, n: u64) -> u64 {
        if n == 0 {
            return 0;
        }
        self.next() % n
    }
    pub fn chance(&mut self, num: u64, den: u64) -> bool {
        self.below(den) < num
    }
}

pub fn fnv64(s: &[u8]) -> u64 {
    let mut h: u64 = 0xcbf29ce484222325;
    for b in s {
        h ^= *b as u64;
        h = h.wrapping_mul(0x100000001b3);
    }
    h
}

/// Escape a Rust string as a JavaScript double-quoted string literal (our own escaper — independent of the code under test).
pub fn js_str(s: &str) -> String {
    let mut o = String::with_capacity(s.len() + 2);
    o.push('"');
    for c in s.chars() {
        match c {
            '"' => o.push_str("\\\""),
            '\\' => o.push_str("\\\\"),
            '\n' => o.push_str("\\n"),
            '\r' => o.push_str("\\r"),
            '\t' => o.push_str("\\t"),
            c if (c as u32) < 0x20 || c == '\u{7f}' || c == '\u{2028}' || c == '\u{2029}' => {
                o.push_str(&format!("\\u{:04x}", c as u32));
            }
            c if (c as u32) > 0xFFFF => {
                let mut buf = [0u16; 2];
                for u in c.encode_utf16(&mut buf) {
                    o.push_str(&format!("\\u{:04x}", u));
                }
            }
            c if (c as u32) >= 0x80 => {
                o.push_str(&format!("\\u{:04x}", c as u32));
            }
            c => o.push(c),
        }
    }
    o.push('"');
    o
}

pub fn truncate(s: &str, n: usize) -> String {
    if s.chars().count() <= n {
        s.to_string()
    } else {
        let t: String = s.chars().take(n).collect();
        format!("{}…[{} chars]", t, s.chars().count())
    }
}
