//! C15 — diagnostics: clean input is clean, broken input is flagged, locations are valid.
//!
//! (i)   generated well-formed templates (documented syntax only; the C04 generator plus slot value references) must
//!       produce no diagnostic at Warn level or above;
//! (ii)  the same templates with ONE structural defect injected at a generated applicable site (the printer records the
//!       byte span of every tag, attribute name, expression and end tag) must produce at least one diagnostic whose level
//!       is at least the documented level of that defect;
//! (iii) every diagnostic of (i), (ii) and of C01's whole input stream (token soup, mutated templates, entity soup,
//!       ramps; run in isolated children) carries start <= end inside the source on existing lines and UTF-16 columns.

use super::c01;
use super::common::short_hash;
use crate::compile::{compile_sources, Diag};
use crate::engine::{self, Failure, Finish, Outcome, PropCheck, RunCfg, Tier};
use crate::findings::Findings;
use crate::gen;
use crate::jsworker::Worker;
use crate::model::wxml::{print_template_with_positions, Group, PosEntry};
use crate::util::fnv64;
use proptest::prelude::*;
use serde::{Deserialize, Serialize};
use serde_json::{json, Value};
use std::time::Instant;

#[derive(Clone, Copy, Debug, PartialEq, Eq, Serialize, Deserialize)]
pub enum Defect {
    MissingEndTag,
    TagCutAtEof,
    UnterminatedBindingRemoved,
    UnterminatedBindingEof,
    TrailingGarbage,
    UnknownWxDirective,
    UnknownPrefix,
    DuplicatedAttribute,
    ChildrenUnderChildless,
    MissingSrcInclude,
    MissingSrcImport,
    MissingModuleWxs,
    MissingIsTemplate,
}

pub const DEFECTS: [Defect; 13] = [
    Defect::MissingEndTag,
    Defect::TagCutAtEof,
    Defect::UnterminatedBindingRemoved,
    Defect::UnterminatedBindingEof,
    Defect::TrailingGarbage,
    Defect::UnknownWxDirective,
    Defect::UnknownPrefix,
    Defect::DuplicatedAttribute,
    Defect::ChildrenUnderChildless,
    Defect::MissingSrcInclude,
    Defect::MissingSrcImport,
    Defect::MissingModuleWxs,
    Defect::MissingIsTemplate,
];

impl Defect {
    /// documented level (ParseErrorKind::level of the kind the documentation names for this defect): 2 Warn, 3 Error, 4 Fatal
    pub fn level(self) -> u8 {
        match self {
            Defect::MissingEndTag => 2,
            Defect::TagCutAtEof => 4,
            Defect::UnterminatedBindingRemoved | Defect::UnterminatedBindingEof => 4,
            Defect::TrailingGarbage => 4,
            Defect::UnknownWxDirective | Defect::UnknownPrefix | Defect::DuplicatedAttribute => 2,
            Defect::ChildrenUnderChildless => 3,
            Defect::MissingSrcInclude | Defect::MissingSrcImport | Defect::MissingModuleWxs | Defect::MissingIsTemplate => 3,
        }
    }
}

#[derive(Clone, Debug, Serialize, Deserialize)]
pub struct Injection {
    pub defect: Defect,
    /// which applicable site (scaled onto the number of sites)
    pub site: u16,
    pub variant: u8,
}

#[derive(Clone, Debug, Serialize, Deserialize)]
pub struct Case {
    pub group: Group,
    pub style: u64,
    pub injections: Vec<Injection>,
}

pub struct C15;

const NORMAL_TAGS: &[&str] = gen::wxml::TAGS;

fn pick<'a>(sites: &'a [&'a PosEntry], site: u16) -> Option<&'a PosEntry> {
    if sites.is_empty() {
        None
    } else {
        Some(sites[(site as usize * sites.len()) >> 16])
    }
}

/// apply one defect to the printed source; None when the template has no applicable site
pub fn inject(src: &str, pos: &[PosEntry], inj: &Injection) -> Option<(String, String)> {
    let of = |kind: &str| -> Vec<&PosEntry> { pos.iter().filter(|p| p.kind == kind).collect() };
    let normal = |p: &&PosEntry| NORMAL_TAGS.contains(&p.text.as_str());
    match inj.defect {
        Defect::MissingEndTag => {
            let sites: Vec<&PosEntry> = of("end-tag").into_iter().filter(normal).collect();
            let s = pick(&sites, inj.site)?;
            Some((format!("{}{}", &src[..s.byte_start], &src[s.byte_end..]), format!("end tag </{}> removed at byte {}", s.text, s.byte_start)))
        }
        Defect::TagCutAtEof => {
            let mut sites: Vec<&PosEntry> = of("open-tag");
            sites.extend(of("open-tag-selfclosed"));
            let sites: Vec<&PosEntry> = sites.into_iter().filter(normal).collect();
            if inj.variant % 3 == 2 {
                // cut inside an end tag: `</view` at the end of the source
                let ends: Vec<&PosEntry> = of("end-tag").into_iter().filter(normal).collect();
                let s = pick(&ends, inj.site)?;
                let cut = s.byte_start + 2 + s.text.len();
                return Some((src[..cut].to_string(), format!("source cut inside the end tag </{}> at byte {}", s.text, cut)));
            }
            let s = pick(&sites, inj.site)?;
            // cut after the tag name, or just before the closing `>` / `/>`
            let name_end = s.byte_start + 1 + s.text.len();
            let close = if src[..s.byte_end].ends_with("/>") { s.byte_end - 2 } else { s.byte_end - 1 };
            let cut = if inj.variant % 2 == 0 { name_end } else { close };
            Some((src[..cut].to_string(), format!("source cut inside the start tag <{}> at byte {}", s.text, cut)))
        }
        Defect::UnterminatedBindingRemoved | Defect::UnterminatedBindingEof => {
            let sites = of("expr");
            let s = pick(&sites, inj.site)?;
            let close = src[s.byte_end..].find("}}")? + s.byte_end;
            if inj.defect == Defect::UnterminatedBindingEof {
                Some((src[..close].to_string(), format!("source ends inside the binding {{{{{}", s.text)))
            } else {
                // static text `}}` right after the binding would close it again: not a defect then
                if src[close + 2..].trim_start().starts_with('}') {
                    return None;
                }
                // ... and so would a `}}` in the static text behind it (`{{ a }}Z}}` -> `{{ aZ}}` is a well-formed binding)
                let rest = &src[close + 2..];
                let stop = rest.find("{{").unwrap_or(rest.len()).min(rest.find('<').unwrap_or(rest.len()));
                if rest[..stop].contains("}}") {
                    return None;
                }
                Some((format!("{}{}", &src[..close], &src[close + 2..]), format!("closing braces of the binding {{{{{}}}}} removed", s.text)))
            }
        }
        Defect::TrailingGarbage => {
            let sites = of("expr");
            let s = pick(&sites, inj.site)?;
            let garbage = [" )", " ]", " #", " 1 2", " a b", " @x"][inj.variant as usize % 6];
            Some((format!("{}{}{}", &src[..s.byte_end], garbage, &src[s.byte_end..]), format!("`{}` appended inside the binding {{{{{}}}}}", garbage, s.text)))
        }
        Defect::UnknownWxDirective | Defect::UnknownPrefix | Defect::DuplicatedAttribute => {
            let sites: Vec<&PosEntry> = of("tag-name").into_iter().filter(normal).collect();
            let s = pick(&sites, inj.site)?;
            let add = match inj.defect {
                Defect::UnknownWxDirective => [" wx:unknown=\"1\"", " wx:fi=\"{{a}}\"", " wx:for-items=\"{{a}}\""][inj.variant as usize % 3],
                Defect::UnknownPrefix => [" foo:bar=\"1\"", " xbind:tap=\"h\"", " modal:value=\"{{a}}\""][inj.variant as usize % 3],
                // (two listeners for one event are collected, not flagged, by the parser: not counted as a duplicated attribute)
                _ => [" zq=\"1\" zq=\"2\"", " data:zq=\"1\" data:zq=\"{{a}}\"", " mark:zq=\"1\" mark:zq=\"2\"", " model:zq=\"{{a}}\" model:zq=\"{{b}}\"", " id=\"i1\" id=\"i2\"", " change:zq=\"{{a}}\" change:zq=\"{{b}}\""][inj.variant as usize % 6],
            };
            Some((format!("{}{}{}", &src[..s.byte_end], add, &src[s.byte_end..]), format!("`{}` added to <{}>", add.trim(), s.text)))
        }
        Defect::ChildrenUnderChildless => {
            let childless = |p: &&PosEntry| matches!(p.text.as_str(), "include" | "import" | "slot");
            let closed: Vec<&PosEntry> = of("open-tag-selfclosed").into_iter().filter(childless).collect();
            let open: Vec<&PosEntry> = of("open-tag").into_iter().filter(childless).collect();
            let mut sites = closed.clone();
            sites.extend(open.iter());
            let s = pick(&sites, inj.site)?;
            let child = ["<a/>", "text", "<view>x</view>"][inj.variant as usize % 3];
            if src[..s.byte_end].ends_with("/>") {
                Some((format!("{}>{}</{}>{}", &src[..s.byte_end - 2], child, s.text, &src[s.byte_end..]), format!("child `{}` put under <{}>", child, s.text)))
            } else {
                Some((format!("{}{}{}", &src[..s.byte_end], child, &src[s.byte_end..]), format!("child `{}` put under <{}>", child, s.text)))
            }
        }
        Defect::MissingSrcInclude | Defect::MissingIsTemplate => {
            // anywhere a node may stand: before a start tag
            let mut sites = of("open-tag");
            sites.extend(of("open-tag-selfclosed"));
            let at = pick(&sites, inj.site).map(|s| s.byte_start).unwrap_or(0);
            let el = if inj.defect == Defect::MissingSrcInclude { ["<include/>", "<include></include>", "<include src=\"\"/>"][inj.variant as usize % 3] } else { ["<template/>", "<template></template>", "<template data=\"{{a}}\"/>"][inj.variant as usize % 3] };
            Some((format!("{}{}{}", &src[..at], el, &src[at..]), format!("`{}` inserted at byte {}", el, at)))
        }
        Defect::MissingSrcImport | Defect::MissingModuleWxs => {
            let el = if inj.defect == Defect::MissingSrcImport { ["<import/>", "<import></import>"][inj.variant as usize % 2] } else { ["<wxs/>", "<wxs src=\"lib/s\"/>", "<wxs>var a = 1</wxs>"][inj.variant as usize % 3] };
            if inj.variant % 2 == 0 {
                Some((format!("{}{}", el, src), format!("`{}` inserted at the start", el)))
            } else {
                Some((format!("{}{}", src, el), format!("`{}` appended", el)))
            }
        }
    }
}

fn loc_problem(src: &str, d: &Diag) -> Option<String> {
    let lines: Vec<&str> = src.split('\n').collect();
    let ok = |p: (u32, u32)| (p.0 as usize) < lines.len() && (p.1 as usize) <= lines[p.0 as usize].encode_utf16().count();
    if d.start <= d.end && ok(d.start) && ok(d.end) {
        None
    } else {
        Some(format!("`{}` at {:?}-{:?} (source has {} lines)", d.kind, d.start, d.end, lines.len()))
    }
}

fn diags_of(path: &str, src: &str, scripts: &[(String, String)]) -> Result<Vec<Diag>, String> {
    compile_sources(&[(path.to_string(), src.to_string())], scripts, false).map(|(_, d)| d)
}

/// The diagnostics of a source are reported by every `add_tmpl` call that is given it: adding the same source again under
/// the same path (a rebuild of an unchanged file), after another file, or after a removal must report them again.
/// Returns a description when some call reports something else than the first one.
fn readd_problem(path: &str, src: &str, first: &[Diag]) -> Option<String> {
    let key = |d: &Diag| (d.kind.clone(), d.level, d.start, d.end);
    let want: Vec<_> = first.iter().map(key).collect();
    let res = std::panic::catch_unwind(|| {
        let mut g = glass_easel_template_compiler::TmplGroup::new();
        let mut got: Vec<(&'static str, Vec<Diag>)> = vec![];
        g.add_tmpl(path, src);
        got.push(("the second add_tmpl of the same path and source", g.add_tmpl(path, src).iter().map(crate::compile::diag_of).collect()));
        g.add_tmpl("zz/other", "<view/>");
        got.push(("an add_tmpl of the same path and source after another file was added", g.add_tmpl(path, src).iter().map(crate::compile::diag_of).collect()));
        g.remove_tmpl(path);
        got.push(("an add_tmpl after remove_tmpl", g.add_tmpl(path, src).iter().map(crate::compile::diag_of).collect()));
        let mut h = glass_easel_template_compiler::TmplGroup::new();
        h.import_group(&g);
        got.push(("an add_tmpl into a group that imported one holding the file", h.add_tmpl(path, src).iter().map(crate::compile::diag_of).collect()));
        got
    });
    match res {
        Err(_) => Some("re-adding the source panicked".into()),
        Ok(got) => {
            for (what, ds) in got {
                let have: Vec<_> = ds.iter().map(key).collect();
                if have != want {
                    return Some(format!("{} reported {:?}, the first add_tmpl reported {:?}", what, ds.iter().map(|d| format!("{}@{:?}", d.kind, d.start)).collect::<Vec<_>>(), first.iter().map(|d| format!("{}@{:?}", d.kind, d.start)).collect::<Vec<_>>()));
                }
            }
            None
        }
    }
}

impl PropCheck for C15 {
    type Case = Case;

    fn needs_worker(&self) -> bool {
        false
    }

    fn strategy(&self) -> BoxedStrategy<Case> {
        let cfg = gen::wxml::WxmlCfg::new(3, 2);
        let inj = (0..DEFECTS.len(), any::<u16>(), any::<u8>()).prop_map(|(d, site, variant)| Injection { defect: DEFECTS[d], site, variant });
        (gen::wxml::group(&cfg), any::<u64>(), proptest::collection::vec(inj, 3..8), any::<u64>())
            .prop_map(|(mut group, style, injections, deco)| {
                let mut rng = crate::util::Rng::new(deco | 1);
                if deco % 3 == 0 {
                    for t in group.files.iter_mut() {
                        gen::wxml::add_slot_refs(&mut t.body, &mut rng);
                    }
                }
                Case { group, style, injections }
            })
            .boxed()
    }

    fn eval(&self, _w: Option<&mut Worker>, cases: &[Case]) -> Result<Vec<Outcome>, String> {
        let mut outs = vec![];
        for c in cases {
            outs.push(eval_case(c));
        }
        Ok(outs)
    }

    fn case_json(&self, case: &Case) -> Value {
        let (src, pos) = print_template_with_positions(&case.group.files[0], case.style);
        let injected: Vec<Value> = case.injections.iter().map(|i| match inject(&src, &pos, i) { Some((s, how)) => json!({"defect": format!("{:?}", i.defect), "how": how, "source": s}), None => json!({"defect": format!("{:?}", i.defect), "how": "no applicable site"}) }).collect();
        json!({"case": serde_json::to_value(case).unwrap(), "clean_source": src, "injected": injected})
    }

    fn case_from_json(&self, v: &Value) -> Result<Case, String> {
        serde_json::from_value(v["case"].clone()).map_err(|e| e.to_string())
    }

    fn owns_case(&self, v: &Value) -> bool {
        v["garbage_sweep"].as_bool() != Some(true) && v["prefix_sweep"].as_bool() != Some(true)
    }
}

pub fn eval_case(c: &Case) -> Outcome {
    let mut out = Outcome::default();
    let scripts: Vec<(String, String)> = c.group.scripts.iter().map(|s| (s.path.clone(), s.js.clone())).collect();
    let mut clean_ok = true;
    // (i) every file of the group is clean
    for (fi, t) in c.group.files.iter().enumerate() {
        let (src, _) = print_template_with_positions(t, if c.style == 0 { 0 } else { c.style.wrapping_add(fi as u64 * 7919) });
        match diags_of(&t.path, &src, &scripts) {
            Err(p) => {
                out.failures.push(Failure { sig: format!("C15|panic|{}", short_hash(&p)), tag: None, what: format!("parser panicked on a well-formed template: {} ; source {:?}", p, crate::util::truncate(&src, 300)), detail: json!({}) });
                clean_ok = false;
            }
            Ok(ds) => {
                out.units += 1;
                for d in &ds {
                    if let Some(p) = loc_problem(&src, d) {
                        out.failures.push(Failure { sig: format!("C15|bad-location|{}", d.kind), tag: None, what: format!("diagnostic location invalid: {} ; source {:?}", p, crate::util::truncate(&src, 300)), detail: json!({}) });
                    }
                }
                if let Some(d) = ds.iter().find(|d| d.level >= 2) {
                    clean_ok = false;
                    out.failures.push(Failure {
                        sig: format!("C15|clean-flagged|{}", d.kind),
                        tag: None,
                        what: format!("template following the documented syntax answered with `{}` (level {}) at {:?}-{:?} in {:?}; source {:?}", d.kind, d.level, d.start, d.end, t.path, crate::util::truncate(&src, 400)),
                        detail: json!({}),
                    });
                }
            }
        }
    }
    let main = &c.group.files[0];
    let (src, pos) = print_template_with_positions(main, c.style);
    out.sample = Some(json!({"clean_source": crate::util::truncate(&src, 300)}));
    let nodes = crate::model::wxml::count_nodes(&main.body);
    out.labels.push(format!("nodes:{}", if nodes >= 5 { ">=5" } else { "<5" }));
    if !clean_ok {
        return out;
    }
    // (ii) one defect at a time
    let mut injected_nt = false;
    for inj in &c.injections {
        let Some((bad, how)) = inject(&src, &pos, inj) else {
            out.labels.push(format!("no-site:{:?}", inj.defect));
            continue;
        };
        out.labels.push(format!("defect:{:?}", inj.defect));
        out.units += 1;
        match diags_of(&main.path, &bad, &scripts) {
            Err(p) => out.failures.push(Failure { sig: format!("C15|panic|{}", short_hash(&p)), tag: None, what: format!("parser panicked: {} ; source {:?}", p, crate::util::truncate(&bad, 300)), detail: json!({"source": bad}) }),
            Ok(ds) => {
                for d in &ds {
                    if let Some(p) = loc_problem(&bad, d) {
                        out.failures.push(Failure { sig: format!("C15|bad-location|{}", d.kind), tag: None, what: format!("diagnostic location invalid: {} ; source {:?}", p, crate::util::truncate(&bad, 300)), detail: json!({"source": bad}) });
                    }
                }
                let max = ds.iter().map(|d| d.level).max().unwrap_or(0);
                if max >= inj.defect.level() {
                    if let Some(p) = readd_problem(&main.path, &bad, &ds) {
                        out.failures.push(Failure {
                            sig: format!("C15|defect-not-flagged-on-re-add|{:?}", inj.defect),
                            tag: None,
                            what: format!("{:?} ({}): {} ; source {:?}", inj.defect, how, p, crate::util::truncate(&bad, 400)),
                            detail: json!({"source": bad, "how": how}),
                        });
                    }
                }
                if max < inj.defect.level() {
                    out.failures.push(Failure {
                        sig: format!("C15|defect-not-flagged|{:?}", inj.defect),
                        tag: None,
                        what: format!("{:?} ({}) produced {} (documented level of this defect: {}); diagnostics: {:?}; source {:?}", inj.defect, how, if ds.is_empty() { "no diagnostic".to_string() } else { format!("only level {}", max) }, inj.defect.level(), ds.iter().map(|d| format!("{}@{:?}", d.kind, d.start)).collect::<Vec<_>>(), crate::util::truncate(&bad, 500)),
                        detail: json!({"source": bad, "how": how}),
                    });
                } else if nodes >= 5 {
                    injected_nt = true;
                }
            }
        }
    }
    out.labels.sort();
    out.labels.dedup();
    if injected_nt {
        out.nt.push(fnv64(src.as_bytes()));
    }
    out
}

// ---------------------------------------------------------------------------------------------------------------
// garbage sweep: a complete expression token put after a complete sub-expression, at every nesting level

/// `§` marks the end of a complete sub-expression
const GARBAGE_SKELETONS: &[&str] = &[
    "a§", "a.b§", "a[0§]§", "f(a§, b§)§", "[a§, b§]§", "[...a§]§", "[...a§, b§]", "{ k: a§ }§", "{ k§ }", "{ k§, j: b }", "{ ...a§ }§", "{ ...a§, k: b§ }", "{ k: b, ...a§ }", "(a§)§", "a ? b§ : c§", "!a§", "a + b§", "'s'§", "1§",
    "a.b[c§].d§", "f()§", "[[a§]§]",
];
/// the same for the comma-separated fields of `<template data>`
const GARBAGE_DATA_SKELETONS: &[&str] = &["...a§", "k: a§", "k§", "k§, j", "...a§, ...b§", "k: a§, ...b§", "...a§, k: b"];
const GARBAGE: &[&str] = &["extra", "1", "'s'", "...b", "x.y"];

#[derive(Clone, Debug, Serialize, Deserialize)]
pub struct GarbageCase {
    /// 0 attribute value, 1 text, 2 template data
    pub ctx: u8,
    pub skeleton: usize,
    pub point: usize,
    pub garbage: usize,
    pub garbage_sweep: bool,
}

pub struct C15Garbage;

impl GarbageCase {
    /// (the expression text, the template source)
    pub fn texts(&self) -> Option<(String, String)> {
        let sk = if self.ctx == 2 { GARBAGE_DATA_SKELETONS.get(self.skeleton)? } else { GARBAGE_SKELETONS.get(self.skeleton)? };
        let parts: Vec<&str> = sk.split('§').collect();
        if self.point + 1 >= parts.len() {
            return None;
        }
        let mut e = String::new();
        for (i, p) in parts.iter().enumerate() {
            e.push_str(p);
            if i == self.point {
                e.push(' ');
                e.push_str(GARBAGE.get(self.garbage)?);
                e.push(' ');
            }
        }
        let src = match self.ctx {
            0 => format!("<v a=\"{{{{ {} }}}}\"/>", e),
            1 => format!("<v>{{{{ {} }}}}</v>", e),
            _ => format!("<template name=\"t\">x</template><template is=\"t\" data=\"{{{{ {} }}}}\"/>", e),
        };
        Some((e, src))
    }
}

pub fn garbage_cases() -> Vec<GarbageCase> {
    let mut out = vec![];
    for ctx in 0..3u8 {
        let sks = if ctx == 2 { GARBAGE_DATA_SKELETONS } else { GARBAGE_SKELETONS };
        for (si, sk) in sks.iter().enumerate() {
            for point in 0..sk.matches('§').count() {
                for g in 0..GARBAGE.len() {
                    out.push(GarbageCase { ctx, skeleton: si, point, garbage: g, garbage_sweep: true });
                }
            }
        }
    }
    out
}

impl PropCheck for C15Garbage {
    type Case = GarbageCase;

    fn strategy(&self) -> BoxedStrategy<GarbageCase> {
        let all = garbage_cases();
        (0..all.len()).prop_map(move |i| all[i].clone()).boxed()
    }

    fn eval(&self, w: Option<&mut Worker>, cases: &[GarbageCase]) -> Result<Vec<Outcome>, String> {
        let w = w.ok_or("no worker")?;
        let texts: Vec<Option<(String, String)>> = cases.iter().map(|c| c.texts()).collect();
        // the expression grammar of templates is a subset of JavaScript's: what V8 rejects is no template expression either
        let codes: Vec<String> = cases.iter().zip(texts.iter()).map(|(c, t)| match t { Some((e, _)) => if c.ctx == 2 { format!("({{ {} }})", e) } else { format!("({})", e) }, None => "0".into() }).collect();
        let resp = w.request(&json!({"kind":"syntax","codes":codes})).map_err(|e| e.0)?;
        let mut outs = vec![];
        for (i, c) in cases.iter().enumerate() {
            let mut out = Outcome::default();
            let Some((e, src)) = &texts[i] else {
                outs.push(out);
                continue;
            };
            let invalid = !resp["results"][i]["sloppy"].is_null();
            out.labels.push(format!("garbage:{}", if invalid { "js-invalid" } else { "js-valid (not judged)" }));
            out.labels.push(format!("garbage-ctx:{}", ["attribute", "text", "template-data"][c.ctx as usize % 3]));
            out.sample = Some(json!({"source": src}));
            if invalid {
                out.units = 1;
                out.nt.push(fnv64(src.as_bytes()));
                match diags_of("p", src, &[]) {
                    Ok(d) => {
                        let max = d.iter().map(|x| x.level).max().unwrap_or(0);
                        if max < 3 {
                            out.failures.push(Failure {
                                sig: format!("C15|garbage-not-flagged|{}", ["attribute", "text", "template-data"][c.ctx as usize % 3]),
                                tag: None,
                                what: format!("`{}` put after a complete sub-expression is answered with no diagnostic at Error level or above (highest level {}): binding {{{{ {} }}}} ; source {:?}", GARBAGE[c.garbage], max, e, src),
                                detail: json!({"source": src, "diagnostics": d.iter().map(|x| format!("{} (level {})", x.kind, x.level)).collect::<Vec<_>>()}),
                            });
                        }
                    }
                    Err(p) => out.failures.push(Failure { sig: format!("C15|garbage|panic|{}", short_hash(&p)), tag: None, what: format!("compiler panicked: {} on {:?}", p, src), detail: json!({"source": src}) }),
                }
            }
            outs.push(out);
        }
        Ok(outs)
    }

    fn case_json(&self, case: &GarbageCase) -> Value {
        json!({"case": serde_json::to_value(case).unwrap(), "source": case.texts().map(|t| t.1), "garbage_sweep": true})
    }

    fn case_from_json(&self, v: &Value) -> Result<GarbageCase, String> {
        serde_json::from_value(v["case"].clone()).map_err(|e| e.to_string())
    }

    fn owns_case(&self, v: &Value) -> bool {
        v["garbage_sweep"].as_bool() == Some(true)
    }
}

// ---------------------------------------------------------------------------------------------------------------
// prefix sweep: every attribute name of two or three colon-separated segments over a pool of documented prefixes,
// documented directives and other words

const PREFIX_SEGS: &[&str] = &["wx", "bind", "mut-bind", "catch", "capture-bind", "capture-mut-bind", "capture-catch", "mark", "data", "model", "change", "worklet", "generic", "extra-attr", "slot", "class", "style", "foo", "x", "if", "elif", "else", "for", "for-item", "for-index", "key", "tap", "value", "unknown", "fi", "for-items", "WX", "Bind", ""];
const DOC_PREFIXES: &[&str] = &["wx", "bind", "mut-bind", "catch", "capture-bind", "capture-mut-bind", "capture-catch", "mark", "data", "model", "change", "worklet", "generic", "extra-attr", "slot", "class", "style"];
const DOC_WX: &[&str] = &["if", "elif", "else", "for", "for-item", "for-index", "key"];

#[derive(Clone, Debug, Serialize, Deserialize)]
pub struct PrefixCase {
    pub segs: Vec<String>,
    /// 0 `<view N="1"/>`, 1 `<view N="{{a}}"/>`, 2 `<block N="{{a}}">x</block>`, 3 after other attributes
    pub shape: u8,
    pub prefix_sweep: bool,
}

impl PrefixCase {
    pub fn name(&self) -> String {
        self.segs.join(":")
    }
    pub fn source(&self) -> String {
        let n = self.name();
        match self.shape {
            0 => format!("<view {}=\"1\"/>", n),
            1 => format!("<view {}=\"{{{{a}}}}\"/>", n),
            2 => format!("<block {}=\"{{{{a}}}}\">x</block>", n),
            _ => format!("<view id=\"i\" class=\"c\" {}=\"{{{{a}}}}\" hidden>x</view>", n),
        }
    }
    /// everything before the last colon is the prefix; documented = a documented prefix with a non-empty name, and for
    /// `wx` one of the documented directives
    pub fn documented(&self) -> bool {
        let (name, pre) = self.segs.split_last().unwrap();
        let pre = pre.join(":");
        !name.is_empty() && DOC_PREFIXES.contains(&pre.as_str()) && (pre != "wx" || DOC_WX.contains(&name.as_str()))
    }
}

pub fn prefix_cases(all: bool) -> Vec<PrefixCase> {
    let mut out = vec![];
    for (ai, a) in PREFIX_SEGS.iter().enumerate() {
        for (bi, b) in PREFIX_SEGS.iter().enumerate() {
            for shape in 0..4u8 {
                out.push(PrefixCase { segs: vec![a.to_string(), b.to_string()], shape, prefix_sweep: true });
            }
            for (ci, c) in PREFIX_SEGS.iter().enumerate() {
                // the quick tier takes every fourth three-segment name
                if !all && (ai + 3 * bi + 5 * ci) % 4 != 0 {
                    continue;
                }
                out.push(PrefixCase { segs: vec![a.to_string(), b.to_string(), c.to_string()], shape: ((a.len() + b.len() + c.len()) % 4) as u8, prefix_sweep: true });
            }
        }
    }
    // a name starting with a colon is not an attribute name at all: the first segment is never empty
    out.retain(|c| !c.segs[0].is_empty());
    out
}

pub struct C15Prefix;

impl PropCheck for C15Prefix {
    type Case = PrefixCase;

    fn needs_worker(&self) -> bool {
        false
    }

    fn strategy(&self) -> BoxedStrategy<PrefixCase> {
        let all = prefix_cases(true);
        (0..all.len()).prop_map(move |i| all[i].clone()).boxed()
    }

    fn eval(&self, _w: Option<&mut Worker>, cases: &[PrefixCase]) -> Result<Vec<Outcome>, String> {
        let mut outs = vec![];
        for c in cases {
            let mut out = Outcome::default();
            let src = c.source();
            let documented = c.documented();
            out.labels.push(format!("prefix-sweep:{}-segments:{}", c.segs.len(), if documented { "documented" } else { "undocumented" }));
            out.sample = Some(json!({"source": src}));
            out.units = 1;
            match diags_of("p", &src, &[]) {
                Err(p) => out.failures.push(Failure { sig: format!("C15|prefix|panic|{}", short_hash(&p)), tag: None, what: format!("compiler panicked: {} on {:?}", p, src), detail: json!({"source": src}) }),
                Ok(ds) => {
                    for d in &ds {
                        if let Some(p) = loc_problem(&src, d) {
                            out.failures.push(Failure { sig: format!("C15|bad-location|{}", d.kind), tag: None, what: format!("diagnostic location invalid: {} ; source {:?}", p, src), detail: json!({"source": src}) });
                        }
                    }
                    let max = ds.iter().map(|d| d.level).max().unwrap_or(0);
                    if !documented {
                        out.nt.push(fnv64(src.as_bytes()));
                        if max < 2 {
                            out.failures.push(Failure {
                                sig: format!("C15|prefix-not-flagged|{}-segments", c.segs.len()),
                                tag: None,
                                what: format!("attribute `{}`: `{}` is no documented prefix{} but the template is answered with {} ; source {:?}", c.name(), c.segs[..c.segs.len() - 1].join(":"), if c.segs[0] == "wx" { " / directive" } else { "" }, if ds.is_empty() { "no diagnostic".to_string() } else { format!("level {} only", max) }, src),
                                detail: json!({"source": src}),
                            });
                        } else if let Some(p) = readd_problem("p", &src, &ds) {
                            out.failures.push(Failure { sig: "C15|prefix-not-flagged-on-re-add".into(), tag: None, what: format!("attribute `{}`: {} ; source {:?}", c.name(), p, src), detail: json!({"source": src}) });
                        }
                    } else if ds.iter().any(|d| d.kind.to_lowercase().contains("prefix")) {
                        out.failures.push(Failure {
                            sig: "C15|documented-prefix-flagged".into(),
                            tag: None,
                            what: format!("attribute `{}` uses a documented prefix but is answered with {:?} ; source {:?}", c.name(), ds.iter().map(|d| d.kind.clone()).collect::<Vec<_>>(), src),
                            detail: json!({"source": src}),
                        });
                    }
                }
            }
            outs.push(out);
        }
        Ok(outs)
    }

    fn case_json(&self, case: &PrefixCase) -> Value {
        json!({"case": serde_json::to_value(case).unwrap(), "source": case.source(), "prefix_sweep": true})
    }

    fn case_from_json(&self, v: &Value) -> Result<PrefixCase, String> {
        serde_json::from_value(v["case"].clone()).map_err(|e| e.to_string())
    }

    fn owns_case(&self, v: &Value) -> bool {
        v["prefix_sweep"].as_bool() == Some(true)
    }
}

pub fn run(tier: Tier, seed: u64, findings: &Findings) -> i32 {
    let started = Instant::now();
    let cfg = RunCfg { prop: "C15", tier, seed };
    let check = C15;
    let mut report = super::run_regress(&check, &cfg, findings);
    let cases = tier.pick(30_000, 800_000);
    report.merge(engine::run_generated(&check, &cfg, cases, 8, 16, findings, 0));
    // (iii) locations over C01's input stream, in isolated children
    let loc = c01::C01 { cfg: gen::wxml::WxmlCfg::new(2, 3), locations: true, prop: "C15" };
    let cases = tier.pick(20_000, 600_000);
    let mut r = engine::run_generated(&loc, &cfg, cases, 8, 16, findings, 1);
    r.extra.insert("location_stream_cases".into(), json!(r.evaluations));
    report.merge(r);
    super::fuzz_stage::replay_regress("tmpl_positions", "C15", &mut report);
    // garbage after a complete sub-expression at every nesting level (exhaustive over the listed skeletons)
    report.merge(super::run_regress(&C15Garbage, &cfg, findings));
    let mut r = engine::run_explicit(&C15Garbage, &cfg, garbage_cases(), 16, 4, findings);
    r.extra.insert("garbage_sweep_cases".into(), json!(r.evaluations));
    report.merge(r);
    // every two- and three-segment attribute name over the segment pool (exhaustive)
    report.merge(super::run_regress(&C15Prefix, &cfg, findings));
    let mut r = engine::run_explicit(&C15Prefix, &cfg, prefix_cases(tier == Tier::Thorough), 16, 64, findings);
    r.extra.insert("prefix_sweep_cases".into(), json!(r.evaluations));
    report.merge(r);
    engine::finish(
        Finish {
            cfg,
            report,
            rule: "a case counts when its entry template has >= 5 nodes and at least one injected defect was flagged at its documented level (parts i/ii), or when an input of the totality stream produced diagnostics and output (part iii); distinct by source".into(),
            assumptions: vec![
                "documented level of a defect = ParseErrorKind::level of the kind the documentation names for it (Warn: missing end tag, unknown directive / prefix, duplicated attribute; Error: children under a childless element, missing src / module / is; Fatal: unterminated tag or binding, trailing garbage)".into(),
                "the level is enforced, the kind only recorded (the statement says: level at least the documented one)".into(),
                "clean templates use documented syntax only (generator of C04); injection sites come from the printer's own byte spans".into(),
            ],
            started,
            exhaustive: false,
        },
        findings,
    )
}

pub fn replay(v: &Value, path: &str, findings: &Findings) -> i32 {
    if v["case"]["garbage_sweep"].as_bool() == Some(true) {
        return super::replay_generic(&C15Garbage, "C15", v, path, findings);
    }
    if v["case"]["prefix_sweep"].as_bool() == Some(true) {
        return super::replay_generic(&C15Prefix, "C15", v, path, findings);
    }
    if v["case"]["case"].get("input").is_some() {
        let loc = c01::C01 { cfg: gen::wxml::WxmlCfg::new(2, 3), locations: true, prop: "C15" };
        return super::replay_generic(&loc, "C15", v, path, findings);
    }
    super::replay_generic(&C15, "C15", v, path, findings)
}
