//! C12 — static strings reach the runtime character for character.
//!
//! A probe embeds one payload string (`x` + code point + critical successor + `y`, or a random string) in one embedding
//! context of a template, each character written in one source form (raw, decimal / hex entity, `\xHH`, `\uHHHH`,
//! simple escape). Many probes share one template (one top-level element per probe, numbered by a `data:n` attribute).
//! The template is compiled by the real compiler, executed by the real runtime wrapper on the stub DOM, and the string
//! that arrives at the runtime boundary is returned as UTF-16 code units and compared with the payload.
//! Exhaustive part: every Unicode scalar value (thorough) / U+0000-U+07FF + specials + samples (quick) x context x
//! form x successor; named entities against Python's html5 table; generated part: random strings with per-character
//! random forms in random contexts (proptest, shrinkable).

use crate::compile::compile_sources;
use crate::engine::{self, Failure, Finish, Outcome, PropCheck, RunCfg, Tier};
use crate::findings::Findings;
use crate::jsworker::Worker;
use crate::util::fnv64;
use proptest::prelude::*;
use serde::{Deserialize, Serialize};
use serde_json::{json, Value};
use std::time::Instant;

#[derive(Clone, Copy, Debug, PartialEq, Eq, Hash, Serialize, Deserialize)]
pub enum Ctx {
    Text,
    AttrDq,
    AttrSq,
    Class,
    Style,
    Id,
    SlotAttr,
    DataVal,
    MarkVal,
    EventVal,
    MixedAttr,
    MixedText,
    ExprText,
    ExprTextDq,
    ExprAttr,
    ExprIndex,
    SlotName,
    TmplName,
    TmplIsStatic,
    IncludePath,
    ImportPath,
    WxsPath,
    NameData,
    NameMark,
    NameEvent,
    NamePlain,
    NameGeneric,
    ObjKey,
    Member,
    ModuleName,
}

impl Ctx {
    pub const ALL: [Ctx; 30] = [
        Ctx::Text,
        Ctx::AttrDq,
        Ctx::AttrSq,
        Ctx::Class,
        Ctx::Style,
        Ctx::Id,
        Ctx::SlotAttr,
        Ctx::DataVal,
        Ctx::MarkVal,
        Ctx::EventVal,
        Ctx::MixedAttr,
        Ctx::MixedText,
        Ctx::ExprText,
        Ctx::ExprTextDq,
        Ctx::ExprAttr,
        Ctx::ExprIndex,
        Ctx::SlotName,
        Ctx::TmplName,
        Ctx::TmplIsStatic,
        Ctx::IncludePath,
        Ctx::ImportPath,
        Ctx::WxsPath,
        Ctx::NameData,
        Ctx::NameMark,
        Ctx::NameEvent,
        Ctx::NamePlain,
        Ctx::NameGeneric,
        Ctx::ObjKey,
        Ctx::Member,
        Ctx::ModuleName,
    ];
    fn kind(self) -> Kind {
        match self {
            Ctx::Text | Ctx::MixedText => Kind::StaticText,
            Ctx::AttrDq | Ctx::Class | Ctx::Style | Ctx::Id | Ctx::SlotAttr | Ctx::DataVal | Ctx::MarkVal | Ctx::EventVal | Ctx::MixedAttr | Ctx::SlotName | Ctx::TmplName | Ctx::TmplIsStatic => Kind::StaticAttr('"'),
            Ctx::AttrSq => Kind::StaticAttr('\''),
            Ctx::IncludePath | Ctx::ImportPath | Ctx::WxsPath => Kind::Path,
            Ctx::ExprText => Kind::StrLit('\'', None),
            Ctx::ExprTextDq => Kind::StrLit('"', None),
            Ctx::ExprAttr | Ctx::ExprIndex => Kind::StrLit('\'', Some('"')),
            Ctx::NameData | Ctx::NameMark | Ctx::NameEvent | Ctx::NamePlain | Ctx::NameGeneric => Kind::Name,
            Ctx::ObjKey | Ctx::Member | Ctx::ModuleName => Kind::Ident,
        }
    }
    fn label(self) -> String {
        format!("{:?}", self)
    }
}

#[derive(Clone, Copy, Debug, PartialEq)]
enum Kind {
    StaticText,
    /// static attribute value in the given quotes
    StaticAttr(char),
    /// static attribute value (double quotes) that is a path
    Path,
    /// string literal with the given quote, inside an attribute quoted with the second char (if any)
    StrLit(char, Option<char>),
    Name,
    Ident,
}

#[derive(Clone, Copy, Debug, PartialEq, Eq, Hash, Serialize, Deserialize)]
pub enum Form {
    /// the character itself (where the context cannot hold it raw, the mildest encoding is used instead)
    Raw,
    Dec,
    Hex,
    HexUpper,
    EscX,
    EscU,
    /// `\n` `\t` ... `\\` `\'` (string literals)
    EscSimple,
}

#[derive(Clone, Debug, PartialEq, Serialize, Deserialize)]
pub struct Probe {
    pub ctx: Ctx,
    /// payload characters, each with its source form
    pub chars: Vec<(char, Form)>,
    /// for the named-entity sweep: the source text is given verbatim, the payload is what it must denote
    #[serde(default)]
    pub verbatim: Option<String>,
}

impl Probe {
    pub fn payload(&self) -> String {
        self.chars.iter().map(|(c, _)| *c).collect()
    }
}

/// attribute / dataset / mark / event / generic names: the documented name alphabet (ASCII letters, digits, `_`, `-`, `.`)
fn name_safe(c: char) -> bool {
    c.is_ascii_alphanumeric() || c == '_' || c == '-' || c == '.'
}
fn ident_safe(c: char) -> bool {
    c.is_ascii_alphanumeric() || c == '_' || c == '$'
}

/// Is the probe inside the domain of its context? (sound first: only what the context is documented to hold)
pub fn applicable(p: &Probe) -> bool {
    let kind = p.ctx.kind();
    let pl: Vec<char> = p.chars.iter().map(|(c, _)| *c).collect();
    if pl.is_empty() {
        return false;
    }
    // `{{` denotes the start of a binding, however it is written: not a static string
    if matches!(kind, Kind::StaticText | Kind::StaticAttr(_) | Kind::Path) && pl.windows(2).any(|w| w[0] == '{' && w[1] == '{') {
        return false;
    }
    for (i, (c, f)) in p.chars.iter().enumerate() {
        let c = *c;
        let ok = match kind {
            Kind::StaticText | Kind::StaticAttr(_) => matches!(f, Form::Raw | Form::Dec | Form::Hex | Form::HexUpper),
            Kind::Path => matches!(f, Form::Raw | Form::Dec | Form::Hex | Form::HexUpper) && c != '/',
            Kind::StrLit(..) => match f {
                Form::Raw => true,
                Form::EscX => (c as u32) <= 0xFF,
                Form::EscU => (c as u32) <= 0xFFFF,
                Form::EscSimple => matches!(c, '\n' | '\r' | '\t' | '\u{8}' | '\u{c}' | '\u{b}' | '\\' | '\'' | '"' | '\0'),
                _ => false,
            },
            Kind::Name => *f == Form::Raw && name_safe(c),
            Kind::Ident => *f == Form::Raw && ident_safe(c) && (i > 0 || !c.is_ascii_digit()),
        };
        if !ok {
            return false;
        }
        // `\0` before a digit is a legacy octal escape in JavaScript: outside the supported grammar
        if *f == Form::EscSimple && c == '\0' {
            if let Some((n, nf)) = p.chars.get(i + 1) {
                if n.is_ascii_digit() && *nf == Form::Raw {
                    return false;
                }
            }
        }
    }
    match p.ctx {
        // text made only of template whitespace is dropped by design
        Ctx::Text => !pl.iter().all(|c| matches!(c, ' ' | '\t' | '\n' | '\r' | '\u{b}' | '\u{c}')),
        // paths: suffixes are stripped, `.`/`..`/empty segments are path syntax, and `#` separates inline module names
        Ctx::IncludePath | Ctx::ImportPath => {
            let s: String = pl.iter().collect();
            !s.ends_with(".wxml") && s != "." && s != ".." && !s.is_empty()
        }
        Ctx::WxsPath => {
            let s: String = pl.iter().collect();
            !s.ends_with(".wxs") && s != "." && s != ".." && !s.is_empty()
        }
        // an empty or whitespace slot / template name is a different construct (default slot)
        _ => true,
    }
}

/// source spelling of one payload character
fn spell(kind: Kind, c: char, f: Form, next: Option<char>, out: &mut String) {
    let code = c as u32;
    match kind {
        Kind::StaticText | Kind::StaticAttr(_) | Kind::Path => {
            let must = match c {
                '&' => true,
                '<' => kind == Kind::StaticText,
                '{' => next == Some('{'),
                _ => match kind {
                    Kind::StaticAttr(q) => c == q,
                    Kind::Path => c == '"',
                    _ => false,
                },
            };
            match f {
                Form::Raw if !must => out.push(c),
                Form::Raw | Form::Dec => out.push_str(&format!("&#{};", code)),
                Form::Hex => out.push_str(&format!("&#x{:x};", code)),
                _ => out.push_str(&format!("&#x{:X};", code)),
            }
        }
        Kind::StrLit(q, aq) => match f {
            Form::Raw => {
                if c == q || c == '\\' {
                    out.push('\\');
                    out.push(c);
                } else if Some(c) == aq {
                    // the attribute quote cannot stand raw inside the attribute
                    out.push_str(&format!("\\x{:02x}", code));
                } else {
                    out.push(c);
                }
            }
            Form::EscX => out.push_str(&format!("\\x{:02X}", code)),
            Form::EscU => out.push_str(&format!("\\u{:04x}", code)),
            _ => match c {
                '\n' => out.push_str("\\n"),
                '\r' => out.push_str("\\r"),
                '\t' => out.push_str("\\t"),
                '\u{8}' => out.push_str("\\b"),
                '\u{c}' => out.push_str("\\f"),
                '\u{b}' => out.push_str("\\v"),
                '\0' => out.push_str("\\0"),
                c if Some(c) == aq => out.push_str(&format!("\\x{:02x}", code)),
                c => {
                    out.push('\\');
                    out.push(c)
                }
            },
        },
        Kind::Name | Kind::Ident => out.push(c),
    }
}

pub fn spelling(p: &Probe) -> String {
    if let Some(v) = &p.verbatim {
        return v.clone();
    }
    let kind = p.ctx.kind();
    let mut s = String::new();
    for (i, (c, f)) in p.chars.iter().enumerate() {
        // in the mixed contexts a binding follows the literal
        let after = if matches!(p.ctx, Ctx::MixedAttr | Ctx::MixedText) { Some('{') } else { None };
        spell(kind, *c, *f, p.chars.get(i + 1).map(|x| x.0).or(after), &mut s);
    }
    s
}

pub struct Built {
    pub files: Vec<(String, String)>,
    pub scripts: Vec<(String, String)>,
    pub names: Vec<Vec<u16>>,
    pub members: Vec<Vec<u16>>,
    pub locators: Vec<String>,
    /// expected string per probe
    pub expected: Vec<String>,
}

fn units(s: &str) -> Vec<u16> {
    s.encode_utf16().collect()
}

/// One template (plus companion files) holding all probes; probe i is top-level element i.
pub fn build(probes: &[Probe]) -> Built {
    let mut header = String::new();
    let mut body = String::new();
    let mut b = Built { files: vec![], scripts: vec![], names: vec![], members: vec![], locators: vec![], expected: vec![] };
    for (i, p) in probes.iter().enumerate() {
        let s = spelling(p);
        let pl = p.payload();
        let n = format!("data:n=\"{}\"", i);
        let mut expected = pl.clone();
        let loc;
        match p.ctx {
            Ctx::Text => {
                body.push_str(&format!("<v {}>{}</v>", n, s));
                loc = "text";
            }
            Ctx::MixedText => {
                body.push_str(&format!("<v {}>{}{{{{n1}}}}</v>", n, s));
                expected.push('1');
                loc = "text";
            }
            Ctx::AttrDq => {
                body.push_str(&format!("<v {} a=\"{}\"/>", n, s));
                loc = "r";
            }
            Ctx::AttrSq => {
                body.push_str(&format!("<v {} a='{}'/>", n, s));
                loc = "r";
            }
            Ctx::MixedAttr => {
                body.push_str(&format!("<v {} a=\"{}{{{{n1}}}}\"/>", n, s));
                expected.push('1');
                loc = "r";
            }
            Ctx::Class => {
                body.push_str(&format!("<v {} class=\"{}\"/>", n, s));
                loc = "c";
            }
            Ctx::Style => {
                body.push_str(&format!("<v {} style=\"{}\"/>", n, s));
                loc = "y";
            }
            Ctx::Id => {
                body.push_str(&format!("<v {} id=\"{}\"/>", n, s));
                loc = "i";
            }
            Ctx::SlotAttr => {
                body.push_str(&format!("<v {} slot=\"{}\"/>", n, s));
                loc = "slot";
            }
            Ctx::DataVal => {
                body.push_str(&format!("<v {} data:k=\"{}\"/>", n, s));
                loc = "d";
            }
            Ctx::MarkVal => {
                body.push_str(&format!("<v {} mark:k=\"{}\"/>", n, s));
                loc = "m";
            }
            Ctx::EventVal => {
                body.push_str(&format!("<v {} bind:tap=\"{}\"/>", n, s));
                loc = "v";
            }
            Ctx::ExprText => {
                body.push_str(&format!("<v {}>{{{{'{}'}}}}</v>", n, s));
                loc = "text";
            }
            Ctx::ExprTextDq => {
                body.push_str(&format!("<v {}>{{{{\"{}\"}}}}</v>", n, s));
                loc = "text";
            }
            Ctx::ExprAttr => {
                body.push_str(&format!("<v {} a=\"{{{{'{}'}}}}\"/>", n, s));
                loc = "r";
            }
            Ctx::ExprIndex => {
                // the literal is a dynamic member name: reads data o[payload]
                body.push_str(&format!("<v {} a=\"{{{{o['{}']}}}}\"/>", n, s));
                b.members.push(units(&pl));
                expected = "ok".into();
                loc = "r";
            }
            Ctx::SlotName => {
                body.push_str(&format!("<slot {} name=\"{}\"/>", n, s));
                loc = "sname";
            }
            Ctx::TmplName => {
                header.push_str(&format!("<template name=\"{}\">h{}</template>", s, i));
                body.push_str(&format!("<v {}><template is=\"{{{{names[{}]}}}}\"/></v>", n, b.names.len()));
                b.names.push(units(&pl));
                expected = format!("h{}", i);
                loc = "text";
            }
            Ctx::TmplIsStatic => {
                // defined in an imported file under the payload name (given to the reference as data), used statically
                header.push_str(&format!("<template name=\"{}\">s{}</template>", s, i));
                body.push_str(&format!("<v {}><template is=\"{}\"/></v>", n, s));
                expected = format!("s{}", i);
                loc = "text";
            }
            Ctx::IncludePath => {
                b.files.push((pl.clone(), format!("i{}", i)));
                body.push_str(&format!("<v {}><include src=\"{}\"/></v>", n, s));
                expected = format!("i{}", i);
                loc = "text";
            }
            Ctx::ImportPath => {
                b.files.push((pl.clone(), format!("<template name=\"t{}\">m{}</template>", i, i)));
                header.push_str(&format!("<import src=\"{}\"/>", s));
                body.push_str(&format!("<v {}><template is=\"t{}\"/></v>", n, i));
                expected = format!("m{}", i);
                loc = "text";
            }
            Ctx::WxsPath => {
                b.scripts.push((pl.clone(), format!("module.exports = {{ k: 'w{}' }}", i)));
                header.push_str(&format!("<wxs module=\"m{}\" src=\"{}\"/>", i, s));
                body.push_str(&format!("<v {}>{{{{m{}.k}}}}</v>", n, i));
                expected = format!("w{}", i);
                loc = "text";
            }
            Ctx::NameData => {
                body.push_str(&format!("<v {} data:{}=\"1\"/>", n, s));
                loc = "dk";
            }
            Ctx::NameMark => {
                body.push_str(&format!("<v {} mark:{}=\"1\"/>", n, s));
                loc = "mk";
            }
            Ctx::NameEvent => {
                body.push_str(&format!("<v {} bind:{}=\"h\"/>", n, s));
                loc = "vk";
            }
            Ctx::NamePlain => {
                body.push_str(&format!("<v {} {}=\"1\"/>", n, s));
                loc = "rk";
            }
            Ctx::NameGeneric => {
                body.push_str(&format!("<v {} generic:{}=\"g\"/>", n, s));
                loc = "gk";
            }
            Ctx::ObjKey => {
                body.push_str(&format!("<v {} a=\"{{{{ {{{}: 1}} }}}}\"/>", n, s));
                loc = "objk";
            }
            Ctx::Member => {
                body.push_str(&format!("<v {} a=\"{{{{o.{}}}}}\"/>", n, s));
                b.members.push(units(&pl));
                expected = "ok".into();
                loc = "r";
            }
            Ctx::ModuleName => {
                header.push_str(&format!("<wxs module=\"{}\">module.exports = {{ k: 'n{}' }}</wxs>", s, i));
                body.push_str(&format!("<v {}>{{{{{}.k}}}}</v>", n, s));
                expected = format!("n{}", i);
                loc = "text";
            }
        }
        b.locators.push(loc.to_string());
        b.expected.push(expected);
    }
    b.files.insert(0, ("p".to_string(), format!("{}{}", header, body)));
    b
}

#[derive(Clone, Debug)]
pub enum Obs {
    Str(Vec<u16>),
    Other(String),
}

pub enum ChunkResult {
    Per(Vec<Obs>),
    /// the whole chunk failed before any string could be observed
    Whole(String),
}

fn run_chunk(w: &mut Worker, probes: &[Probe]) -> Result<ChunkResult, String> {
    let b = build(probes);
    let (group, _diags) = match compile_sources(&b.files, &b.scripts, false) {
        Ok(x) => x,
        Err(p) => return Ok(ChunkResult::Whole(format!("compiler panicked: {}", p))),
    };
    let bundle = match std::panic::catch_unwind(std::panic::AssertUnwindSafe(|| group.get_tmpl_gen_object_groups())) {
        Ok(Ok(s)) => s,
        Ok(Err(e)) => return Ok(ChunkResult::Whole(format!("code generation failed: {}", e.message))),
        Err(p) => return Ok(ChunkResult::Whole(format!("code generator panicked: {}", crate::compile::panic_message(p)))),
    };
    let resp = w.request(&json!({"kind":"strings","bundle":bundle,"entry":"p","names":b.names,"members":b.members,"locators":b.locators})).map_err(|e| e.0)?;
    if let Some(e) = resp.get("error") {
        return Ok(ChunkResult::Whole(format!("generated code does not load: {}", crate::util::truncate(e.as_str().unwrap_or(""), 300))));
    }
    if let Some(e) = resp.get("createThrew") {
        return Ok(ChunkResult::Whole(format!("creation threw: {}", crate::util::truncate(e.as_str().unwrap_or(""), 300))));
    }
    let rs = resp["results"].as_array().cloned().unwrap_or_default();
    if rs.len() != probes.len() {
        return Ok(ChunkResult::Whole(format!("{} probes but {} results", probes.len(), rs.len())));
    }
    Ok(ChunkResult::Per(
        rs.iter()
            .map(|r| match r.get("u").and_then(|u| u.as_array()) {
                Some(a) => Obs::Str(a.iter().map(|x| x.as_u64().unwrap_or(0) as u16).collect()),
                None => Obs::Other(r.get("other").and_then(|x| x.as_str()).unwrap_or("?").to_string()),
            })
            .collect(),
    ))
}

fn show_units(u: &[u16]) -> String {
    let mut s = String::new();
    for r in char::decode_utf16(u.iter().copied()) {
        match r {
            Ok(c) if (' '..='~').contains(&c) && c != '\\' => s.push(c),
            Ok(c) => s.push_str(&format!("\\u{{{:x}}}", c as u32)),
            Err(e) => s.push_str(&format!("\\u{{{:x}}}", e.unpaired_surrogate())),
        }
    }
    s
}

fn char_class(c: char) -> &'static str {
    let u = c as u32;
    match u {
        0 => "NUL",
        1..=0x1f | 0x7f => "control",
        0x22 | 0x27 | 0x5c | 0x26 | 0x3c | 0x3e | 0x7b | 0x7d | 0x60 => "syntax-char",
        0x20..=0x7e => "ascii",
        0x80..=0x9f => "c1-control",
        0x2028 | 0x2029 => "line-separator",
        0xfeff => "bom",
        0xa0..=0xff => "latin1",
        0x100..=0xffff => "bmp",
        _ => "astral",
    }
}

fn probe_failure(p: &Probe, exp: &str, obs: &Obs, alone: bool) -> Failure {
    let cls = p.chars.iter().map(|(c, _)| char_class(*c)).filter(|c| *c != "ascii").next().unwrap_or("ascii");
    let forms: Vec<String> = p.chars.iter().filter(|(_, f)| *f != Form::Raw).map(|(_, f)| format!("{:?}", f)).collect();
    let got = match obs {
        Obs::Str(u) => format!("\"{}\"", show_units(u)),
        Obs::Other(s) => format!("<{}>", s),
    };
    let check = C12;
    Failure {
        sig: format!("C12|{}|{}|{}", p.ctx.label(), if forms.is_empty() { "Raw".to_string() } else { forms[0].clone() }, cls),
        tag: None,
        what: format!(
            "{} context, source spelling {:?}: the runtime received {} instead of \"{}\"{}",
            p.ctx.label(),
            crate::util::truncate(&spelling(p), 120),
            crate::util::truncate(&got, 200),
            show_units(&units(exp)),
            if alone { "" } else { " (only together with the other probes of its template)" }
        ),
        detail: json!({"replay_case": check.case_json(&Case { probes: vec![p.clone()] }), "expected_units": units(exp)}),
    }
}

/// evaluate probes; whole-chunk failures are bisected down to the probes that cause them
fn eval_probes(w: &mut Worker, probes: &[Probe], out: &mut Outcome, depth: u32) -> Result<(), String> {
    if probes.is_empty() {
        return Ok(());
    }
    let b = build(probes);
    match run_chunk(w, probes)? {
        ChunkResult::Whole(msg) => {
            if probes.len() == 1 {
                let p = &probes[0];
                let cls = p.chars.iter().map(|(c, _)| char_class(*c)).filter(|c| *c != "ascii").next().unwrap_or("ascii");
                let check = C12;
                out.failures.push(Failure {
                    sig: format!("C12|{}|whole|{}|{}", p.ctx.label(), cls, crate::util::truncate(&msg, 40)),
                    tag: None,
                    what: format!("{} context, source spelling {:?}: {}", p.ctx.label(), crate::util::truncate(&spelling(p), 120), msg),
                    detail: json!({"replay_case": check.case_json(&Case { probes: vec![p.clone()] })}),
                });
            } else {
                let mid = probes.len() / 2;
                eval_probes(w, &probes[..mid], out, depth + 1)?;
                eval_probes(w, &probes[mid..], out, depth + 1)?;
            }
        }
        ChunkResult::Per(obs) => {
            for (i, o) in obs.iter().enumerate() {
                let exp = &b.expected[i];
                let ok = matches!(o, Obs::Str(u) if *u == units(exp));
                out.units += 1;
                if !ok {
                    if out.failures.len() >= 6 {
                        continue;
                    }
                    // confirm alone (a broken neighbour can desynchronise the template)
                    if probes.len() > 1 {
                        match run_chunk(w, &probes[i..=i])? {
                            ChunkResult::Per(o1) => {
                                let ok1 = matches!(&o1[0], Obs::Str(u) if *u == units(exp));
                                if ok1 {
                                    // passes alone: find the neighbour by bisection
                                    if depth < 12 && probes.len() > 2 {
                                        let mid = probes.len() / 2;
                                        let mut sub = Outcome::default();
                                        eval_probes(w, &probes[..mid], &mut sub, depth + 1)?;
                                        eval_probes(w, &probes[mid..], &mut sub, depth + 1)?;
                                        if sub.failures.is_empty() {
                                            out.failures.push(probe_failure(&probes[i], exp, o, false));
                                        } else {
                                            out.failures.extend(sub.failures);
                                        }
                                        return Ok(());
                                    }
                                    out.failures.push(probe_failure(&probes[i], exp, o, false));
                                } else {
                                    out.failures.push(probe_failure(&probes[i], exp, &o1[0], true));
                                }
                            }
                            ChunkResult::Whole(msg) => {
                                let mut sub = Outcome::default();
                                eval_probes(w, &probes[i..=i], &mut sub, depth + 1)?;
                                out.failures.extend(sub.failures);
                                let _ = msg;
                            }
                        }
                    } else {
                        out.failures.push(probe_failure(&probes[i], exp, o, true));
                    }
                }
            }
        }
    }
    Ok(())
}

#[derive(Clone, Debug, Serialize, Deserialize)]
pub struct Case {
    pub probes: Vec<Probe>,
}

pub struct C12;

const FORMS_STATIC: [Form; 4] = [Form::Raw, Form::Dec, Form::Hex, Form::HexUpper];
const FORMS_STR: [Form; 4] = [Form::Raw, Form::EscX, Form::EscU, Form::EscSimple];

fn forms_of(ctx: Ctx) -> &'static [Form] {
    match ctx.kind() {
        Kind::StaticText | Kind::StaticAttr(_) | Kind::Path => &FORMS_STATIC,
        Kind::StrLit(..) => &FORMS_STR,
        _ => &[Form::Raw],
    }
}

pub const SUCCESSORS: [Option<char>; 10] = [None, Some('0'), Some('7'), Some('a'), Some('F'), Some('"'), Some('\''), Some('\\'), Some('{'), Some('}')];

fn exhaustive_probe(ctx: Ctx, form: Form, c: char, succ: Option<char>) -> Option<Probe> {
    let mut chars = vec![('x', Form::Raw), (c, form)];
    if let Some(s) = succ {
        chars.push((s, Form::Raw));
    }
    chars.push(('y', Form::Raw));
    let p = Probe { ctx, chars, verbatim: None };
    // the forced form must actually apply to the character (else it duplicates another form)
    if form != Form::Raw || true {
        if applicable(&p) {
            return Some(p);
        }
    }
    None
}

fn random_probe() -> BoxedStrategy<Probe> {
    let ch = prop_oneof![
        4 => (0x20u32..0x7f).prop_map(|u| char::from_u32(u).unwrap()),
        2 => prop_oneof![Just('"'), Just('\''), Just('\\'), Just('&'), Just('<'), Just('>'), Just('{'), Just('}'), Just('`'), Just('$'), Just('#'), Just(';'), Just('/'), Just('.'), Just('-'), Just('_'), Just(' ')],
        2 => (0u32..0x20).prop_map(|u| char::from_u32(u).unwrap()),
        1 => prop_oneof![Just('\u{7f}'), Just('\u{80}'), Just('\u{9f}'), Just('\u{a0}'), Just('\u{ad}'), Just('\u{2028}'), Just('\u{2029}'), Just('\u{feff}'), Just('\u{fffd}'), Just('\u{ffff}'), Just('\u{d7ff}'), Just('\u{e000}'), Just('\u{10000}'), Just('\u{10ffff}'), Just('\u{1f600}')],
        1 => (0xa0u32..0x800).prop_map(|u| char::from_u32(u).unwrap()),
        1 => (0x800u32..0xd800).prop_map(|u| char::from_u32(u).unwrap()),
        1 => (0x10000u32..0x110000).prop_map(|u| char::from_u32(u).unwrap()),
        1 => proptest::char::range('0', '9'),
        1 => proptest::char::range('a', 'f'),
    ];
    (0..Ctx::ALL.len(), proptest::collection::vec((ch, 0usize..4), 1..40))
        .prop_map(|(ci, cs)| {
            let ctx = Ctx::ALL[ci];
            let forms = forms_of(ctx);
            let mut chars: Vec<(char, Form)> = cs.into_iter().map(|(c, f)| (c, forms[f % forms.len()])).collect();
            // repair towards the context's domain (construction over rejection): drop characters the context cannot hold
            let kind = ctx.kind();
            chars.retain(|(c, _)| match kind {
                Kind::Name => name_safe(*c),
                Kind::Ident => ident_safe(*c),
                Kind::Path => *c != '/',
                _ => true,
            });
            for (c, f) in chars.iter_mut() {
                let one = Probe { ctx, chars: vec![('x', Form::Raw), (*c, *f)], verbatim: None };
                if !applicable(&one) {
                    *f = Form::Raw;
                }
            }
            if matches!(kind, Kind::Ident | Kind::Name) {
                chars.insert(0, ('x', Form::Raw));
            }
            // never `{{`
            let mut i = 1;
            while i < chars.len() {
                if chars[i].0 == '{' && chars[i - 1].0 == '{' {
                    chars.remove(i);
                } else {
                    i += 1;
                }
            }
            if chars.is_empty() {
                chars.push(('x', Form::Raw));
            }
            Probe { ctx, chars, verbatim: None }
        })
        .boxed()
}

impl PropCheck for C12 {
    type Case = Case;

    fn strategy(&self) -> BoxedStrategy<Case> {
        proptest::collection::vec(random_probe(), 1..24).prop_map(|probes| Case { probes }).boxed()
    }

    fn eval(&self, w: Option<&mut Worker>, cases: &[Case]) -> Result<Vec<Outcome>, String> {
        let w = w.ok_or("no worker")?;
        let mut outs = vec![];
        for c in cases {
            let mut out = Outcome::default();
            // keep the probes in their context's domain; duplicate template / module / path names would shadow each other
            let mut seen = std::collections::HashSet::new();
            let mut probes = vec![];
            for p in &c.probes {
                if !applicable(p) {
                    out.excluded += 1;
                    continue;
                }
                let needs_unique = matches!(p.ctx, Ctx::TmplName | Ctx::TmplIsStatic | Ctx::IncludePath | Ctx::ImportPath | Ctx::WxsPath | Ctx::ModuleName);
                if needs_unique && !seen.insert(p.payload()) {
                    out.excluded += 1;
                    continue;
                }
                if needs_unique && (p.payload() == "p" || p.payload().starts_with('m') || p.payload().starts_with('t')) {
                    out.excluded += 1;
                    continue;
                }
                probes.push(p.clone());
            }
            eval_probes(w, &probes, &mut out, 0)?;
            let mut nt = false;
            for p in &probes {
                out.labels.push(format!("ctx:{}", p.ctx.label()));
                for (c, f) in &p.chars {
                    let cls = char_class(*c);
                    if cls != "ascii" {
                        nt = true;
                        out.labels.push(format!("char:{}", cls));
                    }
                    if *f != Form::Raw {
                        out.labels.push(format!("form:{:?}", f));
                    }
                }
            }
            out.labels.sort();
            out.labels.dedup();
            if nt {
                let key: String = probes.iter().map(|p| format!("{:?}{}", p.ctx, spelling(p))).collect();
                out.nt.push(fnv64(key.as_bytes()));
            }
            if let Some(p) = probes.iter().find(|p| p.chars.iter().any(|(c, _)| char_class(*c) != "ascii")) {
                out.sample = Some(json!({"context": p.ctx.label(), "source_spelling": crate::util::truncate(&spelling(p), 100), "payload_units": units(&p.payload()).iter().take(24).collect::<Vec<_>>(), "probes_in_case": probes.len()}));
            }
            outs.push(out);
        }
        Ok(outs)
    }

    fn case_json(&self, case: &Case) -> Value {
        let b = build(&case.probes);
        json!({"case": serde_json::to_value(case).unwrap(), "source": b.files.iter().take(3).map(|(p, s)| json!([p, crate::util::truncate(s, 2000)])).collect::<Vec<_>>(), "expected_units": b.expected.iter().take(8).map(|e| units(e)).collect::<Vec<_>>()})
    }

    fn case_from_json(&self, v: &Value) -> Result<Case, String> {
        serde_json::from_value(v["case"].clone()).map_err(|e| e.to_string())
    }
}

fn code_points(tier: Tier, seed: u64) -> Vec<char> {
    match tier {
        Tier::Thorough => (0u32..0x110000).filter_map(char::from_u32).collect(),
        Tier::Quick => {
            let mut v: Vec<u32> = (0u32..0x800).collect();
            v.extend([0x2028, 0x2029, 0xfeff, 0xfffd, 0xfffe, 0xffff, 0xd7ff, 0xe000, 0x10000, 0x1ffff, 0x10fffe, 0x10ffff, 0x1f600, 0x3000, 0x200b, 0x200d, 0x202e, 0x2000, 0x180e, 0x1680, 0x85]);
            // non-characters
            v.extend(0xfdd0u32..=0xfdef);
            for plane in 1u32..=16 {
                v.push(plane * 0x10000 + 0xfffe);
                v.push(plane * 0x10000 + 0xffff);
            }
            let mut rng = crate::util::Rng::new(crate::util::splitmix64(seed ^ 0xC12));
            for _ in 0..1500 {
                v.push(0x800 + rng.below(0x10000 - 0x800) as u32);
            }
            for _ in 0..1500 {
                v.push(0x10000 + rng.below(0x100000) as u32);
            }
            v.sort();
            v.dedup();
            v.into_iter().filter_map(char::from_u32).collect()
        }
    }
}

pub fn run(tier: Tier, seed: u64, findings: &Findings) -> i32 {
    let started = Instant::now();
    let cfg = RunCfg { prop: "C12", tier, seed };
    let check = C12;
    let mut report = super::run_regress(&check, &cfg, findings);
    // exhaustive part, streamed in blocks of code points (the thorough tier has ~1.7e8 probes: never all in memory)
    let cps = code_points(tier, seed);
    let full_succ_below: u32 = tier.pick(0x800, 0x3000);
    let key = |p: &Probe| (p.ctx as u8, p.verbatim.is_some(), p.chars.get(1).map(|x| x.1 as u8).unwrap_or(0), p.chars.len(), p.chars.get(2).map(|x| x.0 as u32).unwrap_or(0));
    let chunk_cases = |mut probes: Vec<Probe>| -> Vec<Case> {
        // unique-name contexts must not repeat a payload inside one template: group by (ctx, form, successor) so that
        // one template holds different code points
        probes.sort_by_key(key);
        let mut cases: Vec<Case> = vec![];
        let mut i = 0;
        while i < probes.len() {
            let k = key(&probes[i]);
            let mut j = i;
            while j < probes.len() && key(&probes[j]) == k && j - i < 400 {
                j += 1;
            }
            cases.push(Case { probes: probes[i..j].to_vec() });
            i = j;
        }
        cases
    };
    let mut total_probes = 0u64;
    for block in cps.chunks(tier.pick(2048, 8192)) {
        let mut probes: Vec<Probe> = vec![];
        for &c in block {
            for ctx in Ctx::ALL {
                for &form in forms_of(ctx) {
                    let succs: Vec<Option<char>> = if (c as u32) < full_succ_below || matches!(c as u32, 0x2028 | 0x2029 | 0xfeff) {
                        SUCCESSORS.to_vec()
                    } else {
                        // one rotating successor besides none
                        vec![None, SUCCESSORS[1 + (c as usize) % (SUCCESSORS.len() - 1)]]
                    };
                    for s in succs {
                        if let Some(p) = exhaustive_probe(ctx, form, c, s) {
                            probes.push(p);
                        }
                    }
                }
            }
        }
        total_probes += probes.len() as u64;
        report.merge(engine::run_explicit(&check, &cfg, chunk_cases(probes), 1, 16, findings));
        if !report.violations.is_empty() || !report.errors.is_empty() {
            break;
        }
    }
    // named entities against Python's html5 table
    let table_path = format!("{}/data/html5_entities.json", crate::jsworker::verif_root());
    let mut named = 0;
    let mut probes: Vec<Probe> = vec![];
    if let Ok(text) = std::fs::read_to_string(&table_path) {
        if let Ok(Value::Object(m)) = serde_json::from_str::<Value>(&text) {
            for (name, val) in m {
                let Some(val) = val.as_str() else { continue };
                for ctx in [Ctx::Text, Ctx::AttrDq] {
                    let chars: Vec<(char, Form)> = format!("x{}y", val).chars().map(|c| (c, Form::Raw)).collect();
                    if chars.windows(2).any(|w| w[0].0 == '{' && w[1].0 == '{') {
                        continue;
                    }
                    probes.push(Probe { ctx, chars, verbatim: Some(format!("x&{}y", name)) });
                    named += 1;
                }
            }
        }
    } else {
        report.errors.push(format!("cannot read {}", table_path));
    }
    total_probes += probes.len() as u64;
    report.merge(engine::run_explicit(&check, &cfg, chunk_cases(probes), 1, 16, findings));
    report.extra.insert("exhaustive_probes".into(), json!(total_probes));
    report.extra.insert("code_points".into(), json!(cps.len()));
    report.extra.insert("named_entity_probes".into(), json!(named));
    let cases = tier.pick(3000, 200_000);
    report.merge(engine::run_generated(&check, &cfg, cases, 4, 16, findings, 0));
    engine::finish(
        Finish {
            cfg,
            report,
            rule: "a case (one template of up to 400 probes, or a generated set of random-string probes) counts when it holds a character outside printable ASCII; distinct by (contexts, source spellings). compared_units = strings compared at the runtime boundary.".into(),
            assumptions: vec![
                "the stub DOM hands the strings to the harness as UTF-16 code units (no JSON string round trip)".into(),
                "`{{` is never part of a static string; a NUL escape before a digit, `\\u{..}` and lone surrogates are outside the supported grammar (DESIGN Appendix B)".into(),
                "named entities: Python 3's html.entities.html5 table is the reference for what `&name;` denotes".into(),
                "name contexts hold the documented name alphabet (ASCII letters, digits, `_`, `-`, `.`); identifiers ASCII only (the expression grammar)".into(),
            ],
            started,
            exhaustive: tier == Tier::Thorough,
        },
        findings,
    )
}

pub fn replay(v: &Value, path: &str, findings: &Findings) -> i32 {
    super::replay_generic(&C12, "C12", v, path, findings)
}
