//! C01 — totality: no panic, abort, hang or runaway allocation, for any input text, path and option set.
//! Every input runs in the isolation child (engine I); C15's location-validity part reuses the same stream.

use crate::engine::{self, Failure, Finish, Outcome, PropCheck, RunCfg, Tier};
use crate::findings::Findings;
use crate::gen;
use crate::gen::soup::{self, Mutation};
use crate::isolate::{Iso, IsoOutcome};
use crate::jsworker::Worker;
use crate::model::wxml::Group;
use crate::util::fnv64;
use proptest::prelude::*;
use serde::{Deserialize, Serialize};
use serde_json::{json, Value};
use std::cell::RefCell;
use std::time::Instant;

#[derive(Clone, Debug, Serialize, Deserialize)]
pub enum Input {
    TmplSoup(String),
    TmplMutated { group: Group, style: u64, mutations: Vec<Mutation> },
    SheetSoup(String),
    SheetMutated { seed: u16, mutations: Vec<Mutation> },
    /// a sheet of the grammar-based stylesheet generator (imports, :host rules, every prelude kind), printed in varied
    /// concrete syntax and span-mutated
    SheetGenerated { sheet: crate::model::css::Sheet, style: u64, mutations: Vec<Mutation> },
    /// entity-like sequences (`&` + up to 5 characters of mixed classes + optional `;`) in text and attribute values
    EntitySoup(Vec<Vec<u8>>),
    /// one construct repeated / nested n <= 64 times (the property's depth bound): chains and nests of every bracket,
    /// operator, element and at-rule kind
    Ramp { shape: u8, n: u8, op: u8 },
}

pub const ENTITY_PALETTE: &[&str] = &["a", "m", "p", "Z", "q", "0", "9", "#", "x", "X", "é", "中", "😀", ";", "&", " ", "l", "t", "g", "1", "F", "\u{a0}", "-"];
pub const RAMP_OPS: &[&str] = &["??", "+", "-", "*", "||", "&&", "|", "^", "&", "==", "===", "<", ">>>", "<<", "%", "/", " instanceof "];

pub fn ramp_text(shape: u8, n: usize, op: u8) -> (char, String) {
    let n = n.clamp(1, 64);
    let o = RAMP_OPS[op as usize % RAMP_OPS.len()];
    let rep = |s: &str| s.repeat(n);
    match shape % 22 {
        // nested spreads / literals inside literals (update-path analysis of combined literals)
        18 => ('t', format!("{{{{ {}a{} }}}}", rep("{..."), rep("}"))),
        19 => ('t', format!("{{{{ {}a{} }}}}", rep("[..."), rep("]"))),
        20 => ('t', format!("<v a=\"{{{{ {}a{} }}}}\"/>", rep("{x:[...{y:"), rep("}]}"))),
        21 => ('t', format!("<block wx:for=\"{{{{ {}a{} }}}}\">{{{{item}}}}</block>", rep("[...(a ? "), rep(" : [])]"))),
        0 => ('t', format!("{}x{}", rep("<a>"), rep("</a>"))),
        1 => ('t', format!("{{{{ {}a{} }}}}", rep("("), rep(")"))),
        2 => ('t', format!("{{{{ {}a{} }}}}", rep("["), rep("]"))),
        3 => ('t', format!("{{{{ {}a{} }}}}", rep("{a:"), rep("}"))),
        4 => ('t', format!("{{{{ {}a{} }}}}", rep("a?"), rep(":a"))),
        5 => ('t', format!("{{{{ {}a }}}}", rep(["!", "~", "- ", "+ ", "typeof ", "void "][op as usize % 6]))),
        6 => ('t', format!("<v a=\"{{{{ a{} }}}}\"/>", rep(&format!(" {} a", o)))),
        7 => ('t', format!("{{{{ a{} }}}}", rep(".b"))),
        8 => ('t', format!("{{{{ a{} }}}}", rep("(a)"))),
        9 => ('t', format!("{{{{ {}a{} }}}}", rep("a["), rep("]"))),
        10 => ('t', format!("{}x{}", rep("<block wx:for=\"{{a}}\" wx:if=\"{{a}}\">"), rep("</block>"))),
        11 => ('t', rep("{{a}}x")),
        12 => ('t', format!("<template is=\"t\" data=\"{{{{ {} }}}}\"/>", rep("...a, b: a ?? b,"))),
        13 => ('s', format!("{}.a{{}}{}", rep("@media (a){"), rep("}"))),
        14 => ('s', format!(".a{}{{}}", format!("{}.b{}", rep(":not("), rep(")")))),
        15 => ('s', format!(".a{{w:{}1rpx{}}}", rep("calc(1px + ("), rep("))"))),
        16 => ('s', format!(".a{{w:calc(1rpx{})}}", rep(" + 1rpx"))),
        _ => ('s', format!("{}{}", rep("@import 'a' layer(x) supports(a:b) screen;"), rep(":host{a:b}"))),
    }
}

#[derive(Clone, Debug, Serialize, Deserialize)]
pub struct Case {
    pub input: Input,
    pub path: u8,
    pub opts: u16,
    pub dev: bool,
}

pub const PATHS: &[&str] = &["a", "a/b", "../x", "", "q'\"\\\n</script>", "中/😀", "a//b/", "/abs/p.wxml", "\u{2028}"];

pub const SHEET_SEEDS: &[&str] = &[
    " /* test */ .a { } ",
    "#a.b   [g] .c.d g:e(.f) { key: .v f(.c) d.e; }",
    "#a.b[1rpx]  (7.5rpx){ key: 7.5rpx f(7.5rpx); }",
    "@a 75rpx; .b {} @c (75rpx .d) { 75rpx .e } .f {}",
    "@media (width: 1rpx) { .b [2rpx] { key: 3rpx .a; } }",
    ":host { color: red; } :host(.a) { color: red; } :host .a { color: red; } .a { color: green }",
    "@media (width: 1px) { @supports (color: red) { .a { color: red; } :host { color: pink; } .b { color: green; } } }",
    "@import './a\\\\b*?'",
    "@import './a' (min-width: 10px); .a { }",
    "@import './a' layer(a) supports(color: red) print and (min-width: 10px);",
    ".a {} @import './a';",
    ".a { margin: 10px 20rpx 30px calc(10px + 20px / 2); padding: calc(10rpx  *  2  +  30px); }",
    "@font-face { font-family: x; src: url(a.woff); unicode-range: U+0025-00FF, u+4?? } @keyframes k { from { left: 0 } 50% { left: 1rpx } to { left: 2rpx } }",
    ".a:not(:is(.b .c)) > .d ~ .e + .f::slotted(.g) :nth-child(2n+1 of .h) { z-index: 2147483647; width: calc(1px - (3px + 4px)); --x: { a: b }; }",
    "@layer base.theme { .a .b { color: #fff } } @container c (min-width: 1rpx) { .a .b {} } @scope (.a) to (.b) { .c {} }",
    "@charset \"utf-8\"; @namespace svg url(http://x); @import url(foo.css) layer(x.y) supports(display: grid) screen;",
];

pub fn sheet_opts(i: u16) -> Value {
    let prefix = [Value::Null, json!(""), json!("p"), json!("a-b"), json!("组件")][(i % 5) as usize].clone();
    let sign = if (i / 5) % 2 == 0 { Value::Null } else { json!("S*/ /*") };
    let import_sign = if (i / 10) % 2 == 0 { Value::Null } else { json!("IMP") };
    let convert_host = (i / 20) % 2 == 1;
    let host_is = if (i / 40) % 2 == 0 { Value::Null } else { json!("h\"ost") };
    let ratio = [json!(750.0), json!(1.0), json!(1e-30), json!(1e30), json!(0.0), json!(-1.0), json!("NaN"), json!("inf")][((i / 80) % 8) as usize].clone();
    json!({"class_prefix": prefix, "class_prefix_sign": sign, "import_sign": import_sign, "convert_host": convert_host, "host_is": host_is, "rpx_ratio": ratio})
}

pub fn materialise(c: &Case) -> (char, String) {
    match &c.input {
        Input::TmplSoup(s) => ('t', s.clone()),
        Input::TmplMutated { group, style, mutations } => {
            let src = crate::compile::print_group(group, *style);
            ('t', soup::apply(&src[0].1, mutations, soup::WXML_ALPHABET))
        }
        Input::SheetSoup(s) => ('s', s.clone()),
        Input::SheetMutated { seed, mutations } => ('s', soup::apply(SHEET_SEEDS[*seed as usize % SHEET_SEEDS.len()], mutations, soup::WXSS_ALPHABET)),
        Input::SheetGenerated { sheet, style, mutations } => ('s', soup::apply(&crate::model::css::print(sheet, *style).text, mutations, soup::WXSS_ALPHABET)),
        Input::EntitySoup(items) => {
            let mut t = String::from("<view title=\"");
            for (i, it) in items.iter().enumerate() {
                if i == items.len() / 2 {
                    t.push_str("\">");
                }
                t.push('&');
                for c in it {
                    t.push_str(ENTITY_PALETTE[*c as usize % ENTITY_PALETTE.len()]);
                }
                if it.len() % 2 == 0 {
                    t.push(';');
                }
                t.push(' ');
            }
            if items.len() < 2 {
                t.push_str("\">");
            }
            t.push_str("</view>");
            ('t', t)
        }
        Input::Ramp { shape, n, op } => ramp_text(*shape, *n as usize, *op),
    }
}

pub fn request_of(c: &Case) -> Value {
    let (k, mut text) = materialise(c);
    if text.len() > 8192 {
        let mut n = 8192;
        while !text.is_char_boundary(n) {
            n -= 1;
        }
        text.truncate(n);
    }
    if k == 't' {
        json!({"k":"t","path":PATHS[c.path as usize % PATHS.len()],"text":text,"dev":c.dev,"extra": if c.opts % 3 == 0 { Value::Null } else { json!("var Z1=1;") }, "script": if c.opts % 2 == 0 { Value::Null } else { json!("module.exports={}") }})
    } else {
        json!({"k":"s","path":PATHS[c.path as usize % PATHS.len()],"text":text,"opts":sheet_opts(c.opts)})
    }
}

thread_local! {
    static ISO: RefCell<Option<Iso>> = RefCell::new(None);
}

pub fn with_iso<R>(f: impl FnOnce(&mut Iso) -> R) -> Result<R, String> {
    ISO.with(|cell| {
        let mut slot = cell.borrow_mut();
        let need = match slot.as_mut() {
            Some(i) => !i.alive(),
            None => true,
        };
        if need {
            *slot = Some(Iso::spawn()?);
        }
        Ok(f(slot.as_mut().unwrap()))
    })
}

pub fn reset_iso() {
    ISO.with(|cell| {
        *cell.borrow_mut() = None;
    });
}

pub struct C01 {
    pub cfg: gen::wxml::WxmlCfg,
    /// which failure class is reported: false = totality (C01), true = diagnostic locations (C15 iii)
    pub locations: bool,
    pub prop: &'static str,
}

/// crude upper bound of element / bracket / operator-chain nesting (only consulted for stack overflows)
pub fn nesting_estimate(text: &str) -> usize {
    let mut depth = 0usize;
    let mut max = 0usize;
    let mut tags = 0usize;
    let mut ops = 0usize;
    let mut max_ops = 0usize;
    let mut prev = ' ';
    for c in text.chars() {
        match c {
            '(' | '[' | '{' | '?' => {
                depth += 1;
                max = max.max(depth)
            }
            ')' | ']' | '}' => depth = depth.saturating_sub(1),
            _ => {}
        }
        if prev == '<' && (c.is_ascii_alphabetic() || c == '_') {
            tags += 1;
        }
        if "+-*/%!~&|^<>=".contains(c) {
            ops += 1;
            max_ops = max_ops.max(ops);
        } else if c == '"' || c == '\'' {
            ops = 0;
        }
        prev = c;
    }
    max + tags + max_ops
}

fn labels_of(k: char, text: &str) -> Vec<String> {
    let mut l = vec![format!("kind:{}", if k == 't' { "template" } else { "stylesheet" })];
    if text.chars().any(|c| matches!(c, '\u{85}' | '\u{a0}' | '\u{1680}' | '\u{2000}'..='\u{200a}' | '\u{2028}' | '\u{2029}' | '\u{202f}' | '\u{205f}' | '\u{3000}' | '\u{feff}')) {
        l.push("has-unicode-ws".into());
    }
    if text.contains("0x") || text.contains("1e999") || text.contains("99999999999") {
        l.push("has-edge-number".into());
    }
    if text.contains("&#") || text.contains("&amp") {
        l.push("has-entity".into());
    }
    if text.contains('&') {
        l.push("has-ampersand".into());
    }
    if k == 's' && text.contains('@') {
        l.push("css-at-rule".into());
    }
    let n = nesting_estimate(text);
    l.push(format!("depth-bucket:{}", if n <= 8 { "<=8" } else if n <= 64 { "<=64" } else { ">64" }));
    l
}

impl PropCheck for C01 {
    type Case = Case;

    fn strategy(&self) -> BoxedStrategy<Case> {
        let mut wc = self.cfg.clone();
        wc.expr.edge_numbers = true;
        wc.expr.small_numbers = false;
        let input = prop_oneof![
            3 => soup::soup(soup::WXML_ALPHABET, 120).prop_map(Input::TmplSoup),
            3 => (gen::wxml::group(&wc), any::<u64>(), proptest::collection::vec(soup::mutation(), 0..5)).prop_map(|(group, style, mutations)| Input::TmplMutated { group, style, mutations }),
            2 => soup::soup(soup::WXSS_ALPHABET, 120).prop_map(Input::SheetSoup),
            2 => (any::<u16>(), proptest::collection::vec(soup::mutation(), 0..6)).prop_map(|(seed, mutations)| Input::SheetMutated { seed, mutations }),
            2 => ({ let mut c = gen::css::CssCfg::new(); c.hosts = true; c.imports = true; gen::css::sheet(&c) }, any::<u64>(), prop_oneof![2 => Just(vec![]), 1 => proptest::collection::vec(soup::mutation(), 1..4)]).prop_map(|(sheet, style, mutations)| Input::SheetGenerated { sheet, style, mutations }),
            1 => proptest::collection::vec(proptest::collection::vec(any::<u8>(), 0..6), 1..12).prop_map(Input::EntitySoup),
            1 => (any::<u8>(), 1u8..=64, any::<u8>()).prop_map(|(shape, n, op)| Input::Ramp { shape, n, op }),
        ];
        (input, any::<u8>(), any::<u16>(), any::<bool>()).prop_map(|(input, path, opts, dev)| Case { input, path, opts, dev }).boxed()
    }

    fn needs_worker(&self) -> bool {
        false
    }

    fn eval(&self, _w: Option<&mut Worker>, cases: &[Case]) -> Result<Vec<Outcome>, String> {
        let mut outs = vec![];
        for c in cases {
            outs.push(self.eval_case(c)?);
        }
        Ok(outs)
    }

    fn eval_shrink(&self, _w: Option<&mut Worker>, case: &Case) -> Result<Outcome, String> {
        self.eval_case_with(case, 2.0, false)
    }

    fn max_shrink_evals(&self) -> u64 {
        60
    }

    fn stop_shard_after_violation(&self) -> bool {
        true
    }

    fn case_json(&self, case: &Case) -> Value {
        json!({"case": serde_json::to_value(case).unwrap(), "request": request_of(case)})
    }

    fn case_from_json(&self, v: &Value) -> Result<Case, String> {
        serde_json::from_value(v["case"].clone()).map_err(|e| e.to_string())
    }
}

impl C01 {
    fn eval_case(&self, c: &Case) -> Result<Outcome, String> {
        self.eval_case_with(c, crate::isolate::CPU_LIMIT_S, true)
    }

    /// `confirm`: re-run a resource kill twice alone before it counts (skipped while shrinking, where the CPU budget is
    /// also smaller: the shrunk case is confirmed again with the full budget when it is replayed)
    fn eval_case_with(&self, c: &Case, cpu_limit: f64, confirm: bool) -> Result<Outcome, String> {
        let mut out = Outcome::default();
        let req = request_of(c);
        let k = if req["k"] == "t" { 't' } else { 's' };
        let text = req["text"].as_str().unwrap_or("").to_string();
        out.labels = labels_of(k, &text);
        out.units = 1;
        out.sample = Some(json!({"kind": k.to_string(), "text": crate::util::truncate(&text, 300)}));
        let mut res = with_iso(|iso| iso.run_limit(&req, cpu_limit))?;
        // a resource kill or death is re-run twice alone on fresh children: reported only if it reproduces both times
        if !confirm && matches!(res, IsoOutcome::Died(_) | IsoOutcome::Hang(_)) {
            reset_iso();
        }
        if confirm && matches!(res, IsoOutcome::Died(_) | IsoOutcome::Hang(_)) {
            let mut again = 0;
            for _ in 0..2 {
                reset_iso();
                let r2 = with_iso(|iso| iso.run(&req))?;
                if matches!(r2, IsoOutcome::Died(_) | IsoOutcome::Hang(_)) {
                    again += 1;
                    res = r2;
                }
            }
            reset_iso();
            if again < 2 {
                out.labels.push("resource-kill-not-reproduced".into());
                return Ok(out);
            }
        }
        let class = if text.chars().any(|c| !c.is_ascii() && c.is_whitespace()) { "non-ascii-whitespace" } else { "ascii" };
        match res {
            IsoOutcome::Ok(v) => {
                if v["diags"].as_u64().unwrap_or(0) > 0 && v["out"].as_u64().unwrap_or(0) > 0 {
                    out.nt.push(fnv64(text.as_bytes()));
                }
                if self.locations {
                    if !v["bad_loc"].is_null() {
                        out.failures.push(Failure {
                            sig: format!("{}|bad-location|{}", self.prop, v["bad_loc"]["kind"].as_str().unwrap_or("")),
                            tag: None,
                            what: format!("diagnostic location outside the source or start > end: {} for input {:?}", v["bad_loc"], crate::util::truncate(&text, 200)),
                            detail: json!({"bad_loc": v["bad_loc"], "text": text}),
                        });
                    }
                }
            }
            IsoOutcome::Panic(msg) => {
                if !self.locations {
                    out.failures.push(Failure { sig: format!("C01|panic|{}|{}", k, crate::util::truncate(&msg, 80)), tag: None, what: format!("panic `{}` on {} input {:?}", msg, if k == 't' { "template" } else { "stylesheet" }, crate::util::truncate(&text, 300)), detail: json!({"request": req}) });
                }
            }
            IsoOutcome::Died(how) => {
                if !self.locations {
                    if how.contains("signal 11") && nesting_estimate(&text) > 64 {
                        out.labels.push("out-of-domain-crasher(depth>64)".into());
                    } else {
                        out.failures.push(Failure { sig: format!("C01|died|{}|{}|{}", k, how, class), tag: None, what: format!("worker process {} ({} input; runaway allocation / abort) on {:?}", how, if k == 't' { "template" } else { "stylesheet" }, crate::util::truncate(&text, 300)), detail: json!({"request": req}) });
                    }
                }
            }
            IsoOutcome::Hang(cpu) => {
                if !self.locations {
                    out.failures.push(Failure { sig: format!("C01|hang|{}|{}", k, class), tag: None, what: format!("no result after {:.0} CPU-seconds on a {}-byte {} input {:?}", cpu, text.len(), if k == 't' { "template" } else { "stylesheet" }, crate::util::truncate(&text, 300)), detail: json!({"request": req}) });
                }
            }
            IsoOutcome::Machinery(e) => return Err(format!("isolate worker: {}", e)),
        }
        Ok(out)
    }
}

pub fn run(tier: Tier, seed: u64, findings: &Findings) -> i32 {
    let started = Instant::now();
    let cfg = RunCfg { prop: "C01", tier, seed };
    let check = C01 { cfg: gen::wxml::WxmlCfg::new(2, 3), locations: false, prop: "C01" };
    let mut report = engine::Report::default();
    report.merge(super::run_regress(&check, &cfg, findings));
    let cases = tier.pick(100_000, 10_000_000);
    report.merge(engine::run_generated(&check, &cfg, cases, 16, 16, findings, 0));
    engine::finish(
        Finish {
            cfg,
            report,
            rule: "cases = WXML token soup, span-mutated generated templates, WXSS token soup and span-mutated stylesheets (<= 8 KiB), with a template path from an adversarial list / a StyleSheetOptions combination incl. rpx_ratio in {750,1,1e-30,1e30,0,-1,NaN,inf}. Each input runs in an isolated child (RLIMIT_AS 4 GiB, 1 GiB stack, 20 CPU-seconds per input) through add_tmpl + every emit API + stringify + dependency queries, or from_css + warnings + both outputs + both source maps. Oracle: returns normally. A kill is re-run twice alone before it counts. non-trivial = input produced >= 1 diagnostic and non-empty output; distinct by input text.".into(),
            assumptions: vec!["time/memory bound is decided as 'no <= 8 KiB input exceeds limits 4-5 orders of magnitude above normal cost'".into(), "stack overflow beyond nesting depth 64 is outside the property (1 GiB stack makes it unreachable here)".into()],
            started,
            exhaustive: false,
        },
        findings,
    )
}

pub fn replay(v: &Value, path: &str, findings: &Findings) -> i32 {
    let check = C01 { cfg: gen::wxml::WxmlCfg::new(2, 3), locations: false, prop: "C01" };
    super::replay_generic(&check, "C01", v, path, findings)
}
