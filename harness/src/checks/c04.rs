//! C04 — creation renders the node tree WXML semantics define (real wrapper on the stub DOM vs the reference renderer).
//! C05 shares the machinery with a collision-biased configuration.

use super::common::{run_render_ref, short_hash};
use crate::engine::{self, Failure, Finish, Outcome, PropCheck, RunCfg, Tier};
use crate::findings::Findings;
use crate::gen;
use crate::jsworker::Worker;
use crate::model::data::JsVal;
use crate::model::expr::Expr;
use crate::model::wxml::{self, count_nodes, Group, Node};
use crate::util::fnv64;
use proptest::prelude::*;
use serde::{Deserialize, Serialize};
use serde_json::{json, Value};
use std::time::Instant;

#[derive(Clone, Debug, Serialize, Deserialize)]
pub struct Case {
    pub group: Group,
    pub datas: Vec<JsVal>,
    pub style: u64,
}

pub struct C04 {
    pub prop: &'static str,
    pub cfg: gen::wxml::WxmlCfg,
    pub datas: usize,
}

pub fn node_labels(nodes: &[Node], out: &mut Vec<String>) {
    for n in nodes {
        match n {
            Node::Text(ps) => {
                out.push("kind:text".into());
                if ps.len() > 1 {
                    out.push("text:mixed".into())
                }
            }
            Node::Comment(_) => out.push("kind:comment".into()),
            Node::El(e) => {
                out.push("kind:element".into());
                for a in &e.attrs {
                    out.push(format!("family:{}", a.kind.label()));
                    if a.val.is_none() {
                        out.push("attr:valueless".into())
                    }
                }
                if e.slot.is_some() {
                    out.push("attr:slot".into())
                }
                node_labels(&e.kids, out);
            }
            Node::If(brs) => {
                out.push("kind:if".into());
                if brs.len() > 1 {
                    out.push("if:multi-branch".into())
                }
                for b in brs {
                    if b.carrier == wxml::Carrier::OnChild && b.kids.len() == 1 && wxml::can_carry(&b.kids[0]) {
                        out.push("if:on-element".into())
                    }
                    if b.kids.iter().any(|k| matches!(k, Node::Comment(_))) {
                        out.push("if:comment-in-branch".into())
                    }
                    node_labels(&b.kids, out);
                }
            }
            Node::For(f) => {
                out.push("kind:for".into());
                if f.key.is_some() {
                    out.push("for:keyed".into())
                }
                if f.item.is_some() || f.index.is_some() {
                    out.push("for:renamed-scope".into())
                }
                if f.carrier == wxml::Carrier::OnChild && f.kids.len() == 1 {
                    if let Node::If(_) = &f.kids[0] {
                        out.push("for:with-if-on-one-element".into())
                    }
                }
                node_labels(&f.kids, out);
            }
            Node::Block(b) => {
                out.push(if b.slot.is_some() { "kind:block-with-slot".into() } else { "kind:block-flattened".into() });
                node_labels(&b.kids, out);
            }
            Node::Tis(t) => {
                out.push("kind:template-is".into());
                if t.data.is_some() {
                    out.push("tis:data".into())
                }
            }
            Node::Include(_) => out.push("kind:include".into()),
            Node::Slot(_) => out.push("kind:slot".into()),
        }
    }
}

/// how many identifiers have >= 2 candidate bindings (an enclosing scope of that name plus the data field)
pub fn shadowed_idents(g: &Group) -> usize {
    let mut n = 0;
    for t in &g.files {
        let mods: Vec<String> = t.wxs.iter().map(|w| w.module().to_string()).collect();
        let mut count = |e: &Expr, scopes: &[String], _: &str| {
            for id in e.idents() {
                if scopes.iter().any(|s| *s == id) {
                    n += 1;
                }
            }
        };
        let mut scopes = mods.clone();
        wxml::visit_exprs(&t.body, &mut scopes, &mut count);
        for (_, b) in &t.named {
            let mut scopes = mods.clone();
            wxml::visit_exprs(b, &mut scopes, &mut count);
        }
    }
    n
}

impl PropCheck for C04 {
    type Case = Case;

    fn strategy(&self) -> BoxedStrategy<Case> {
        (gen::wxml::group(&self.cfg), proptest::collection::vec(gen::data::data_env(2), 1..=self.datas), any::<u64>()).prop_map(|(group, datas, style)| Case { group, datas, style }).boxed()
    }

    fn eval(&self, w: Option<&mut Worker>, cases: &[Case]) -> Result<Vec<Outcome>, String> {
        let w = w.ok_or("no worker")?;
        let mut outs = vec![];
        for c in cases {
            outs.push(eval_case(self.prop, w, c)?);
        }
        Ok(outs)
    }

    fn case_json(&self, case: &Case) -> Value {
        let src = crate::compile::print_group(&case.group, case.style);
        json!({"case": serde_json::to_value(case).unwrap(), "source": src, "datas_js": case.datas.iter().map(|e| e.to_js()).collect::<Vec<_>>()})
    }

    fn case_from_json(&self, v: &Value) -> Result<Case, String> {
        serde_json::from_value(v["case"].clone()).map_err(|e| e.to_string())
    }
}

pub fn eval_case(prop: &'static str, w: &mut Worker, c: &Case) -> Result<Outcome, String> {
    let datas: Vec<String> = c.datas.iter().map(|e| e.to_js()).collect();
    let run = run_render_ref(w, &c.group, c.style, &datas, "p", false, &wxml::no_tags)?;
    let mut out = Outcome::default();
    let main = &c.group.files[0];
    let mut labels = vec![];
    node_labels(&main.body, &mut labels);
    for (_, b) in &main.named {
        node_labels(b, &mut labels);
    }
    labels.sort();
    labels.dedup();
    let kinds = labels.iter().filter(|l| l.starts_with("kind:")).count();
    let shadow = shadowed_idents(&c.group);
    if shadow > 0 {
        labels.push("scope:ident-with-2-candidates".into());
    }
    out.labels = labels;
    out.units = run.nodes.iter().sum();
    let src0 = run.compiled.as_ref().map(|c| c.sources[0].1.clone()).unwrap_or_default();
    let nontrivial = if prop == "C05" { shadow > 0 } else { kinds >= 2 && count_nodes(&main.body) >= 3 };
    if nontrivial {
        out.nt.push(fnv64(src0.as_bytes()));
    }
    out.sample = Some(json!({"source": crate::util::truncate(&src0, 500), "data0": crate::util::truncate(&datas[0], 200)}));
    if let Some(p) = &run.compile_panic {
        out.failures.push(Failure { sig: format!("{}|compiler-panic|{}", prop, short_hash(p)), tag: None, what: format!("compiler panicked on a well-formed template: {}", p), detail: json!({"panic": p}) });
        return Ok(out);
    }
    if let Some(cp) = &run.compiled {
        let bad: Vec<_> = cp.diags.iter().filter(|d| d.level >= 2).collect();
        if !bad.is_empty() {
            out.failures.push(Failure {
                sig: format!("{}|diagnostic|{}", prop, bad[0].kind),
                tag: None,
                what: format!("well-formed template answered with diagnostic `{}` (level {}) at {:?} in {}", bad[0].kind, bad[0].level, bad[0].start, bad[0].path),
                detail: json!({"diag": format!("{:?}", bad[0])}),
            });
            return Ok(out);
        }
    }
    if let Some(e) = &run.bundle_error {
        out.failures.push(Failure { sig: format!("{}|bundle-error|{}", prop, short_hash(e.lines().next().unwrap_or(""))), tag: None, what: format!("generated code does not load: {}", crate::util::truncate(e, 300)), detail: json!({"error": e}) });
        return Ok(out);
    }
    for (ei, ms) in run.results.iter().enumerate() {
        for m in ms.iter().take(3) {
            let info = run.infos.get("p").and_then(|i| i.get(&m.id));
            let key = format!("{}:{}", m.ch, m.name);
            let shape = info.and_then(|i| i.attrs.get(&key).cloned()).unwrap_or_default();
            let kind = info.map(|i| i.kind.clone()).unwrap_or_else(|| "?".into());
            let sig = if m.ch == "throw" {
                format!("{}|throw|{}", prop, crate::util::truncate(m.actual.split(" | ").next().unwrap_or(""), 80))
            } else {
                format!("{}|{}|{}|{}", prop, m.ch, kind, crate::util::truncate(&shape, 80))
            };
            out.failures.push(Failure { sig, tag: None, what: format!("data#{}: {}", ei, m.describe()), detail: json!({"data": datas[ei], "mismatch": m.describe()}) });
        }
    }
    Ok(out)
}

pub fn run(prop: &'static str, tier: Tier, seed: u64, findings: &Findings) -> i32 {
    let started = Instant::now();
    let cfg = RunCfg { prop, tier, seed };
    let mut wc = gen::wxml::WxmlCfg::new(tier.pick(2, 3), tier.pick(2, 3));
    // slot value scopes: dynamic-slot components of the stub DOM and `slot:` references on their children
    wc.slot_refs = true;
    wc.dyn_tags = true;
    if prop == "C05" {
        // collision bias: identifiers drawn mostly from names that scopes introduce
        wc.expr.idents = vec!["item", "index", "it", "idx", "x", "a", "b", "list", "i", "k", "mod", "m", "tools", "item2", "row$", "i$"];
        wc.odd_scope_names = true;
        wc.families = vec![crate::model::wxml::AttrKind::Plain, crate::model::wxml::AttrKind::DataColon];
    }
    let check = C04 { prop, cfg: wc, datas: tier.pick(3, 6) };
    let mut report = engine::Report::default();
    report.merge(super::run_regress(&check, &cfg, findings));
    let cases = tier.pick(20_000, 300_000);
    report.merge(engine::run_generated(&check, &cfg, cases, 8, 16, findings, 0));
    let rule = if prop == "C05" {
        "cases = generated multi-file groups biased to name collisions (scope variables named like data fields, nested wx:for re-using / renaming item and index, wxs modules named like fields), rendered for several data objects on the real wrapper and compared with the reference renderer, which resolves names on the model's own scope stack. non-trivial = at least one identifier with >= 2 candidate bindings; distinct by printed source.".to_string()
    } else {
        "cases = generated multi-file groups over every element kind and attribute family in varied concrete syntax, rendered for several data objects; oracle = dump(real ProcGenWrapper.create(D) on the stub DOM) deep-equals reference_render(model, D). non-trivial = >= 2 element kinds and >= 3 nodes in the entry template; distinct by printed source. compared_units = nodes compared.".to_string()
    };
    engine::finish(
        Finish { cfg, report, rule, assumptions: vec!["stub DOM fidelity (child operations copied from element.ts)".into(), "reference renderer written from the property statement and docs, cross-checked against structure.test.ts behaviours".into(), "V8 as JS semantics".into()], started, exhaustive: false },
        findings,
    )
}

pub fn replay(prop: &'static str, v: &Value, path: &str, findings: &Findings) -> i32 {
    let check = C04 { prop, cfg: gen::wxml::WxmlCfg::new(2, 2), datas: 3 };
    super::replay_generic(&check, prop, v, path, findings)
}
