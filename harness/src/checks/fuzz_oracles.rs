//! Oracles that need no generator model: they judge an arbitrary input text. Used by the libFuzzer targets under
//! /verif/fuzz (coverage-guided search) and by `gev fuzz-replay` for the artefacts those campaigns save.
//! Each returns `Some(description)` for a violation of the named property.

use super::c16;
use crate::compile::level_no;
use crate::engine::Outcome;
use glass_easel_template_compiler::stringify::{Stringifier, Stringify};

/// C15 (iii) + C16: every diagnostic location is valid; when the template parses without Error / Fatal diagnostics, every
/// stored location of the AST and every source-map token of the re-print passes the C16 walk.
pub fn tmpl_positions(src: &str) -> Option<(String, String)> {
    let (diags, ok_to_walk) = {
        let (_t, mut ps) = glass_easel_template_compiler::parse::parse("p", src);
        let w = ps.take_warnings();
        let bad = w.iter().any(|d| level_no(&d.kind.level()) >= 3);
        (w, !bad)
    };
    let lines: Vec<&str> = src.split('\n').collect();
    for d in &diags {
        let (s, e) = (d.location.start, d.location.end);
        let ok = |p: glass_easel_template_compiler::parse::Position| (p.line as usize) < lines.len() && (p.utf16_col as usize) <= lines[p.line as usize].encode_utf16().count();
        if !(s <= e && ok(s) && ok(e)) {
            return Some(("C15".into(), format!("diagnostic `{}` has the invalid location {}:{}-{}:{} (source has {} lines)", d.kind, s.line, s.utf16_col, e.line, e.utf16_col, lines.len())));
        }
    }
    if !ok_to_walk {
        return None;
    }
    let mut out = Outcome::default();
    let _ = c16::check_source_with("p", src, &[], &mut out, 1);
    out.failures.first().map(|f| ("C16".to_string(), f.what.clone()))
}

/// C14 (fixpoint part): print(parse(print(parse(t)))) == print(parse(t)), except for the listed known findings.
pub fn tmpl_roundtrip(src: &str) -> Option<(String, String)> {
    let print = |text: &str| -> Option<String> {
        let (t, _ps) = glass_easel_template_compiler::parse::parse("p", text);
        let mut s = Stringifier::new(String::new(), "p", text);
        t.stringify_write(&mut s).ok()?;
        Some(s.finish().0)
    };
    let p1 = print(src)?;
    let p2 = print(&p1)?;
    if p1 != p2 {
        if super::c14::file_tag(src).is_some() || super::c14::file_tag(&p1).is_some() {
            return None;
        }
        return Some(("C14".into(), format!("printing is not a fixpoint: {:?} prints as {:?} which prints as {:?}", crate::util::truncate(src, 300), crate::util::truncate(&p1, 300), crate::util::truncate(&p2, 300))));
    }
    None
}

/// first token of a stylesheet text, summarised (comments and whitespace are tokens here)
#[derive(Debug, Clone, PartialEq)]
enum Tk {
    Ident(String),
    AtKw(String),
    Hash(String),
    Str(String),
    Url(String),
    Delim(char),
    Number(String),
    Percentage(String),
    Dimension(String, String),
    Ws,
    Comment,
    Colon,
    Semi,
    Comma,
    Match(String),
    Cd(String),
    Function(String),
    Open(char),
    Close(char),
    Bad,
    Eof,
}

fn first_tk(text: &str) -> Tk {
    use cssparser::{Parser, ParserInput, Token};
    let mut input = ParserInput::new(text);
    let mut p = Parser::new(&mut input);
    let t = match p.next_including_whitespace_and_comments() {
        Ok(t) => t.clone(),
        Err(_) => return Tk::Eof,
    };
    match t {
        Token::Ident(v) => Tk::Ident(v.to_string()),
        Token::AtKeyword(v) => Tk::AtKw(v.to_string()),
        Token::Hash(v) | Token::IDHash(v) => Tk::Hash(v.to_string()),
        Token::QuotedString(v) => Tk::Str(v.to_string()),
        Token::UnquotedUrl(v) => Tk::Url(v.to_string()),
        Token::Delim(c) => Tk::Delim(c),
        // numeric values are C10's subject (and rounded to 6 digits, a known finding): kind and unit only
        Token::Number { .. } => Tk::Number(String::new()),
        Token::Percentage { .. } => Tk::Percentage(String::new()),
        Token::Dimension { unit, .. } => Tk::Dimension(String::new(), unit.to_ascii_lowercase()),
        Token::WhiteSpace(_) => Tk::Ws,
        Token::Comment(_) => Tk::Comment,
        Token::Colon => Tk::Colon,
        Token::Semicolon => Tk::Semi,
        Token::Comma => Tk::Comma,
        Token::IncludeMatch => Tk::Match("~=".into()),
        Token::DashMatch => Tk::Match("|=".into()),
        Token::PrefixMatch => Tk::Match("^=".into()),
        Token::SuffixMatch => Tk::Match("$=".into()),
        Token::SubstringMatch => Tk::Match("*=".into()),
        Token::CDO => Tk::Cd("<!--".into()),
        Token::CDC => Tk::Cd("-->".into()),
        Token::Function(v) => Tk::Function(v.to_string()),
        Token::ParenthesisBlock => Tk::Open('('),
        Token::SquareBracketBlock => Tk::Open('['),
        Token::CurlyBracketBlock => Tk::Open('{'),
        Token::CloseParenthesis => Tk::Close(')'),
        Token::CloseSquareBracket => Tk::Close(']'),
        Token::CloseCurlyBracket => Tk::Close('}'),
        Token::BadUrl(_) | Token::BadString(_) => Tk::Bad,
    }
}

/// Does the output token `o` correspond to the source token `s` its source-map entry names? (C19: a copied token is the
/// same token; a closing bracket may name its opening bracket; a rewritten rpx value / prefixed class names the original;
/// what a rewrite synthesises names the construct that triggered it: the `@import`, the `:` of `:host`.)
fn corresponds(s: &Tk, o: &Tk, prefixed: bool, low: bool) -> bool {
    if s == o {
        return true;
    }
    match (s, o) {
        // the `[wx-host=..]` selector of a converted `:host` rule is written when its block starts
        (Tk::Open('{'), _) if low => true,
        (_, Tk::Comment) | (_, Tk::Ws) => true,
        (Tk::Bad, _) | (_, Tk::Bad) => true,
        (Tk::AtKw(k), _) if k.eq_ignore_ascii_case("import") => true,
        (Tk::Colon, _) => true,
        (Tk::Function(_), Tk::Close(')')) | (Tk::Open('('), Tk::Close(')')) | (Tk::Url(_), Tk::Close(')')) => true,
        (Tk::Open('['), Tk::Close(']')) | (Tk::Open('{'), Tk::Close('}')) => true,
        (Tk::Dimension(_, u), Tk::Dimension(..)) | (Tk::Dimension(_, u), Tk::Number(_)) if u.eq_ignore_ascii_case("rpx") => true,
        (Tk::Ident(a), Tk::Ident(b)) if prefixed && b.ends_with(a.as_str()) => true,
        // an unquoted url may be written in function form
        (Tk::Url(_), Tk::Function(f)) if f.eq_ignore_ascii_case("url") => true,
        (Tk::Url(a), Tk::Str(b)) => a == b,
        _ => false,
    }
}

/// C19 validity part + C01: the transformer returns, and every source-map token points inside the source and the
/// destination positions never decrease, for both outputs.
pub fn wxss_map(src: &str, opts: u8) -> Option<(String, String)> {
    wxss_map_with(src, opts, false)
}

/// The same with the full token correspondence of C19 at both ends of every entry. Sound for sheets that tokenise the
/// same way before and after the transformer's re-serialisation (generated sheets, possibly cut off); on arbitrary text
/// (escaped line breaks, NUL, broken escapes at the end of the input) re-serialisation legitimately changes how a
/// position tokenises, so the libFuzzer target uses `wxss_map`, which keeps only the rule for closing brackets.
pub fn wxss_map_strict(src: &str, opts: u8) -> Option<(String, String)> {
    wxss_map_with(src, opts, true)
}

fn wxss_map_with(src: &str, opts: u8, strict: bool) -> Option<(String, String)> {
    use glass_easel_stylesheet_compiler::{StyleSheetOptions, StyleSheetTransformer};
    let options = StyleSheetOptions {
        class_prefix: if opts & 1 != 0 { Some("p".into()) } else { None },
        class_prefix_sign: if opts & 2 != 0 { Some("S".into()) } else { None },
        rpx_ratio: if opts & 4 != 0 { 7.5 } else { 750.0 },
        import_sign: if opts & 8 != 0 { Some("IMPORT".into()) } else { None },
        convert_host: opts & 16 != 0,
        host_is: if opts & 32 != 0 { Some("comp".into()) } else { None },
    };
    let t = StyleSheetTransformer::from_css("s.wxss", src, options);
    let (a, b) = t.output_and_low_priority_output();
    // CSS line breaks: LF, CRLF, CR and FF (css-syntax: preprocessing)
    let mut lines: Vec<String> = vec![String::new()];
    let mut starts: Vec<usize> = vec![0];
    let mut it = src.char_indices().peekable();
    while let Some((i, c)) = it.next() {
        match c {
            '\r' => {
                let mut next = i + 1;
                if let Some((_, '\n')) = it.peek() {
                    it.next();
                    next += 1;
                }
                lines.push(String::new());
                starts.push(next);
            }
            '\n' | '\u{c}' => {
                lines.push(String::new());
                starts.push(i + 1);
            }
            c => lines.last_mut().unwrap().push(c),
        }
    }
    // byte offset of a UTF-16 column inside a text (None: inside a surrogate pair or past the end)
    let at_col = |text: &str, col: usize| -> Option<usize> {
        let mut u = 0usize;
        for (i, ch) in text.char_indices() {
            if u == col {
                return Some(i);
            }
            u += ch.len_utf16();
        }
        if u == col {
            Some(text.len())
        } else {
            None
        }
    };
    let prefixed = opts & 1 != 0;
    // byte ranges of `@import ... ;` statements: what the import rewrite synthesises points somewhere into its statement
    let mut import_ranges: Vec<(usize, usize)> = vec![];
    {
        use cssparser::{Parser, ParserInput, Token};
        fn walk(p: &mut Parser, out: &mut Vec<(usize, usize)>) {
            let mut open: Option<usize> = None;
            loop {
                let before = p.position().byte_index();
                let t = match p.next_including_whitespace_and_comments() {
                    Ok(t) => t.clone(),
                    Err(_) => break,
                };
                match t {
                    Token::AtKeyword(ref k) if k.eq_ignore_ascii_case("import") && open.is_none() => open = Some(before),
                    Token::Semicolon => {
                        if let Some(s) = open.take() {
                            out.push((s, p.position().byte_index()));
                        }
                    }
                    Token::Function(_) | Token::ParenthesisBlock | Token::SquareBracketBlock | Token::CurlyBracketBlock => {
                        let curly = matches!(t, Token::CurlyBracketBlock);
                        if open.is_none() {
                            let _ = p.parse_nested_block(|q| -> Result<(), cssparser::ParseError<'_, ()>> {
                                walk(q, out);
                                Ok(())
                            });
                        }
                        if curly {
                            if let Some(s) = open.take() {
                                out.push((s, p.position().byte_index()));
                            }
                        }
                    }
                    _ => {}
                }
            }
            if let Some(s) = open.take() {
                out.push((s, p.position().byte_index() + 1));
            }
        }
        let mut input = ParserInput::new(src);
        let mut p = Parser::new(&mut input);
        walk(&mut p, &mut import_ranges);
    }
    let in_import = |off: usize| import_ranges.iter().any(|(a, b)| off >= *a && off <= *b);
    for (which, o) in [("css", a), ("low-priority css", b)] {
        let mut text = Vec::new();
        let _ = o.write(&mut text);
        let text = String::from_utf8(text).unwrap_or_default();
        let map = o.extract_source_map();
        let mut prev = (0u32, 0u32);
        for tok in map.tokens() {
            let d = (tok.get_dst_line(), tok.get_dst_col());
            if d < prev {
                return Some(("C19".into(), format!("{}: source-map destination positions decrease: {:?} after {:?}", which, d, prev)));
            }
            prev = d;
            let (l, c) = (tok.get_src_line() as usize, tok.get_src_col() as usize);
            if l >= lines.len() || c > lines[l].encode_utf16().count() {
                return Some(("C19".into(), format!("{}: source-map token points to {}:{} outside the source ({} lines)", which, l, c, lines.len())));
            }
            // the entry's two ends name corresponding tokens
            if tok.get_dst_line() != 0 {
                continue;
            }
            let (Some(so), Some(oo)) = (at_col(&lines[l], c), at_col(&text, tok.get_dst_col() as usize)) else {
                return Some(("C19".into(), format!("{}: source-map entry {}:{} -> column {} splits a character", which, l, c, tok.get_dst_col())));
            };
            let stk = first_tk(&src[starts[l] + so..]);
            let otk = first_tk(&text[oo..]);
            let judged = strict || matches!(otk, Tk::Close(_));
            if judged && !in_import(starts[l] + so) && !corresponds(&stk, &otk, prefixed, which != "css") {
                return Some(("C19".into(), format!("{}: source-map entry maps output column {} ({:?}) to source {}:{} where the token is {:?} — source {:?} output {:?}", which, tok.get_dst_col(), otk, l, c, stk, crate::util::truncate(src, 200), crate::util::truncate(&text, 200))));
            }
        }
    }
    None
}
