//! Oracles that need no generator model: they judge an arbitrary input text. Used by the libFuzzer targets under
//! /verif/fuzz (coverage-guided search) and by `gev fuzz-replay` for the artefacts those campaigns save.
//! Each returns `Some(description)` for a violation of the named property.

use super::c16;
use crate::compile::level_no;
use crate::engine::Outcome;
use glass_easel_template_compiler::stringify::{Stringifier, Stringify};

/// C15 (iii) + C16: every diagnostic location is valid; when the template parses without Error / Fatal diagnostics, every
/// stored location of the AST and every source-map token of the re-print passes the C16 walk.
pub fn tmpl_positions(src: &str) -> Option<(String, String)> {
    let (diags, ok_to_walk) = {
        let (_t, mut ps) = glass_easel_template_compiler::parse::parse("p", src);
        let w = ps.take_warnings();
        let bad = w.iter().any(|d| level_no(&d.kind.level()) >= 3);
        (w, !bad)
    };
    let lines: Vec<&str> = src.split('\n').collect();
    for d in &diags {
        let (s, e) = (d.location.start, d.location.end);
        let ok = |p: glass_easel_template_compiler::parse::Position| (p.line as usize) < lines.len() && (p.utf16_col as usize) <= lines[p.line as usize].encode_utf16().count();
        if !(s <= e && ok(s) && ok(e)) {
            return Some(("C15".into(), format!("diagnostic `{}` has the invalid location {}:{}-{}:{} (source has {} lines)", d.kind, s.line, s.utf16_col, e.line, e.utf16_col, lines.len())));
        }
    }
    if !ok_to_walk {
        return None;
    }
    let mut out = Outcome::default();
    let _ = c16::check_source_with("p", src, &[], &mut out, 1);
    out.failures.first().map(|f| ("C16".to_string(), f.what.clone()))
}

/// C14 (fixpoint part): print(parse(print(parse(t)))) == print(parse(t)), except for the listed known findings.
pub fn tmpl_roundtrip(src: &str) -> Option<(String, String)> {
    let print = |text: &str| -> Option<String> {
        let (t, _ps) = glass_easel_template_compiler::parse::parse("p", text);
        let mut s = Stringifier::new(String::new(), "p", text);
        t.stringify_write(&mut s).ok()?;
        Some(s.finish().0)
    };
    let p1 = print(src)?;
    let p2 = print(&p1)?;
    if p1 != p2 {
        if super::c14::file_tag(src).is_some() || super::c14::file_tag(&p1).is_some() {
            return None;
        }
        return Some(("C14".into(), format!("printing is not a fixpoint: {:?} prints as {:?} which prints as {:?}", crate::util::truncate(src, 300), crate::util::truncate(&p1, 300), crate::util::truncate(&p2, 300))));
    }
    None
}

/// C19 validity part + C01: the transformer returns, and every source-map token points inside the source and the
/// destination positions never decrease, for both outputs.
pub fn wxss_map(src: &str, opts: u8) -> Option<(String, String)> {
    use glass_easel_stylesheet_compiler::{StyleSheetOptions, StyleSheetTransformer};
    let options = StyleSheetOptions {
        class_prefix: if opts & 1 != 0 { Some("p".into()) } else { None },
        class_prefix_sign: if opts & 2 != 0 { Some("S".into()) } else { None },
        rpx_ratio: if opts & 4 != 0 { 7.5 } else { 750.0 },
        import_sign: if opts & 8 != 0 { Some("IMPORT".into()) } else { None },
        convert_host: opts & 16 != 0,
        host_is: if opts & 32 != 0 { Some("comp".into()) } else { None },
    };
    let t = StyleSheetTransformer::from_css("s.wxss", src, options);
    let (a, b) = t.output_and_low_priority_output();
    // CSS line breaks: LF, CRLF, CR and FF (css-syntax: preprocessing)
    let mut lines: Vec<String> = vec![String::new()];
    let mut it = src.chars().peekable();
    while let Some(c) = it.next() {
        match c {
            '\r' => {
                if it.peek() == Some(&'\n') {
                    it.next();
                }
                lines.push(String::new());
            }
            '\n' | '\u{c}' => lines.push(String::new()),
            c => lines.last_mut().unwrap().push(c),
        }
    }
    for (which, o) in [("css", a), ("low-priority css", b)] {
        let map = o.extract_source_map();
        let mut prev = (0u32, 0u32);
        for tok in map.tokens() {
            let d = (tok.get_dst_line(), tok.get_dst_col());
            if d < prev {
                return Some(("C19".into(), format!("{}: source-map destination positions decrease: {:?} after {:?}", which, d, prev)));
            }
            prev = d;
            let (l, c) = (tok.get_src_line() as usize, tok.get_src_col() as usize);
            if l >= lines.len() || c > lines[l].encode_utf16().count() {
                return Some(("C19".into(), format!("{}: source-map token points to {}:{} outside the source ({} lines)", which, l, c, lines.len())));
            }
        }
    }
    None
}
