//! C06 — incremental update soundness: create(D0); update(Di, Ui)...; after every step the tree equals a fresh create(Di).

use super::common::{short_hash, Mismatch};
use crate::compile::compile_group;
use crate::engine::{self, Failure, Finish, Outcome, PropCheck, RunCfg, Tier};
use crate::findings::Findings;
use crate::gen;
use crate::gen::history::{apply_step, SlotOp, Step};
use crate::jsworker::Worker;
use crate::model::data::JsVal;
use crate::model::wxml::Group;
use crate::util::fnv64;
use proptest::prelude::*;
use serde::{Deserialize, Serialize};
use serde_json::{json, Value};
use std::time::Instant;

#[derive(Clone, Debug, Serialize, Deserialize)]
pub struct Case {
    pub group: Group,
    pub d0: JsVal,
    pub steps: Vec<Step>,
    pub style: u64,
    /// per step: what dynamic-slot components do to their slots meanwhile
    #[serde(default)]
    pub slot_ops: Vec<Vec<SlotOp>>,
}

pub struct C06 {
    pub cfg: gen::wxml::WxmlCfg,
    pub max_steps: usize,
}

impl PropCheck for C06 {
    type Case = Case;

    fn strategy(&self) -> BoxedStrategy<Case> {
        let general = (gen::wxml::group(&self.cfg), gen::data::data_env(2), proptest::collection::vec(gen::history::step(), 1..=self.max_steps), any::<u64>(), gen::history::slot_ops(self.max_steps))
            .prop_map(|(group, d0, steps, style, slot_ops)| {
                // only where a dynamic-slot component can exist
                let slot_ops = if crate::compile::print_group(&group, style).iter().any(|(_, s)| s.contains("dyn-c")) { slot_ops } else { vec![] };
                Case { group, d0, steps, style, slot_ops }
            })
            .boxed();
        // groups in which a handful of fields occur in many positions (as in C07), updated one top-level field at a time:
        // through the engine stage these steps interleave binding-map updates and tree updates on one instance
        let mut bcfg = self.cfg.clone();
        bcfg.expr.idents = vec!["a", "b", "c", "list", "k", "m"];
        let top_fields = (gen::wxml::group(&bcfg), gen::data::data_env(2), proptest::collection::vec(gen::history::step_top_fields(), 2..=self.max_steps.max(2) + 2), any::<u64>())
            .prop_map(|(group, d0, mut steps, style)| {
                // the fields the templates of this class read: a b c list k m (positions in gen::data::FIELD_NAMES)
                for s in steps.iter_mut() {
                    for e in s.edits.iter_mut() {
                        e.aux = [0u32, 1, 2, 6, 12, 13][(e.aux % 6) as usize];
                    }
                }
                Case { group, d0, steps, style: style & !3, slot_ops: vec![] }
            })
            .boxed();
        prop_oneof![5 => general, 1 => scenario(self.max_steps), 2 => top_fields].boxed()
    }

    fn eval(&self, w: Option<&mut Worker>, cases: &[Case]) -> Result<Vec<Outcome>, String> {
        let w = w.ok_or("no worker")?;
        let mut outs = vec![];
        for c in cases {
            outs.push(eval_case(w, c)?);
        }
        Ok(outs)
    }

    fn case_json(&self, case: &Case) -> Value {
        let src = crate::compile::print_group(&case.group, case.style);
        let (datas, trees, _) = expand(case);
        json!({"case": serde_json::to_value(case).unwrap(), "source": src, "datas_js": datas, "trees": trees})
    }

    fn case_from_json(&self, v: &Value) -> Result<Case, String> {
        serde_json::from_value(v["case"].clone()).map_err(|e| e.to_string())
    }

    fn owns_case(&self, v: &Value) -> bool {
        v["engine_stage"].as_bool() != Some(true)
    }
}

/// Focused scenarios over a SMALL data object (so that the 1-3 random edits of one step often touch two of the few
/// fields at once): keyed / unkeyed loops whose bodies also read a field outside the item, nested loops, and array
/// literals with a spread in front of positional items, consumed by position (template data, loops).
fn scenario(max_steps: usize) -> BoxedStrategy<Case> {
    use crate::model::expr::{ArrItem, BinOp, Expr, ObjItem};
    use crate::model::wxml::{Carrier, ForNode, Node, Piece, Tis, Tmpl, Val};
    let id = |s: &str| Expr::Ident(s.to_string());
    let txt = |ps: Vec<Piece>| Node::Text(ps);
    let bind = |e: Expr| Piece::Bind(e);
    let lit = |s: &str| Piece::Lit(s.to_string());
    let spread_arr = |lead: bool| {
        let mut items = vec![];
        if lead {
            items.push(ArrItem::Item(Expr::Ident("a".into())));
        }
        items.push(ArrItem::Spread(Expr::Paren(Box::new(Expr::Binary(BinOp::Or, Box::new(Expr::Ident("c".into())), Box::new(Expr::Arr(vec![])))))));
        items.push(ArrItem::Item(Expr::Ident("b".into())));
        Expr::Arr(items)
    };
    let member = |o: Expr, m: &str| Expr::Member(Box::new(o), m.to_string());
    let index = |o: Expr, i: &str| Expr::Index(Box::new(o), Box::new(Expr::Num(i.to_string())));
    (0usize..12, any::<bool>(), any::<bool>(), gen::data::keyed_list(), proptest::collection::vec(gen::data::scalar(), 0..4), gen::data::scalar(), gen::data::scalar(), proptest::collection::vec(gen::history::step(), 1..=max_steps), proptest::collection::vec(gen::history::step_splice(), 1..=max_steps), any::<u64>(), gen::history::slot_ops(max_steps))
        .prop_map(move |(shape, keyed, lead, list, c, a, b, steps, steps_splice, style, slot_ops)| {
            // shapes 8, 9 read their arrays through wx:for only: the exact `index.ts` splice tree is sound for them
            let steps = if shape >= 8 { steps_splice } else { steps };
            let for_ = |list: Expr, key: Option<&str>, kids: Vec<Node>| Node::For(Box::new(ForNode { list: Val::Bind(list), item: None, index: None, key: key.map(|k| k.to_string()), kids, carrier: Carrier::Block }));
            let mut named = vec![];
            let body = match shape {
                // keyed loop, body reads outside the item
                0 => vec![for_(id("list"), if keyed { Some("id") } else { None }, vec![txt(vec![bind(member(id("item"), "v")), lit("|"), bind(id("a")), lit("|"), bind(id("index"))])])],
                // nested: inner loop reads the outer item and a field
                1 => vec![for_(id("list"), if keyed { Some("id") } else { None }, vec![for_(Expr::Paren(Box::new(Expr::Binary(BinOp::Or, Box::new(id("c")), Box::new(Expr::Arr(vec![]))))), None, vec![txt(vec![bind(id("item")), lit("/"), bind(id("a"))])]), txt(vec![bind(member(id("item"), "id"))])])],
                // template data: array literal with a spread, read by position inside the called template
                2 => {
                    // one node per position: a text node is refreshed as a whole when any of its bindings is marked
                    let cell = |i: &str| Node::El(crate::model::wxml::El { tag: "v".into(), attrs: vec![], slot: None, slot_refs: vec![], kids: vec![txt(vec![bind(index(id("x"), i))])] });
                    named.push(("t1".to_string(), vec![cell("0"), cell("1"), cell("2"), cell("3"), cell("4"), txt(vec![lit("#"), bind(member(id("x"), "length"))])]));
                    vec![Node::Tis(Tis { is: Val::Static("t1".into()), data: Some(vec![ObjItem::KV("x".into(), spread_arr(lead))]), data_expr: None })]
                }
                // loop over such a literal
                3 => vec![for_(spread_arr(lead), None, vec![txt(vec![bind(id("item")), lit("@"), bind(id("index"))])])],
                // member of such a literal
                4 => vec![txt(vec![bind(index(spread_arr(lead), "1")), lit(";"), bind(member(spread_arr(lead), "length"))])],
                // readers of the list's length / single items next to a loop over it (splice-shaped trees)
                6 => vec![txt(vec![bind(member(id("c"), "length")), lit(";"), bind(index(id("c"), "0")), lit(";"), bind(member(id("list"), "length"))]), for_(id("c"), None, vec![txt(vec![bind(id("item")), lit(",")])])],
                7 => vec![
                    Node::El(crate::model::wxml::El { tag: "v".into(), attrs: vec![crate::model::wxml::Attr { kind: crate::model::wxml::AttrKind::Plain, name: "n".into(), val: Some(Val::Bind(member(id("list"), "length"))) }], slot: None, slot_refs: vec![], kids: vec![] }),
                    for_(id("list"), if keyed { Some("id") } else { None }, vec![txt(vec![bind(member(id("item"), "v")), lit("#"), bind(member(id("list"), "length"))])]),
                ],
                8 => vec![for_(id("list"), if keyed { Some("id") } else { None }, vec![txt(vec![bind(member(id("item"), "v")), lit("|"), bind(id("a")), lit("|"), bind(id("index"))])]), for_(id("c"), None, vec![txt(vec![bind(id("item")), lit(","), bind(id("index"))])])],
                9 => vec![for_(id("list"), if keyed { Some("id") } else { None }, vec![for_(id("c"), if lead { Some("*this") } else { None }, vec![txt(vec![bind(id("item")), lit("/"), bind(id("index"))])]), txt(vec![bind(member(id("item"), "id"))])])],
                // content of a dynamic-slot component reading slot values (plain, aliased, shadowed by a loop), outside fields
                // and both, while the component changes slot values and adds / removes / renames slots
                10 | 11 => {
                    use crate::model::wxml::{BlockNode, El, SlotRef};
                    let sr = |n: &str, al: Option<&str>| SlotRef { name: n.into(), alias: al.map(|x| x.to_string()) };
                    let el = |slot: Option<&str>, refs: Vec<SlotRef>, kids: Vec<Node>| Node::El(El { tag: "v".into(), attrs: vec![], slot: slot.map(|x| Val::Static(x.into())), slot_refs: refs, kids });
                    let first = el(
                        None,
                        vec![sr("sa", None), sr("sd", Some("al0"))],
                        vec![txt(vec![bind(id("sa")), lit("|"), bind(id("a")), lit("|"), bind(index(id("al0"), "0"))]), for_(id("al0"), if lead { Some("*this") } else { None }, vec![txt(vec![bind(id("item")), lit(","), bind(id("sa")), lit(","), bind(id("b"))])])],
                    );
                    let second = el(Some("s1"), vec![sr("sb", None), sr("item", None)], vec![txt(vec![bind(id("sb")), lit("#"), bind(member(id("item"), "v")), lit("#"), bind(id("b"))])]);
                    let third = Node::Block(BlockNode {
                        slot: if keyed { Some(Val::Static("s2".into())) } else { None },
                        slot_refs: vec![sr("s-c", None)],
                        kids: vec![el(None, vec![], vec![txt(vec![bind(member(id("sC"), "k"))])]), Node::If(vec![crate::model::wxml::Branch { cond: Some(Val::Bind(member(id("sC"), "k"))), kids: vec![el(None, vec![], vec![txt(vec![lit("Y"), bind(id("a"))])])], carrier: Carrier::Block }])],
                    });
                    let host = Node::El(El { tag: "dyn-c".into(), attrs: vec![], slot: None, slot_refs: vec![], kids: vec![first, second, third] });
                    if shape == 10 { vec![host] } else { vec![for_(id("c"), None, vec![host])] }
                }
                // loop inside a called template whose data carries the list and an outside field
                _ => {
                    named.push(("t2".to_string(), vec![for_(id("list"), if keyed { Some("id") } else { None }, vec![txt(vec![bind(member(id("item"), "v")), lit("~"), bind(id("a"))])])]));
                    vec![Node::Tis(Tis { is: Val::Static("t2".into()), data: Some(vec![ObjItem::Short("list".into()), ObjItem::Short("a".into())]), data_expr: None })]
                }
            };
            let group = Group { files: vec![Tmpl { path: "p".into(), named, body: crate::model::wxml::normalise_nodes(body), ..Default::default() }], scripts: vec![] };
            let mut items: Vec<(String, JsVal)> = vec![("list".into(), list), ("c".into(), JsVal::Arr(c)), ("a".into(), a), ("b".into(), b)];
            gen::data::finish_env(&mut items, vec![], JsVal::Null);
            Case { group, d0: JsVal::Obj(items), steps, style, slot_ops: if shape >= 10 { slot_ops } else { vec![] } }
        })
        .boxed()
}

// ---------------------------------------------------------------------------------------------------------------
// engine stage: the real template engine of tmpl/index.ts

/// One data operation of a batch (js/worker.mjs `engine`): a replace on one of eleven paths of the small data object or a
/// splice of one of its three arrays; indexes are resolved against the data at that moment.
#[derive(Clone, Debug, Serialize, Deserialize, PartialEq)]
pub struct EngineOp {
    pub splice: bool,
    pub target: u8,
    pub i: u32,
    pub j: u32,
    pub del: u8,
    pub val: JsVal,
    pub vals: Vec<JsVal>,
}

#[derive(Clone, Debug, Serialize, Deserialize)]
pub struct EngineCase {
    pub shape: u8,
    pub keyed: bool,
    pub d0: JsVal,
    /// one `updateValues` call each
    pub batches: Vec<Vec<EngineOp>>,
    /// template update mode: default (binding map for single top-level changes) or `virtualTree`
    pub virtual_tree: bool,
    pub style: u64,
    pub engine_stage: bool,
}

pub struct C06Engine;

pub fn engine_group(c: &EngineCase) -> Group {
    use crate::model::expr::{BinOp, Expr, ObjItem};
    use crate::model::wxml::{Attr, AttrKind, Branch, Carrier, El, ForNode, Node, Piece, Tis, Tmpl, Val};
    let id = |s: &str| Expr::Ident(s.to_string());
    let txt = |ps: Vec<Piece>| Node::Text(ps);
    let bind = |e: Expr| Piece::Bind(e);
    let lit = |s: &str| Piece::Lit(s.to_string());
    let member = |o: Expr, m: &str| Expr::Member(Box::new(o), m.to_string());
    let key = if c.keyed { Some("id") } else { None };
    let for_ = |list: Expr, key: Option<&str>, kids: Vec<Node>| Node::For(Box::new(ForNode { list: Val::Bind(list), item: None, index: None, key: key.map(|k| k.to_string()), kids, carrier: Carrier::Block }));
    let ol = || member(id("o"), "l");
    let mut named = vec![];
    let body = match c.shape % 7 {
        0 => vec![for_(id("list"), key, vec![txt(vec![bind(member(id("item"), "v")), lit("|"), bind(id("a")), lit("|"), bind(id("index"))])]), for_(id("c"), None, vec![txt(vec![bind(id("item")), lit(","), bind(id("index"))])])],
        1 => vec![for_(id("list"), key, vec![for_(id("c"), if c.keyed { Some("*this") } else { None }, vec![txt(vec![bind(id("item")), lit("/"), bind(id("index"))])]), txt(vec![bind(member(id("item"), "id"))])])],
        2 => vec![
            txt(vec![bind(member(id("c"), "length")), lit(";"), bind(member(id("list"), "length")), lit(";"), bind(member(ol(), "length"))]),
            for_(id("c"), None, vec![txt(vec![bind(id("item")), lit(",")])]),
            for_(ol(), None, vec![txt(vec![bind(id("item")), lit("~")])]),
        ],
        3 => vec![
            Node::El(El { tag: "v".into(), attrs: vec![Attr { kind: AttrKind::Plain, name: "n".into(), val: Some(Val::Bind(member(id("list"), "length"))) }], slot: None, slot_refs: vec![], kids: vec![] }),
            for_(id("list"), key, vec![txt(vec![bind(member(id("item"), "v")), lit("#"), bind(member(id("list"), "length"))])]),
        ],
        4 => vec![for_(ol(), None, vec![txt(vec![bind(id("item")), lit("~"), bind(member(id("o"), "n")), lit("~"), bind(id("a"))])]), txt(vec![bind(member(id("o"), "n")), lit("|"), bind(id("a")), lit("|"), bind(id("b"))])],
        5 => {
            named.push(("t2".to_string(), vec![for_(id("list"), key, vec![txt(vec![bind(member(id("item"), "v")), lit("~"), bind(id("a"))])]), txt(vec![bind(member(id("list"), "length"))])]));
            vec![Node::Tis(Tis { is: Val::Static("t2".into()), data: Some(vec![ObjItem::Short("list".into()), ObjItem::Short("a".into())]), data_expr: None })]
        }
        _ => vec![Node::If(vec![
            Branch { cond: Some(Val::Bind(member(id("c"), "length"))), kids: vec![for_(id("c"), None, vec![txt(vec![bind(id("item")), lit(",")])])], carrier: Carrier::Block },
            Branch { cond: None, kids: vec![txt(vec![lit("empty"), bind(Expr::Binary(BinOp::Add, Box::new(id("a")), Box::new(id("b"))))])], carrier: Carrier::Block },
        ])],
    };
    Group { files: vec![Tmpl { path: "p".into(), named, body: crate::model::wxml::normalise_nodes(body), ..Default::default() }], scripts: vec![] }
}

fn engine_op() -> BoxedStrategy<EngineOp> {
    (proptest::bool::weighted(0.45), 0u8..11, 0u32..64, 0u32..64, 0u8..3, gen::data::scalar(), proptest::collection::vec(gen::data::scalar(), 0..3))
        .prop_map(|(splice, target, i, j, del, val, vals)| EngineOp { splice, target, i, j, del, val, vals })
        .boxed()
}

impl PropCheck for C06Engine {
    type Case = EngineCase;

    fn strategy(&self) -> BoxedStrategy<EngineCase> {
        (
            0u8..7,
            any::<bool>(),
            gen::data::keyed_list(),
            proptest::collection::vec(gen::data::scalar(), 0..4),
            proptest::collection::vec(gen::data::scalar(), 0..3),
            (gen::data::scalar(), gen::data::scalar(), gen::data::scalar()),
            proptest::collection::vec(proptest::collection::vec(engine_op(), 1..6), 1..4),
            any::<bool>(),
            any::<u64>(),
            0u8..3,
        )
            .prop_map(|(shape, keyed, list, c, ol, (a, b, n), mut batches, virtual_tree, style, focus)| {
                // three of five operations work on one array of the case (whole, item, field of an item, splice), so that
                // one batch often replaces below an array and splices it, in both orders
                for b in batches.iter_mut() {
                    for o in b.iter_mut() {
                        if o.j % 5 < 3 {
                            if o.splice {
                                o.target = focus;
                            } else {
                                let paths: &[u8] = match focus {
                                    0 => &[2, 3, 3],
                                    1 => &[4, 5, 6, 6],
                                    _ => &[8, 9, 9],
                                };
                                o.target = paths[(o.i as usize / 7) % paths.len()];
                            }
                        }
                    }
                }
                let d0 = JsVal::Obj(vec![("list".into(), list), ("c".into(), JsVal::Arr(c)), ("a".into(), a), ("b".into(), b), ("o".into(), JsVal::Obj(vec![("l".into(), JsVal::Arr(ol)), ("n".into(), n)]))]);
                EngineCase { shape, keyed, d0, batches, virtual_tree, style, engine_stage: true }
            })
            .boxed()
    }

    fn eval(&self, w: Option<&mut Worker>, cases: &[EngineCase]) -> Result<Vec<Outcome>, String> {
        let w = w.ok_or("no worker")?;
        let mut outs = vec![];
        for c in cases {
            outs.push(eval_engine_case(w, c)?);
        }
        Ok(outs)
    }

    fn case_json(&self, case: &EngineCase) -> Value {
        let src = crate::compile::print_group(&engine_group(case), case.style);
        json!({"case": serde_json::to_value(case).unwrap(), "source": src, "engine_stage": true})
    }

    fn case_from_json(&self, v: &Value) -> Result<EngineCase, String> {
        serde_json::from_value(v["case"].clone()).map_err(|e| e.to_string())
    }

    fn owns_case(&self, v: &Value) -> bool {
        v["engine_stage"].as_bool() == Some(true)
    }
}

pub fn eval_engine_case(w: &mut Worker, c: &EngineCase) -> Result<Outcome, String> {
    let mut out = Outcome::default();
    let group = engine_group(c);
    let compiled = match compile_group(&group, c.style) {
        Ok(x) => x,
        Err(p) => {
            out.failures.push(Failure { sig: format!("C06|engine|compiler-panic|{}", short_hash(&p)), tag: None, what: format!("compiler panicked: {}", p), detail: json!({}) });
            return Ok(out);
        }
    };
    let src0 = compiled.sources[0].1.clone();
    let batches: Vec<Vec<Value>> = c
        .batches
        .iter()
        .map(|b| b.iter().map(|o| json!({"k": if o.splice { "splice" } else { "replace" }, "target": o.target, "i": o.i, "j": o.j, "del": o.del, "val": o.val.to_js(), "vals": o.vals.iter().map(|v| v.to_js()).collect::<Vec<_>>()})).collect())
        .collect();
    let d0 = c.d0.to_js();
    let req = json!({"kind":"engine","bundle":compiled.bundle,"entry":"p","data0":d0,"batches":batches,"mode": if c.virtual_tree { "virtualTree" } else { "" }});
    let resp = w.request(&req).map_err(|e| e.0)?;
    out.labels.push(format!("engine:shape{}", c.shape % 7));
    out.labels.push(if c.virtual_tree { "engine:mode-virtualTree".into() } else { "engine:mode-default".into() });
    out.sample = Some(json!({"source": crate::util::truncate(&src0, 300), "d0": crate::util::truncate(&d0, 200)}));
    if let Some(e) = resp.get("error") {
        out.failures.push(Failure { sig: format!("C06|engine|bundle-error|{}", short_hash(e.as_str().unwrap_or(""))), tag: None, what: format!("generated code does not load: {}", e), detail: json!({}) });
        return Ok(out);
    }
    if resp.get("createThrew").is_some() {
        out.labels.push("create-threw".into());
        return Ok(out);
    }
    let steps = resp["steps"].as_array().cloned().unwrap_or_default();
    if resp.get("domainExit").is_some() || steps.iter().any(|s| s.get("domainExit").is_some()) {
        out.labels.push("domain-exit:non-unique-keys".into());
        out.excluded += 1;
    }
    out.units = steps.iter().map(|s| s["nodes"].as_u64().unwrap_or(0)).sum();
    let mut compared = false;
    for s in &steps {
        for l in s["labels"].as_array().cloned().unwrap_or_default() {
            if let Some(l) = l.as_str() {
                out.labels.push(format!("engine:{}", l));
            }
        }
        if s.get("nodes").is_some() {
            compared = true;
        }
        let i = s["step"].as_u64().unwrap_or(0);
        if let Some(m) = s["mismatches"].as_array().and_then(|a| a.first()) {
            let m = Mismatch::from_json(m);
            let class = if m.ch == "throw" { "throw".to_string() } else { format!("stale|{}", m.ch) };
            out.failures.push(Failure {
                sig: format!("C06|engine|{}", class),
                tag: None,
                what: format!("engine stage, after batch {} ({}): {} (expected = fresh instance with the new data) ; source {:?}", i, s["changes"].as_str().unwrap_or(""), m.describe(), crate::util::truncate(&src0, 200)),
                detail: json!({"batch": i, "changes": s["changes"], "data_after": s["data"], "source": src0}),
            });
        }
    }
    out.labels.sort();
    out.labels.dedup();
    if compared {
        out.nt.push(fnv64(format!("{}|{}|{:?}", src0, d0, batches).as_bytes()));
    }
    Ok(out)
}

pub fn expand(c: &Case) -> (Vec<String>, Vec<Value>, Vec<Vec<String>>) {
    let mut datas = vec![c.d0.to_js()];
    let mut trees = vec![];
    let mut labels = vec![];
    let mut cur = c.d0.clone();
    for s in &c.steps {
        let a = apply_step(&cur, s);
        datas.push(a.data.to_js());
        trees.push(a.tree.to_json());
        labels.push(a.labels.clone());
        cur = a.data;
    }
    (datas, trees, labels)
}

pub fn eval_case(w: &mut Worker, c: &Case) -> Result<Outcome, String> {
    let mut out = Outcome::default();
    let (datas, trees, step_labels) = expand(c);
    let compiled = match compile_group(&c.group, c.style) {
        Ok(x) => x,
        Err(p) => {
            out.failures.push(Failure { sig: format!("C06|compiler-panic|{}", short_hash(&p)), tag: None, what: format!("compiler panicked: {}", p), detail: json!({}) });
            return Ok(out);
        }
    };
    let src0 = compiled.sources[0].1.clone();
    let slot_ops: Vec<Vec<Value>> = c.slot_ops.iter().take(c.steps.len()).map(|ops| ops.iter().map(|o| o.to_json()).collect()).collect();
    let req = json!({"kind":"history","bundle":compiled.bundle,"entry":"p","data":datas,"trees":trees,"slotOps":slot_ops});
    let resp = w.request(&req).map_err(|e| e.0)?;
    for l in step_labels.iter().flatten() {
        out.labels.push(l.clone());
    }
    for ops in c.slot_ops.iter().take(c.steps.len()) {
        for o in ops {
            out.labels.push(format!("slot-op:{}", ["set-value", "remove", "insert", "rename", "remove-two"][(o.kind as usize).min(4)]));
        }
    }
    out.labels.sort();
    out.labels.dedup();
    let mut labels2 = vec![];
    super::c04::node_labels(&c.group.files[0].body, &mut labels2);
    labels2.retain(|l| l.starts_with("kind:") || l.starts_with("for:"));
    labels2.sort();
    labels2.dedup();
    out.labels.extend(labels2);
    out.sample = Some(json!({"source": crate::util::truncate(&src0, 400), "d0": crate::util::truncate(&datas[0], 200), "d1": crate::util::truncate(&datas[1], 200), "u1": trees[0]}));
    if !judge_history(&mut out, &resp, 0, &src0, &datas, &trees, &step_labels) {
        return Ok(out);
    }
    // the same history once more through the real template engine of tmpl/index.ts (three cases in four): the engine
    // builds the update-path tree from one replace-type change per marked leaf, or — default mode, one top-level change of
    // an advertised field — dispatches to the binding-map updaters; tree updates and binding-map updates then interleave
    // on one instance
    let via = match c.style % 4 {
        0 | 2 => 1u8,
        1 => 2u8,
        _ => 0u8,
    };
    if via != 0 && out.failures.is_empty() {
        let req = json!({"kind":"history","bundle":compiled.bundle,"entry":"p","data":datas,"trees":trees,"slotOps":slot_ops,"viaEngine":via});
        let resp = w.request(&req).map_err(|e| e.0)?;
        out.labels.push(if via == 1 { "via-engine:default-mode".into() } else { "via-engine:virtualTree".into() });
        judge_history(&mut out, &resp, via, &src0, &datas, &trees, &step_labels);
    }
    Ok(out)
}

/// judge one `history` response; returns false when nothing further should be asked for this case
fn judge_history(out: &mut Outcome, resp: &Value, via: u8, src0: &str, datas: &[String], trees: &[Value], step_labels: &[Vec<String>]) -> bool {
    if let Some(e) = resp.get("error") {
        out.failures.push(Failure { sig: format!("C06|bundle-error|{}", short_hash(e.as_str().unwrap_or(""))), tag: None, what: format!("generated code does not load: {}", e), detail: json!({}) });
        return false;
    }
    if resp.get("createThrew").is_some() {
        // creation itself throws for this data (a data-dependent throw such as calling a template named by a non-string):
        // nothing to compare; counted
        if via == 0 {
            out.labels.push("create-threw".into());
        }
        return false;
    }
    let steps = resp["steps"].as_array().cloned().unwrap_or_default();
    if resp.get("domainExit").is_some() || steps.iter().any(|s| s.get("domainExit").is_some()) {
        if via == 0 {
            out.labels.push("domain-exit:non-unique-keys".into());
            out.excluded += 1;
        }
    }
    out.units += steps.iter().map(|s| s["nodes"].as_u64().unwrap_or(0)).sum::<u64>();
    let nonempty_steps = step_labels.iter().filter(|l| !l.iter().any(|x| x == "diff:empty")).count();
    if via == 0 && nonempty_steps > 0 && !steps.is_empty() {
        out.nt.push(fnv64(format!("{}|{}", src0, datas.join("|")).as_bytes()));
    }
    for s in steps {
        let i = s["step"].as_u64().unwrap_or(0) as usize;
        if s["engine"]["viaMap"].as_bool() == Some(true) {
            out.labels.push("via-engine:step-by-binding-map".into());
        } else if s["engine"]["n"].as_u64().is_some() {
            out.labels.push("via-engine:step-by-tree".into());
        }
        if s["engine"]["splices"].as_u64().unwrap_or(0) > 0 {
            out.labels.push("via-engine:splice-change".into());
        }
        for m in s["mismatches"].as_array().cloned().unwrap_or_default().iter().take(2) {
            let m = Mismatch::from_json(m);
            let style = step_labels.get(i - 1).and_then(|l| l.iter().find(|x| x.starts_with("tree:"))).cloned().unwrap_or_default();
            let stage = match via {
                0 => "",
                1 => "via-engine|",
                _ => "via-engine-virtualTree|",
            };
            let sig = if m.ch == "throw" { format!("C06|{}throw|{}", stage, crate::util::truncate(m.actual.split(" | ").next().unwrap_or(""), 80)) } else { format!("C06|{}stale|{}|{}", stage, m.ch, style) };
            // listed finding C06-F1: exactly "slot attribute value became undefined, previous slot kept"
            let tag = if m.ch == "slot" && m.expected == "undefined" { Some("slot-attr-becomes-undefined".to_string()) } else { None };
            let how = match via {
                0 => String::new(),
                _ => format!(
                    " [driven through tmpl/index.ts updateValues, mode {}, {}]",
                    if via == 1 { "default" } else { "virtualTree" },
                    if s["engine"]["viaMap"].as_bool() == Some(true) { "this step dispatched to the binding-map updaters".to_string() } else { format!("this step = {} replace changes", s["engine"]["n"].as_u64().unwrap_or(0)) }
                ),
            };
            out.failures.push(Failure {
                sig,
                tag,
                what: format!("after update step {} ({}){}: {} (expected = fresh creation with the new data)", i, step_labels.get(i - 1).map(|l| l.join(",")).unwrap_or_default(), how, m.describe()),
                detail: json!({"step": i, "data_before": datas[i - 1], "data_after": datas[i], "tree": trees[i - 1], "via_engine": via}),
            });
        }
    }
    out.labels.sort();
    out.labels.dedup();
    true
}

pub fn run(tier: Tier, seed: u64, findings: &Findings) -> i32 {
    let started = Instant::now();
    let cfg = RunCfg { prop: "C06", tier, seed };
    let mut wc = gen::wxml::WxmlCfg::new(tier.pick(2, 3), tier.pick(2, 3));
    // slot value scopes: dynamic-slot components of the stub DOM and `slot:` references on their children
    wc.slot_refs = true;
    wc.dyn_tags = true;
    let check = C06 { cfg: wc, max_steps: 4 };
    let mut report = engine::Report::default();
    report.merge(super::run_regress(&check, &cfg, findings));
    let cases = tier.pick(30_000, 400_000);
    report.merge(engine::run_generated(&check, &cfg, cases, 8, 16, findings, 0));
    // the real template engine (tmpl/index.ts) over focused templates
    report.merge(super::run_regress(&C06Engine, &cfg, findings));
    report.merge(engine::run_generated(&C06Engine, &cfg, tier.pick(12_000, 300_000), 8, 16, findings, 1));
    engine::finish(
        Finish {
            cfg,
            report,
            rule: "cases = (generated multi-file group, D0, 1-4 update steps); each step = 1-3 interpreted edits (replace, delete, array push/pop/insert/remove/swap/reverse, keyed insert, list kind flip, object key reorder) and an update-path tree built from the actual diff in one of the styles exact / coarsened / extra marks / splice-shaped prototype array / true (asserted to cover the diff); for templates with a dynamic-slot component a step also carries 0-3 slot operations (set a slot value, insert / remove / rename a slot, remove two slots in one call; before or after the owner's update) performed on every live component through the shadow-root protocol (replaceSlotValue, applySlotValueUpdates, applySlotUpdates, insert / remove handlers), the fresh side starting from the resulting slot list. Oracle: after every step dump(updated instance) deep-equals dump(fresh creation with the same data), real generated code + real ProcGenWrapper + real RangeListManager on the stub DOM on both sides. non-trivial = at least one step with a non-empty diff that was compared; distinct by (source, data sequence). compared_units = nodes compared after updates. Engine stage: cases = (one of seven focused templates, small data object, 1-3 batches of 1-5 replace / splice operations, update mode); the real GlassEaselTemplateEngine of tmpl/index.ts runs initValues / updateValues(data, changes) and is compared with a fresh instance after every batch.".into(),
            assumptions: vec!["stub DOM child operations mirror element.ts".into(), "update-path trees are null-prototype objects / prototype arrays as built by tmpl/index.ts; splice-shaped trees mark shifted indexes and length too, except in scenarios whose arrays are read through wx:for alone".into(), "js/stub_dom.mjs DynShadowRoot mirrors the dynamic-slot protocol of shadow_root.ts; the light-DOM order of a dynamic-slot host is compared per slot instance".into()],
            started,
            exhaustive: false,
        },
        findings,
    )
}

pub fn replay(v: &Value, path: &str, findings: &Findings) -> i32 {
    if v["case"]["engine_stage"].as_bool() == Some(true) {
        return super::replay_generic(&C06Engine, "C06", v, path, findings);
    }
    let check = C06 { cfg: gen::wxml::WxmlCfg::new(2, 2), max_steps: 4 };
    super::replay_generic(&check, "C06", v, path, findings)
}
