//! C20 — compilation is a deterministic function of the set of inputs.
//!
//! Generated multi-file groups (templates with several bound fields, inline and external scripts, imports, includes) are
//! compiled (a) repeatedly in this process, (b) in several insertion orders, (c) in fresh processes (`gev emit -`, fresh
//! hash seeds), (d) with a part of the files arriving through `import_group`; every artefact of every emit API must be
//! byte-identical to the first run's. Generated stylesheets are transformed repeatedly in-process and in fresh processes:
//! CSS, low-priority CSS and source map bytes must be identical.

use super::c17;
use crate::compile::{compile_sources, print_group};
use crate::engine::{self, Failure, Finish, Outcome, PropCheck, RunCfg, Tier};
use crate::findings::Findings;
use crate::gen;
use crate::jsworker::Worker;
use crate::model::css;
use crate::model::wxml::Group;
use crate::util::fnv64;
use glass_easel_stylesheet_compiler::{StyleSheetOptions, StyleSheetTransformer};
use proptest::prelude::*;
use serde::{Deserialize, Serialize};
use serde_json::{json, Map, Value};
use std::io::Write;
use std::panic::{catch_unwind, AssertUnwindSafe};
use std::time::Instant;

fn opt_str(v: &Value) -> Option<String> {
    v.as_str().map(|s| s.to_string())
}

/// Everything the public emit APIs produce for the request, as a JSON object of strings.
pub fn emit_artefacts(v: &Value) -> Value {
    let pairs = |k: &str| -> Vec<(String, String)> { v[k].as_array().map(|a| a.iter().filter_map(|x| Some((x[0].as_str()?.to_string(), x[1].as_str()?.to_string()))).collect()).unwrap_or_default() };
    let files = pairs("files");
    let scripts = pairs("scripts");
    let dev = v["dev"].as_bool().unwrap_or(false);
    let mut out = Map::new();
    if !files.is_empty() {
        let split = v["import_split"].as_u64().map(|n| n as usize);
        let res = catch_unwind(AssertUnwindSafe(|| {
            let mut art: Vec<(String, String)> = vec![];
            let group = match split {
                None if v["incremental"].as_bool() == Some(true) => {
                    // an incremental build: every emit API is called after every added file (results discarded); what the
                    // finished group emits must not depend on that history
                    let mut g = if dev { glass_easel_template_compiler::TmplGroup::new_dev() } else { glass_easel_template_compiler::TmplGroup::new() };
                    let poke = |g: &glass_easel_template_compiler::TmplGroup, p: &str| {
                        let _ = g.get_tmpl_gen_object_groups();
                        let _ = g.get_wx_gen_object_groups();
                        let _ = g.export_globals();
                        let _ = g.export_all_scripts();
                        let _ = g.get_runtime_string();
                        let _ = g.get_tmpl_gen_object(p);
                    };
                    let scripts_first = v["scripts_first"].as_bool().unwrap_or(false);
                    if scripts_first {
                        for (path, js) in &scripts {
                            g.add_script(path, js);
                            poke(&g, path);
                        }
                    }
                    for (path, src) in &files {
                        let _ = g.add_tmpl(path, src);
                        poke(&g, path);
                    }
                    if !scripts_first {
                        for (path, js) in &scripts {
                            g.add_script(path, js);
                            poke(&g, &files[0].0);
                        }
                    }
                    if let Some(x) = v["extra"].as_str() {
                        g.set_extra_runtime_script(x);
                    }
                    g
                }
                None => {
                    let (mut g, _) = compile_sources(&files, &scripts, dev).map_err(|p| format!("panic: {}", p))?;
                    if let Some(x) = v["extra"].as_str() {
                        g.set_extra_runtime_script(x);
                    }
                    g
                }
                Some(n) => {
                    // one part of the files arrives through import_group
                    let n = n.min(files.len());
                    let tail = v["imported_is_tail"].as_bool().unwrap_or(false);
                    let (imp_files, own_files) = if tail { (&files[n..], &files[..n]) } else { (&files[..n], &files[n..]) };
                    let with_imp = v["scripts_with_imported"].as_bool().unwrap_or(true);
                    let none: Vec<(String, String)> = vec![];
                    let (imp_scripts, own_scripts) = if with_imp { (&scripts, &none) } else { (&none, &scripts) };
                    let (a, _) = compile_sources(imp_files, imp_scripts, dev).map_err(|p| format!("panic: {}", p))?;
                    let (mut b, _) = compile_sources(own_files, own_scripts, dev).map_err(|p| format!("panic: {}", p))?;
                    if let Some(x) = v["extra"].as_str() {
                        b.set_extra_runtime_script(x);
                    }
                    b.import_group(&a);
                    b
                }
            };
            let show = |r: Result<String, glass_easel_template_compiler::TmplError>| r.unwrap_or_else(|e| format!("TmplError: {}", e.message));
            art.push(("get_tmpl_gen_object_groups".into(), show(group.get_tmpl_gen_object_groups())));
            art.push(("get_wx_gen_object_groups".into(), show(group.get_wx_gen_object_groups())));
            art.push(("export_globals".into(), show(group.export_globals())));
            art.push(("export_all_scripts".into(), show(group.export_all_scripts())));
            art.push(("get_runtime_string".into(), group.get_runtime_string()));
            let mut paths: Vec<&String> = files.iter().map(|(p, _)| p).collect();
            paths.sort();
            paths.dedup();
            for p in paths {
                art.push((format!("get_tmpl_gen_object({})", p), show(group.get_tmpl_gen_object(p))));
                art.push((format!("stringify_tmpl({})", p), group.stringify_tmpl(p).unwrap_or_default()));
                art.push((format!("direct_dependencies({})", p), group.direct_dependencies(p).map(|i| i.collect::<Vec<_>>().join("\n")).unwrap_or_default()));
            }
            Ok::<_, String>(art)
        }));
        match res {
            Ok(Ok(art)) => {
                for (k, s) in art {
                    out.insert(k, Value::String(s));
                }
            }
            Ok(Err(e)) => {
                out.insert("error".into(), Value::String(e));
            }
            Err(p) => {
                out.insert("error".into(), Value::String(format!("panic: {}", crate::compile::panic_message(p))));
            }
        }
    }
    if let Some(c) = v.get("css") {
        let o = &c["options"];
        let options = StyleSheetOptions {
            class_prefix: opt_str(&o["class_prefix"]),
            class_prefix_sign: opt_str(&o["class_prefix_sign"]),
            rpx_ratio: o["rpx_ratio"].as_f64().unwrap_or(750.0) as f32,
            import_sign: opt_str(&o["import_sign"]),
            convert_host: o["convert_host"].as_bool().unwrap_or(false),
            host_is: opt_str(&o["host_is"]),
        };
        let text = c["text"].as_str().unwrap_or("").to_string();
        let res = catch_unwind(AssertUnwindSafe(|| {
            let mut art: Vec<(String, String)> = vec![];
            let t = StyleSheetTransformer::from_css("sheet.wxss", &text, options.clone());
            let warnings: Vec<String> = t.warnings().map(|w| format!("{}@{:?}", w.kind, w.location)).collect();
            let (a, b) = t.output_and_low_priority_output();
            let mut sa = Vec::new();
            a.write(&mut sa).unwrap();
            let mut sb = Vec::new();
            b.write(&mut sb).unwrap();
            art.push(("css".into(), String::from_utf8_lossy(&sa).to_string()));
            art.push(("css_low_priority".into(), String::from_utf8_lossy(&sb).to_string()));
            art.push(("css_warnings".into(), warnings.join("\n")));
            let t2 = StyleSheetTransformer::from_css("sheet.wxss", &text, options.clone());
            let (a2, b2) = t2.output_and_low_priority_output();
            let mut m = Vec::new();
            let _ = a2.write_source_map(&mut m);
            art.push(("css_source_map".into(), String::from_utf8_lossy(&m).to_string()));
            let mut m = Vec::new();
            let _ = b2.write_source_map(&mut m);
            art.push(("css_low_priority_source_map".into(), String::from_utf8_lossy(&m).to_string()));
            art
        }));
        match res {
            Ok(art) => {
                for (k, s) in art {
                    out.insert(k, Value::String(s));
                }
            }
            Err(p) => {
                out.insert("css_error".into(), Value::String(format!("panic: {}", crate::compile::panic_message(p))));
            }
        }
    }
    Value::Object(out)
}

fn emit_in_fresh_process(req: &Value) -> Result<Value, String> {
    let exe = std::env::current_exe().map_err(|e| e.to_string())?;
    let mut child = std::process::Command::new(exe).arg("emit").arg("-").stdin(std::process::Stdio::piped()).stdout(std::process::Stdio::piped()).stderr(std::process::Stdio::null()).spawn().map_err(|e| format!("spawn: {}", e))?;
    child.stdin.take().unwrap().write_all(req.to_string().as_bytes()).map_err(|e| format!("write: {}", e))?;
    let out = child.wait_with_output().map_err(|e| format!("wait: {}", e))?;
    if !out.status.success() {
        return Err(format!("emit process exited with {:?}", out.status));
    }
    serde_json::from_slice(&out.stdout).map_err(|e| format!("emit output: {}", e))
}

#[derive(Clone, Debug, Serialize, Deserialize)]
pub struct Case {
    pub group: Group,
    pub style: u64,
    pub dev: bool,
    pub extra: bool,
    pub order_seed: u64,
    pub sheet: c17::Case,
}

pub struct C20 {
    pub tier: Tier,
}

impl PropCheck for C20 {
    type Case = Case;

    fn needs_worker(&self) -> bool {
        false
    }

    fn strategy(&self) -> BoxedStrategy<Case> {
        let mut cfg = gen::wxml::WxmlCfg::new(2, 2);
        cfg.wxs = true;
        let mut ccfg = gen::css::CssCfg::new();
        ccfg.hosts = true;
        ccfg.imports = true;
        let sheet = (gen::css::sheet(&ccfg), any::<u64>(), super::c08::opts_strategy(), any::<bool>(), any::<bool>(), any::<bool>()).prop_map(|(sheet, style, opts, convert_host, hi, is)| c17::Case {
            sheet,
            style,
            opts,
            convert_host,
            host_is: if hi { Some("comp".into()) } else { None },
            import_sign: if is { Some("IMPORT".into()) } else { None },
        });
        (gen::wxml::group(&cfg), any::<u64>(), any::<bool>(), any::<bool>(), any::<u64>(), sheet)
            .prop_map(|(mut group, style, dev, extra, order_seed, sheet)| {
                // compile-only check: slot value references can be used although the stub DOM has no dynamic slots
                let mut rng = crate::util::Rng::new(order_seed ^ 0x5107);
                for t in group.files.iter_mut() {
                    gen::wxml::add_slot_refs(&mut t.body, &mut rng);
                }
                Case { group, style, dev, extra, order_seed, sheet }
            })
            .boxed()
    }

    fn eval(&self, _w: Option<&mut Worker>, cases: &[Case]) -> Result<Vec<Outcome>, String> {
        let mut outs = vec![];
        for c in cases {
            outs.push(eval_case(self.tier, c)?);
        }
        Ok(outs)
    }

    fn max_shrink_evals(&self) -> u64 {
        150
    }

    fn case_json(&self, case: &Case) -> Value {
        json!({"case": serde_json::to_value(case).unwrap(), "source": print_group(&case.group, case.style), "sheet": css::print(&case.sheet.sheet, case.sheet.style).text})
    }

    fn case_from_json(&self, v: &Value) -> Result<Case, String> {
        serde_json::from_value(v["case"].clone()).map_err(|e| e.to_string())
    }
}

fn entity_names() -> &'static Vec<String> {
    static T: std::sync::OnceLock<Vec<String>> = std::sync::OnceLock::new();
    T.get_or_init(|| {
        let path = format!("{}/data/html5_entities.json", crate::jsworker::verif_root());
        let mut v: Vec<String> = vec![];
        if let Ok(text) = std::fs::read_to_string(path) {
            if let Ok(Value::Object(o)) = serde_json::from_str::<Value>(&text) {
                v = o.keys().cloned().collect();
            }
        }
        v.sort();
        v
    })
}

fn first_difference(a: &str, b: &str) -> String {
    let ab = a.as_bytes();
    let bb = b.as_bytes();
    let mut i = 0;
    while i < ab.len() && i < bb.len() && ab[i] == bb[i] {
        i += 1;
    }
    let ex = |s: &str| {
        let mut lo = i.saturating_sub(30);
        while !s.is_char_boundary(lo) {
            lo -= 1;
        }
        let mut hi = (i + 50).min(s.len());
        while !s.is_char_boundary(hi) {
            hi += 1;
        }
        s[lo..hi].to_string()
    };
    format!("lengths {} / {}, first difference at byte {}: {:?} vs {:?}", a.len(), b.len(), i, ex(a), ex(b))
}

/// compare artefact maps; returns (artefact name, description) of the first difference
fn differ(base: &Value, other: &Value) -> Option<(String, String)> {
    let (Some(a), Some(b)) = (base.as_object(), other.as_object()) else { return Some(("<shape>".into(), "not an object".into())) };
    for (k, va) in a {
        match b.get(k) {
            None => return Some((k.clone(), "artefact missing".into())),
            Some(vb) => {
                if va != vb {
                    return Some((k.clone(), first_difference(va.as_str().unwrap_or(""), vb.as_str().unwrap_or(""))));
                }
            }
        }
    }
    for k in b.keys() {
        if !a.contains_key(k) {
            return Some((k.clone(), "extra artefact".into()));
        }
    }
    None
}

fn artefact_class(k: &str) -> String {
    k.split('(').next().unwrap_or(k).to_string()
}

pub fn eval_case(tier: Tier, c: &Case) -> Result<Outcome, String> {
    let mut out = Outcome::default();
    let mut sources = print_group(&c.group, c.style);
    // character references in unusual spellings (wrong letter case, missing semicolon, unknown names): whatever they
    // decode to must not depend on the process
    {
        let mut rng = crate::util::Rng::new(c.order_seed ^ 0xE7);
        let names = entity_names();
        let mut tail = String::from("<v a=\"");
        for k in 0..8 {
            if names.is_empty() {
                break;
            }
            let n = &names[rng.below(names.len() as u64) as usize];
            let flipped: String = n.chars().enumerate().map(|(i, ch)| if (rng.below(3) == 0 || (k % 2 == 0 && i == 0)) && ch.is_ascii_alphabetic() { if ch.is_ascii_uppercase() { ch.to_ascii_lowercase() } else { ch.to_ascii_uppercase() } } else { ch }).collect();
            tail.push('&');
            tail.push_str(&flipped);
        }
        tail.push_str("\">&ALPHA;&EACUTE;&dAGGER;&notanentity;&#xZZ;&#;&amp</v>");
        sources[0].1.push_str(&tail);
    }
    let scripts: Vec<(String, String)> = c.group.scripts.iter().map(|s| (s.path.clone(), s.js.clone())).collect();
    let req = |files: &[(String, String)], scripts: &[(String, String)], split: Option<usize>| -> Value {
        let mut o = json!({"files": files.iter().map(|(p, s)| json!([p, s])).collect::<Vec<_>>(), "scripts": scripts.iter().map(|(p, s)| json!([p, s])).collect::<Vec<_>>(), "dev": c.dev});
        if c.extra {
            o["extra"] = json!("var __extra=1;");
        }
        if let Some(n) = split {
            o["import_split"] = json!(n);
        }
        o
    };
    let base = emit_artefacts(&req(&sources, &scripts, None));
    if let Some(e) = base.get("error") {
        out.labels.push("emit-error".into());
        out.sample = Some(json!({"error": e}));
        return Ok(out);
    }
    let fields: std::collections::BTreeSet<String> = {
        let mut s = std::collections::BTreeSet::new();
        let bundle = base["get_tmpl_gen_object_groups"].as_str().unwrap_or("");
        // bound fields of the binding-map initialisers `A={"f":new Array(n),...}`
        for part in bundle.split("A={").skip(1) {
            let inner = part.split('}').next().unwrap_or("");
            for kv in inner.split(',') {
                if let Some(k) = kv.split(':').next() {
                    s.insert(k.trim().to_string());
                }
            }
        }
        s
    };
    out.labels.push(format!("files:{}", sources.len()));
    if fields.len() >= 3 {
        out.labels.push("binding-map-fields>=3".into());
    }
    let src_all: String = sources.iter().map(|(p, s)| format!("{}:{}\n", p, s)).collect();
    out.sample = Some(json!({"files": sources.iter().map(|(p, s)| json!([p, crate::util::truncate(s, 200)])).collect::<Vec<_>>(), "binding_map_fields": fields.iter().take(8).collect::<Vec<_>>()}));
    let fail = |out: &mut Outcome, how: &str, name: &str, what: String, detail: Value| {
        out.failures.push(Failure { sig: format!("C20|{}|{}", how, artefact_class(name)), tag: Some(format!("{}:{}", how, artefact_class(name))), what: format!("{}: artefact `{}` is not byte-identical to the first run's: {}", how, name, what), detail });
    };
    // (a) same order, same process, again
    for rep in 0..tier.pick(2, 4) {
        let again = emit_artefacts(&req(&sources, &scripts, None));
        out.units += 1;
        if let Some((k, d)) = differ(&base, &again) {
            fail(&mut out, "repeated-run", &k, d, json!({"repetition": rep}));
            break;
        }
    }
    // (b) insertion orders
    let n = sources.len();
    let mut rng = crate::util::Rng::new(c.order_seed | 1);
    let orders = tier.pick(4, 24);
    for oi in 0..orders {
        let mut ord: Vec<usize> = (0..n).collect();
        if oi == 0 {
            ord.reverse();
        } else {
            for i in (1..n).rev() {
                let j = rng.below(i as u64 + 1) as usize;
                ord.swap(i, j);
            }
        }
        let permuted: Vec<(String, String)> = ord.iter().map(|i| sources[*i].clone()).collect();
        let mut sc = scripts.clone();
        if oi % 2 == 0 {
            sc.reverse();
        }
        let r = emit_artefacts(&req(&permuted, &sc, None));
        out.units += 1;
        if let Some((k, d)) = differ(&base, &r) {
            if !out.failures.iter().any(|f| f.sig.starts_with("C20|repeated-run")) {
                fail(&mut out, "insertion-order", &k, d, json!({"order": ord}));
            }
            break;
        }
    }
    // (b2) incremental builds: emit after every added file, in the original and in permuted orders
    for ii in 0..tier.pick(3, 8) {
        let mut ord: Vec<usize> = (0..n).collect();
        if ii > 0 {
            for i in (1..n).rev() {
                let j = rng.below(i as u64 + 1) as usize;
                ord.swap(i, j);
            }
        }
        let permuted: Vec<(String, String)> = ord.iter().map(|i| sources[*i].clone()).collect();
        // a group without external references needs no script file: then the inline modules alone decide whether the
        // script runtime is emitted
        let any_ref = c.group.files.iter().any(|t| t.wxs.iter().any(|w| matches!(w, crate::model::wxml::Wxs::Ref { .. })));
        let scriptless = !any_ref && ii % 3 != 1;
        let sc: Vec<(String, String)> = if scriptless { vec![] } else { scripts.clone() };
        let expected = if scriptless { emit_artefacts(&req(&sources, &sc, None)) } else { base.clone() };
        let mut r = req(&permuted, &sc, None);
        r["incremental"] = json!(true);
        r["scripts_first"] = json!(ii % 2 == 1);
        let r = emit_artefacts(&r);
        out.units += 1;
        if let Some((k, d)) = differ(&expected, &r) {
            if out.failures.is_empty() {
                fail(&mut out, "incremental-build", &k, d, json!({"order": ord, "scripts_first": ii % 2 == 1}));
            }
            break;
        }
    }
    // (c) fresh processes
    for pi in 0..tier.pick(2, 8) {
        let r = emit_in_fresh_process(&req(&sources, &scripts, None))?;
        out.units += 1;
        if let Some((k, d)) = differ(&base, &r) {
            fail(&mut out, "fresh-process", &k, d, json!({"process": pi}));
            break;
        }
    }
    // (d) import_group: a part of the files (with or without the scripts) arrives through another group
    if n >= 2 {
        let any_ref = c.group.files.iter().any(|t| t.wxs.iter().any(|w| matches!(w, crate::model::wxml::Wxs::Ref { .. })));
        let variants: Vec<(usize, bool, bool)> = vec![(1, false, true), (n - 1, false, false), (1, true, false), (n - 1, true, true)];
        for (split, imported_is_tail, scripts_with_imported) in variants {
            // without external references the group needs no script files at all: compare the script-less compilation
            let sc: Vec<(String, String)> = if any_ref { scripts.clone() } else { vec![] };
            let mut direct = req(&sources, &sc, None);
            let mut imp = req(&sources, &sc, Some(split));
            imp["imported_is_tail"] = json!(imported_is_tail);
            imp["scripts_with_imported"] = json!(scripts_with_imported);
            direct["x"] = json!(0);
            let d = emit_artefacts(&direct);
            let r = emit_artefacts(&imp);
            out.units += 1;
            if let Some((k, dsc)) = differ(&d, &r) {
                if out.failures.is_empty() {
                    fail(&mut out, "import-group", &k, dsc, json!({"split": split, "imported_is_tail": imported_is_tail, "scripts_with_imported": scripts_with_imported}));
                }
                break;
            }
        }
    }
    // stylesheet
    let printed = css::print(&c.sheet.sheet, c.sheet.style);
    let o = c17::options(&c.sheet);
    let creq = json!({"css": {"text": printed.text, "options": {"class_prefix": o.class_prefix, "class_prefix_sign": o.class_prefix_sign, "rpx_ratio": o.rpx_ratio, "import_sign": o.import_sign, "convert_host": o.convert_host, "host_is": o.host_is}}});
    let cbase = emit_artefacts(&creq);
    if cbase.get("css_error").is_none() {
        let again = emit_artefacts(&creq);
        out.units += 1;
        if let Some((k, d)) = differ(&cbase, &again) {
            fail(&mut out, "repeated-run", &k, d, json!({"sheet": printed.text}));
        }
        let r = emit_in_fresh_process(&creq)?;
        out.units += 1;
        if let Some((k, d)) = differ(&cbase, &r) {
            fail(&mut out, "fresh-process", &k, d, json!({"sheet": printed.text}));
        }
    } else {
        out.labels.push("css-emit-error".into());
    }
    if n >= 3 && fields.len() >= 3 {
        out.nt.push(fnv64(src_all.as_bytes()));
    }
    Ok(out)
}

pub fn run(tier: Tier, seed: u64, findings: &Findings) -> i32 {
    let started = Instant::now();
    let cfg = RunCfg { prop: "C20", tier, seed };
    let check = C20 { tier };
    let mut report = super::run_regress(&check, &cfg, findings);
    let cases = tier.pick(5000, 60_000);
    report.merge(engine::run_generated(&check, &cfg, cases, 4, 16, findings, 0));
    engine::finish(
        Finish {
            cfg,
            report,
            rule: "a case counts when its group has >= 3 template files and the entry's binding map has >= 3 fields; distinct by printed sources. compared_units = emit runs compared with the first (repeated runs, insertion orders, fresh processes, import_group variants, stylesheet runs).".into(),
            assumptions: vec![
                "a fresh process is `gev emit -` (the harness binary itself, same build of the compiler crates): fresh hash seeds, same code".into(),
                "artefacts compared: get_tmpl_gen_object_groups, get_wx_gen_object_groups, export_globals, export_all_scripts, get_runtime_string, get_tmpl_gen_object / stringify_tmpl / direct_dependencies per file; CSS, low-priority CSS, both source maps, warnings".into(),
            ],
            started,
            exhaustive: false,
        },
        findings,
    )
}

pub fn replay(v: &Value, path: &str, findings: &Findings) -> i32 {
    super::replay_generic(&C20 { tier: Tier::Quick }, "C20", v, path, findings)
}
