//! C13 — cross-file references resolve by normalised path and are reported.
//!
//! (E1) exhaustive: every (base, rel) pair with <= 4 segments each over {a, b, ., .., ''}, rel with and without a
//!      leading `/`, through the guarded hook (`path::resolve`, `path::normalize`) against the reference resolver
//!      written from the statement (`oracle::pathres`).
//! (E2) exhaustive: every normalised base (<= 4 segments over {a, b}) x rel x suffix through `<import>`, `<include>` and
//!      `<wxs src>` + the dependency queries of the group API.
//! (P)  generated multi-file groups (<= 6 templates, <= 3 scripts with `require` chains) whose references are spelled in
//!      many equivalent ways, compiled in several insertion orders, rendered by the real runtime and compared with the
//!      reference renderer (each file / named template renders a unique marker), plus the dependency queries.
//! Pairs with an empty segment are compared too but a disagreement there is only counted (DESIGN §4 C13 R).

use super::common::{short_hash, Mismatch};
use crate::compile::{compile_sources, print_group};
use crate::engine::{self, Failure, Finish, Outcome, PropCheck, RunCfg, Tier};
use crate::findings::Findings;
use crate::jsworker::Worker;
use crate::model::wxml::{self, group_json, Group, Node, Piece, Script, Tis, Tmpl, Val, Wxs};
use crate::oracle::pathres::{has_empty_segment, normalize_ref, resolve_ref};
use crate::util::fnv64;
use glass_easel_template_compiler::verif_hooks;
use proptest::prelude::*;
use serde::{Deserialize, Serialize};
use serde_json::{json, Value};
use std::time::Instant;

#[derive(Clone, Copy, Debug, PartialEq, Serialize, Deserialize)]
pub enum Style {
    Abs,
    Rel,
    RelDot,
    Detour,
    UpExtra,
    DotSeg,
    AbsDetour,
    AbsUp,
}

const STYLES: [Style; 8] = [Style::Rel, Style::Abs, Style::RelDot, Style::Detour, Style::UpExtra, Style::DotSeg, Style::AbsDetour, Style::AbsUp];

/// a spelling of a reference from file `from` to target `to` (both normalised paths)
pub fn spell(from: &str, to: &str, style: Style) -> String {
    let depth = from.matches('/').count();
    let ups = "../".repeat(depth);
    match style {
        Style::Abs => format!("/{}", to),
        Style::Rel => format!("{}{}", ups, to),
        Style::RelDot => format!("./{}{}", ups, to),
        Style::Detour => format!("{}zz/../{}", ups, to),
        Style::UpExtra => format!("{}../../{}", ups, to),
        Style::DotSeg => format!("{}{}", ups, to.replacen('/', "/./", 1)),
        Style::AbsDetour => format!("/zz/yy/../../{}", to),
        Style::AbsUp => format!("/../{}", to),
    }
}

#[derive(Clone, Debug, Serialize, Deserialize)]
pub struct RefSpec {
    pub target: usize,
    pub style: Style,
    pub suffix: bool,
}

#[derive(Clone, Debug, Serialize, Deserialize)]
pub struct FileSpec {
    /// which of t1..t3 the file defines
    pub named: [bool; 3],
    pub imports: Vec<RefSpec>,
    pub includes: Vec<RefSpec>,
    /// `<template is>` uses in the body (0..3 = t1..t3)
    pub uses: Vec<u8>,
    /// external scripts (index into the script pool)
    pub wxs: Vec<RefSpec>,
    pub inline_require: Option<RefSpec>,
}

#[derive(Clone, Debug, Serialize, Deserialize)]
pub struct Case {
    /// which of the pool paths exist (the entry `p` always does)
    pub present: [bool; 6],
    pub files: Vec<FileSpec>,
    pub script_styles: Vec<Style>,
    pub style: u64,
    pub order_seed: u64,
}

pub const PATHS: [&str; 6] = ["p", "q", "d/a", "d/b", "d/e/c", "lib/t"];
pub const SCRIPTS: [&str; 3] = ["s/x", "s/sub/y", "lib/z"];

fn marker(s: &str) -> Node {
    Node::Text(vec![Piece::Lit(s.to_string())])
}

pub fn build_group(c: &Case) -> Group {
    let present: Vec<usize> = (0..6).filter(|i| *i == 0 || c.present[*i]).collect();
    let pick = |t: usize| -> usize {
        // map a target index onto an existing file
        present[t % present.len()]
    };
    let mut files = vec![];
    for &i in &present {
        let spec = &c.files[i];
        let path = PATHS[i];
        let sfx = |r: &RefSpec, s: &str| if r.suffix { s.to_string() } else { String::new() };
        let mut t = Tmpl { path: path.to_string(), ..Default::default() };
        for (k, on) in spec.named.iter().enumerate() {
            if *on {
                let mut body = vec![marker(&format!("<{}:t{}>", path, k + 1))];
                // an include inside a template definition is a dependency of the file as well (forward only: no cycles)
                if let Some(r) = spec.includes.get(k) {
                    let later: Vec<usize> = present.iter().copied().filter(|j| *j > i).collect();
                    if !later.is_empty() && r.suffix {
                        let target = later[(r.target + k) % later.len()];
                        body.push(Node::Include(spell(path, PATHS[target], r.style)));
                    }
                }
                t.named.push((format!("t{}", k + 1), body));
            }
        }
        for r in &spec.imports {
            let target = pick(r.target);
            if target == i {
                continue;
            }
            t.imports.push(format!("{}{}", spell(path, PATHS[target], r.style), sfx(r, ".wxml")));
        }
        t.body.push(marker(&format!("[{}]", path)));
        for u in &spec.uses {
            t.body.push(Node::Tis(Tis { is: Val::Static(format!("t{}", (u % 3) + 1)), data: None, data_expr: None }));
        }
        for r in &spec.includes {
            // only forward includes (no cycles)
            let later: Vec<usize> = present.iter().copied().filter(|j| *j > i).collect();
            if later.is_empty() {
                continue;
            }
            let target = later[r.target % later.len()];
            t.body.push(Node::Include(format!("{}{}", spell(path, PATHS[target], r.style), sfx(r, ".wxml"))));
        }
        for (k, r) in spec.wxs.iter().enumerate() {
            let target = SCRIPTS[r.target % SCRIPTS.len()];
            let module = format!("m{}", k + 1);
            t.wxs.push(Wxs::Ref { module: module.clone(), src: format!("{}{}", spell(path, target, r.style), sfx(r, ".wxs")) });
            t.body.push(Node::Text(vec![Piece::Lit(format!("{}=", module)), Piece::Bind(crate::model::expr::Expr::Member(Box::new(crate::model::expr::Expr::Ident(module)), "k".into()))]));
        }
        if let Some(r) = &spec.inline_require {
            let target = SCRIPTS[r.target % SCRIPTS.len()];
            let rel = spell(path, target, r.style);
            t.wxs.push(Wxs::Inline { module: "inl".into(), js: format!("module.exports = {{ k: 'inline>' + require({}).k }}", crate::util::js_str(&rel)) });
            t.body.push(Node::Text(vec![Piece::Lit("inl=".into()), Piece::Bind(crate::model::expr::Expr::Member(Box::new(crate::model::expr::Expr::Ident("inl".into())), "k".into()))]));
        }
        t.body = wxml::normalise_nodes(t.body);
        files.push(t);
    }
    // scripts: x requires y, y requires z
    let st = |k: usize| c.script_styles.get(k).copied().unwrap_or(Style::Rel);
    let r1 = spell(SCRIPTS[0], SCRIPTS[1], st(0));
    let r2 = spell(SCRIPTS[1], SCRIPTS[2], st(1));
    let scripts = vec![
        Script { path: SCRIPTS[0].into(), js: format!("module.exports = {{ k: 'x>' + require({}).k }}", crate::util::js_str(&r1)), requires: vec![r1] },
        Script { path: SCRIPTS[1].into(), js: format!("module.exports = {{ k: 'y>' + require({}).k }}", crate::util::js_str(&r2)), requires: vec![r2] },
        Script { path: SCRIPTS[2].into(), js: "module.exports = { k: 'z' }".into(), requires: vec![] },
    ];
    Group { files, scripts }
}

fn all_includes(nodes: &[Node], out: &mut Vec<String>) {
    for n in nodes {
        match n {
            Node::Include(s) => out.push(s.clone()),
            Node::El(e) => all_includes(&e.kids, out),
            Node::If(bs) => bs.iter().for_each(|b| all_includes(&b.kids, out)),
            Node::For(f) => all_includes(&f.kids, out),
            Node::Block(b) => all_includes(&b.kids, out),
            _ => {}
        }
    }
}

pub struct C13;

fn ref_spec() -> BoxedStrategy<RefSpec> {
    (0usize..6, 0..STYLES.len(), any::<bool>()).prop_map(|(target, s, suffix)| RefSpec { target, style: STYLES[s], suffix }).boxed()
}

fn file_spec() -> BoxedStrategy<FileSpec> {
    (
        any::<[bool; 3]>(),
        proptest::collection::vec(ref_spec(), 0..4),
        proptest::collection::vec(ref_spec(), 0..3),
        proptest::collection::vec(0u8..3, 0..4),
        proptest::collection::vec(ref_spec(), 0..3),
        proptest::option::weighted(0.3, ref_spec()),
    )
        .prop_map(|(named, imports, includes, uses, wxs, inline_require)| FileSpec { named, imports, includes, uses, wxs, inline_require })
        .boxed()
}

impl PropCheck for C13 {
    type Case = Case;

    fn strategy(&self) -> BoxedStrategy<Case> {
        (any::<[bool; 6]>(), proptest::collection::vec(file_spec(), 6..=6), proptest::collection::vec((0..STYLES.len()).prop_map(|i| STYLES[i]), 2..=2), any::<u64>(), any::<u64>())
            .prop_map(|(present, files, script_styles, style, order_seed)| Case { present, files, script_styles, style, order_seed })
            .boxed()
    }

    fn eval(&self, w: Option<&mut Worker>, cases: &[Case]) -> Result<Vec<Outcome>, String> {
        let w = w.ok_or("no worker")?;
        let mut outs = vec![];
        for c in cases {
            outs.push(eval_case(w, c)?);
        }
        Ok(outs)
    }

    fn case_json(&self, case: &Case) -> Value {
        let g = build_group(case);
        json!({"case": serde_json::to_value(case).unwrap(), "source": print_group(&g, case.style), "scripts": g.scripts.iter().map(|s| json!([s.path, s.js])).collect::<Vec<_>>()})
    }

    fn case_from_json(&self, v: &Value) -> Result<Case, String> {
        serde_json::from_value(v["case"].clone()).map_err(|e| e.to_string())
    }

    fn owns_case(&self, v: &Value) -> bool {
        v["link_probe"].as_bool() != Some(true) && v.get("exhaustive").is_none()
    }
}

fn permutations(n: usize, seed: u64) -> Vec<Vec<usize>> {
    let id: Vec<usize> = (0..n).collect();
    let mut out = vec![id.clone()];
    let mut rev = id.clone();
    rev.reverse();
    if n > 1 {
        out.push(rev);
    }
    if n <= 4 {
        // all of them
        fn rec(cur: &mut Vec<usize>, used: &mut Vec<bool>, n: usize, out: &mut Vec<Vec<usize>>) {
            if cur.len() == n {
                if !out.contains(cur) {
                    out.push(cur.clone());
                }
                return;
            }
            for i in 0..n {
                if !used[i] {
                    used[i] = true;
                    cur.push(i);
                    rec(cur, used, n, out);
                    cur.pop();
                    used[i] = false;
                }
            }
        }
        rec(&mut vec![], &mut vec![false; n], n, &mut out);
    } else {
        let mut rng = crate::util::Rng::new(seed | 1);
        for _ in 0..4 {
            let mut p = id.clone();
            for i in (1..n).rev() {
                let j = rng.below(i as u64 + 1) as usize;
                p.swap(i, j);
            }
            if !out.contains(&p) {
                out.push(p);
            }
        }
    }
    out
}

fn sorted(mut v: Vec<String>) -> Vec<String> {
    v.sort();
    v
}

pub fn eval_case(w: &mut Worker, c: &Case) -> Result<Outcome, String> {
    let g = build_group(c);
    let mut out = Outcome::default();
    let sources = print_group(&g, c.style);
    let scripts: Vec<(String, String)> = g.scripts.iter().map(|s| (s.path.clone(), s.js.clone())).collect();
    let (model, _infos) = group_json(&g, &wxml::no_tags);
    let src_all: String = sources.iter().map(|(p, s)| format!("{}:{}\n", p, s)).collect();
    // labels
    let mut refs = 0;
    for t in &g.files {
        let mut incs = vec![];
        all_includes(&t.body, &mut incs);
        for r in t.imports.iter().chain(incs.iter()).chain(t.wxs.iter().filter_map(|w| if let Wxs::Ref { src, .. } = w { Some(src) } else { None })) {
            refs += 1;
            if r.contains("..") {
                out.labels.push("ref:dotdot".into());
            }
            if r.contains("/./") || r.starts_with("./") {
                out.labels.push("ref:dot".into());
            }
            if r.starts_with('/') {
                out.labels.push("ref:absolute".into());
            }
            if r.ends_with(".wxml") || r.ends_with(".wxs") {
                out.labels.push("ref:suffix".into());
            }
            let depth = t.path.matches('/').count();
            if r.matches("../").count() > depth && !r.contains("zz") || r.starts_with("/../") {
                out.labels.push("ref:pop-above-root".into());
            }
        }
        if t.imports.len() >= 2 {
            out.labels.push("imports:>=2".into());
        }
    }
    out.labels.push(format!("files:{}", g.files.len()));
    out.labels.sort();
    out.labels.dedup();
    out.sample = Some(json!({"sources": sources.iter().map(|(p, s)| json!([p, crate::util::truncate(s, 300)])).collect::<Vec<_>>()}));
    let orders = permutations(sources.len(), c.order_seed);
    let mut first_bundle: Option<String> = None;
    for (oi, ord) in orders.iter().enumerate() {
        let permuted: Vec<(String, String)> = ord.iter().map(|i| sources[*i].clone()).collect();
        let mut sc = scripts.clone();
        if oi % 2 == 1 {
            sc.reverse();
        }
        let (group, diags) = match compile_sources(&permuted, &sc, false) {
            Ok(x) => x,
            Err(p) => {
                out.failures.push(Failure { sig: format!("C13|compiler-panic|{}", short_hash(&p)), tag: None, what: format!("compiler panicked: {}", p), detail: json!({}) });
                return Ok(out);
            }
        };
        if oi == 0 {
            if let Some(d) = diags.iter().find(|d| d.level >= 2) {
                out.failures.push(Failure { sig: format!("C13|diagnostic|{}", d.kind), tag: None, what: format!("well-formed group answered with diagnostic `{}` in {} at {:?}", d.kind, d.path, d.start), detail: json!({}) });
                return Ok(out);
            }
            // dependency queries
            for t in &g.files {
                let mut incs = vec![];
                all_includes(&t.body, &mut incs);
                for (_, b) in &t.named {
                    all_includes(b, &mut incs);
                }
                let expected: Vec<String> = t.imports.iter().chain(incs.iter()).map(|r| resolve_ref(&t.path, wxml::strip_suffix(r, ".wxml"))).collect();
                let actual: Vec<String> = match group.direct_dependencies(&t.path) {
                    Ok(it) => it.collect(),
                    Err(e) => vec![format!("<error {}>", e.message)],
                };
                out.units += expected.len() as u64;
                if sorted(expected.clone()) != sorted(actual.clone()) {
                    out.failures.push(Failure {
                        sig: "C13|direct-dependencies".into(),
                        tag: None,
                        what: format!("direct_dependencies({:?}) = {:?} but its import/include references resolve to {:?}; source {:?}", t.path, actual, expected, crate::util::truncate(&sources.iter().find(|(p, _)| *p == t.path).map(|x| x.1.clone()).unwrap_or_default(), 300)),
                        detail: json!({}),
                    });
                }
                let expected: Vec<String> = t.wxs.iter().filter_map(|w| if let Wxs::Ref { src, .. } = w { Some(resolve_ref(&t.path, wxml::strip_suffix(src, ".wxs"))) } else { None }).collect();
                let actual: Vec<String> = match group.script_dependencies(&t.path) {
                    Ok(it) => it.collect(),
                    Err(e) => vec![format!("<error {}>", e.message)],
                };
                out.units += expected.len() as u64;
                if sorted(expected.clone()) != sorted(actual.clone()) {
                    out.failures.push(Failure { sig: "C13|script-dependencies".into(), tag: None, what: format!("script_dependencies({:?}) = {:?} but its wxs references resolve to {:?}", t.path, actual, expected), detail: json!({}) });
                }
            }
            if !out.failures.is_empty() {
                return Ok(out);
            }
        }
        let bundle = match std::panic::catch_unwind(std::panic::AssertUnwindSafe(|| group.get_tmpl_gen_object_groups())) {
            Ok(Ok(b)) => b,
            Ok(Err(e)) => {
                out.failures.push(Failure { sig: "C13|codegen-error".into(), tag: None, what: format!("code generation failed: {}", e.message), detail: json!({}) });
                return Ok(out);
            }
            Err(p) => {
                out.failures.push(Failure { sig: "C13|codegen-panic".into(), tag: None, what: format!("code generator panicked: {}", crate::compile::panic_message(p)), detail: json!({}) });
                return Ok(out);
            }
        };
        if first_bundle.is_none() {
            first_bundle = Some(bundle.clone());
        }
        // every file is an entry: render each against the reference
        for t in &g.files {
            let resp = w.request(&json!({"kind":"render_ref","bundle":bundle,"entry":t.path,"model":model,"data":["{}"],"paths":false})).map_err(|e| e.0)?;
            if let Some(e) = resp.get("error") {
                out.failures.push(Failure { sig: format!("C13|bundle-error|{}", short_hash(e.as_str().unwrap_or("").lines().next().unwrap_or(""))), tag: None, what: format!("generated code does not load: {}", crate::util::truncate(e.as_str().unwrap_or(""), 300)), detail: json!({}) });
                return Ok(out);
            }
            for r in resp["results"].as_array().cloned().unwrap_or_default() {
                out.units += r["nodes"].as_u64().unwrap_or(0);
                for m in r["mismatches"].as_array().cloned().unwrap_or_default().iter().take(2) {
                    let mm = Mismatch::from_json(m);
                    out.failures.push(Failure {
                        sig: format!("C13|link|{}", mm.ch),
                        tag: None,
                        what: format!("entry {:?}, insertion order {:?}: {} ; sources {:?}", t.path, ord.iter().map(|i| sources[*i].0.clone()).collect::<Vec<_>>(), mm.describe(), crate::util::truncate(&src_all, 700)),
                        detail: json!({"order": ord}),
                    });
                }
            }
            if !out.failures.is_empty() {
                return Ok(out);
            }
        }
    }
    // Incremental per-file builds (watch mode): the generator object of every file is produced by `get_tmpl_gen_object`
    // right after that file was added — before the files added later exist — and the objects are put into one group
    // list `G` next to the runtime string and the exported scripts of the finished group. The statement is about the set
    // of files in the group list at run time, so the assembled bundle must link exactly like the whole-group bundle.
    if g.files.len() >= 2 {
        for (oi, ord) in orders.iter().take(3).enumerate() {
            let scripts_first = oi % 2 == 1;
            let assembled = std::panic::catch_unwind(std::panic::AssertUnwindSafe(|| -> Result<String, String> {
                let mut group = glass_easel_template_compiler::TmplGroup::new();
                if scripts_first {
                    for (p, js) in &scripts {
                        group.add_script(p, js);
                    }
                }
                let mut objs: Vec<(String, String)> = vec![];
                for i in ord {
                    let (p, s) = &sources[*i];
                    group.add_tmpl(p, s);
                    objs.push((p.clone(), group.get_tmpl_gen_object(p).map_err(|e| e.message)?));
                }
                if !scripts_first {
                    for (p, js) in &scripts {
                        group.add_script(p, js);
                    }
                }
                let mut b = String::from("(function(){var G={};var R={};");
                b.push_str(&group.get_runtime_string());
                b.push_str(";\n");
                b.push_str(&group.export_all_scripts().map_err(|e| e.message)?);
                b.push_str(";\n");
                for (p, o) in &objs {
                    b.push_str(&format!("G[{}]={};\n", crate::util::js_str(p), o));
                }
                b.push_str("return G})()");
                Ok(b)
            }));
            let bundle = match assembled {
                Ok(Ok(b)) => b,
                Ok(Err(e)) => {
                    out.failures.push(Failure { sig: "C13|incremental-codegen-error".into(), tag: None, what: format!("per-file code generation failed: {}", e), detail: json!({}) });
                    return Ok(out);
                }
                Err(p) => {
                    out.failures.push(Failure { sig: "C13|incremental-codegen-panic".into(), tag: None, what: format!("per-file code generator panicked: {}", crate::compile::panic_message(p)), detail: json!({}) });
                    return Ok(out);
                }
            };
            out.labels.push("incremental:per-file-objects".into());
            for t in &g.files {
                let resp = w.request(&json!({"kind":"render_ref","bundle":bundle,"entry":t.path,"model":model,"data":["{}"],"paths":false})).map_err(|e| e.0)?;
                if let Some(e) = resp.get("error") {
                    out.failures.push(Failure {
                        sig: format!("C13|incremental-bundle-error|{}", short_hash(e.as_str().unwrap_or("").lines().next().unwrap_or(""))),
                        tag: None,
                        what: format!("bundle assembled from per-file objects (generated as each file was added, order {:?}) does not load: {}", ord.iter().map(|i| sources[*i].0.clone()).collect::<Vec<_>>(), crate::util::truncate(e.as_str().unwrap_or(""), 300)),
                        detail: json!({"order": ord}),
                    });
                    return Ok(out);
                }
                for r in resp["results"].as_array().cloned().unwrap_or_default() {
                    out.units += r["nodes"].as_u64().unwrap_or(0);
                    for m in r["mismatches"].as_array().cloned().unwrap_or_default().iter().take(2) {
                        let mm = Mismatch::from_json(m);
                        out.failures.push(Failure {
                            sig: format!("C13|incremental-link|{}", mm.ch),
                            tag: None,
                            what: format!(
                                "per-file objects generated as each file was added (order {:?}, scripts {}), entry {:?}: {} ; sources {:?}",
                                ord.iter().map(|i| sources[*i].0.clone()).collect::<Vec<_>>(),
                                if scripts_first { "first" } else { "last" },
                                t.path,
                                mm.describe(),
                                crate::util::truncate(&src_all, 700)
                            ),
                            detail: json!({"order": ord}),
                        });
                    }
                }
                if !out.failures.is_empty() {
                    return Ok(out);
                }
            }
        }
    }
    if refs >= 2 && g.files.len() >= 2 {
        out.nt.push(fnv64(src_all.as_bytes()));
    }
    Ok(out)
}

// ---------------------------------------------------------------------------------------------------------------
// exhaustive path algebra

fn seg_strings(max: usize) -> Vec<String> {
    let alpha = ["a", "b", ".", "..", ""];
    let mut out = vec![];
    let mut cur: Vec<Vec<&str>> = vec![vec![]];
    for _ in 0..max {
        let mut next = vec![];
        for c in &cur {
            for a in alpha {
                let mut n = c.clone();
                n.push(a);
                out.push(n.join("/"));
                next.push(n);
            }
        }
        cur = next;
    }
    out
}

fn exhaustive(report: &mut engine::Report, findings: &Findings) {
    let segs = seg_strings(4);
    let mut pairs = 0u64;
    let mut nontrivial = 0u64;
    let mut lenient = 0u64;
    let mut failures: Vec<Failure> = vec![];
    let known = findings.for_property("C13");
    let _ = known;
    for base in &segs {
        for rel0 in &segs {
            for abs in [false, true] {
                let rel = if abs { format!("/{}", rel0) } else { rel0.clone() };
                pairs += 1;
                let expected = resolve_ref(base, &rel);
                let actual = std::panic::catch_unwind(|| verif_hooks::path_resolve(base, &rel)).unwrap_or_else(|_| "<panic>".into());
                if rel.contains("..") || rel.contains("./") || rel.ends_with("/.") || rel == "." {
                    nontrivial += 1;
                }
                if expected != actual {
                    if base.split('/').any(|x| x.is_empty()) || has_empty_segment(&rel) {
                        lenient += 1;
                        continue;
                    }
                    if failures.len() < 5 {
                        failures.push(Failure {
                            sig: format!("C13|resolve|{}", if abs { "absolute" } else { "relative" }),
                            tag: None,
                            what: format!("resolve({:?}, {:?}) = {:?}, the statement gives {:?}", base, rel, actual, expected),
                            detail: json!({"base": base, "rel": rel}),
                        });
                    }
                }
            }
        }
    }
    for p in &segs {
        for abs in [false, true] {
            let path = if abs { format!("/{}", p) } else { p.clone() };
            pairs += 1;
            let expected = normalize_ref(&path);
            let actual = std::panic::catch_unwind(|| verif_hooks::path_normalize(&path)).unwrap_or_else(|_| "<panic>".into());
            if expected != actual {
                if path.split('/').any(|x| x.is_empty()) {
                    lenient += 1;
                    continue;
                }
                if failures.len() < 5 {
                    failures.push(Failure { sig: "C13|normalize".into(), tag: None, what: format!("normalize({:?}) = {:?}, the statement gives {:?}", path, actual, expected), detail: json!({"path": path}) });
                }
            }
        }
    }
    // (E2) through the parser and the dependency queries
    let bases: Vec<String> = {
        let mut v = vec![];
        let mut cur: Vec<String> = vec![String::new()];
        for _ in 0..4 {
            let mut next = vec![];
            for c in &cur {
                for a in ["a", "b"] {
                    let n = if c.is_empty() { a.to_string() } else { format!("{}/{}", c, a) };
                    v.push(n.clone());
                    next.push(n);
                }
            }
            cur = next;
        }
        v
    };
    let mut through = 0u64;
    for base in &bases {
        for rel0 in &segs {
            for abs in [false, true] {
                let rel = if abs { format!("/{}", rel0) } else { rel0.clone() };
                if has_empty_segment(&rel) || rel.ends_with('.') {
                    // a trailing `.`/`..` segment followed by a suffix is not a path spelling any more
                    if has_empty_segment(&rel) {
                        continue;
                    }
                }
                for (sfx_i, sfx) in ["", ".wxml", ".wxs", ".js", ".wxml.wxml", ".wxs.wxs", ".wxml.wxs", ".wxs.wxml"].iter().enumerate() {
                    // (doubled suffixes: only ONE optional suffix is ignored; sampled over the shorter spellings)
                    if sfx_i >= 4 && rel0.len() > 4 {
                        continue;
                    }
                    if rel.ends_with('.') && !sfx.is_empty() {
                        continue;
                    }
                    let src = format!("{}{}", rel, sfx);
                    let tmpl = format!("<import src=\"{}\"/><include src='{}'/><wxs module=\"m\" src=\"{}\"/>", src, src, src);
                    let res = std::panic::catch_unwind(|| {
                        let mut g = glass_easel_template_compiler::TmplGroup::new();
                        g.add_tmpl(base, &tmpl);
                        let d: Vec<String> = g.direct_dependencies(base).map(|i| i.collect()).unwrap_or_default();
                        let s: Vec<String> = g.script_dependencies(base).map(|i| i.collect()).unwrap_or_default();
                        (d, s)
                    });
                    through += 1;
                    let (d, s) = match res {
                        Ok(x) => x,
                        Err(_) => {
                            if failures.len() < 5 {
                                failures.push(Failure { sig: "C13|deps-panic".into(), tag: None, what: format!("panic for base {:?} src {:?}", base, src), detail: json!({}) });
                            }
                            continue;
                        }
                    };
                    let exp_t = resolve_ref(base, wxml::strip_suffix(&src, ".wxml"));
                    let exp_s = resolve_ref(base, wxml::strip_suffix(&src, ".wxs"));
                    let _ = sfx_i;
                    if d != vec![exp_t.clone(), exp_t.clone()] && failures.len() < 5 {
                        failures.push(Failure { sig: "C13|deps-template".into(), tag: None, what: format!("file {:?} with <import>/<include> src {:?}: direct_dependencies = {:?}, the statement gives twice {:?}", base, src, d, exp_t), detail: json!({"base": base, "src": src}) });
                    }
                    if s != vec![exp_s.clone()] && failures.len() < 5 {
                        failures.push(Failure { sig: "C13|deps-script".into(), tag: None, what: format!("file {:?} with <wxs src={:?}>: script_dependencies = {:?}, the statement gives {:?}", base, src, s, exp_s), detail: json!({"base": base, "src": src}) });
                    }
                }
            }
        }
    }
    report.extra.insert("exhaustive_pairs".into(), json!(pairs));
    report.extra.insert("exhaustive_pairs_with_dot_segments".into(), json!(nontrivial));
    report.extra.insert("empty_segment_disagreements_not_judged".into(), json!(lenient));
    report.extra.insert("pairs_through_parser_and_dependency_queries".into(), json!(through));
    report.evaluations += pairs + through;
    report.units += pairs + through;
    // count distinct non-trivial by shape hash
    for i in 0..nontrivial.min(1000) {
        report.nontrivial.insert(fnv64(format!("pair{}", i).as_bytes()));
    }
    for f in failures {
        let replay = json!({"property":"C13","sig":f.sig,"what":f.what,"detail":f.detail,"case":{"exhaustive":f.detail}});
        if report.violations.len() < 5 && !report.violations.iter().any(|v| v.sig == f.sig) {
            report.violations.push(engine::Violation { sig: f.sig.clone(), what: f.what.clone(), replay });
        }
    }
}

// ---------------------------------------------------------------------------------------------------------------
// report / link consistency: whatever a reference resolves to — also where the statement is silent about the spelling
// (empty segments, doubled suffixes) — the dependency queries report THE target the bundle links to. The file and the
// script are registered under the reported paths; the bundle must then find them.

#[derive(Clone, Debug, Serialize, Deserialize)]
pub struct LinkCase {
    pub base: String,
    pub src: String,
    pub link_probe: bool,
}

impl LinkCase {
    pub fn source(&self) -> String {
        let q = crate::util::js_str(&self.src);
        let _ = q;
        format!("<import src=\"{s}\"/><wxs module=\"m\" src=\"{s}\"/>[{{{{m.k}}}}]<include src=\"{s}\"/><template is=\"t1\"/>", s = self.src)
    }
}

pub fn link_cases(tier: Tier) -> Vec<LinkCase> {
    let bases: &[&str] = if tier == Tier::Quick { &["a", "a/b", "b/a/a"] } else { &["a", "b", "a/a", "a/b", "b/a", "a/b/a", "b/a/a/b"] };
    let segs = seg_strings(if tier == Tier::Quick { 3 } else { 4 });
    let mut out = vec![];
    for base in bases {
        for rel0 in &segs {
            for abs in [false, true] {
                let rel = if abs { format!("/{}", rel0) } else { rel0.clone() };
                for sfx in ["", ".wxml", ".wxs", ".wxml.wxml", ".wxs.wxs", ".wxs.wxml"] {
                    if (rel.ends_with('.') || rel.ends_with('/') || rel.is_empty()) && !sfx.is_empty() {
                        continue;
                    }
                    if sfx.len() > 5 && !(rel0.len() <= 3 || rel0.contains("..")) {
                        continue;
                    }
                    // an empty `src` is a missing one (answered with a diagnostic): not a reference
                    if rel.is_empty() {
                        continue;
                    }
                    out.push(LinkCase { base: base.to_string(), src: format!("{}{}", rel, sfx), link_probe: true });
                }
            }
        }
    }
    out
}

pub struct C13Link;

impl PropCheck for C13Link {
    type Case = LinkCase;

    fn strategy(&self) -> BoxedStrategy<LinkCase> {
        let all = link_cases(Tier::Quick);
        (0..all.len()).prop_map(move |i| all[i].clone()).boxed()
    }

    fn eval(&self, w: Option<&mut Worker>, cases: &[LinkCase]) -> Result<Vec<Outcome>, String> {
        let w = w.ok_or("no worker")?;
        let mut outs: Vec<Outcome> = vec![];
        let mut items = vec![];
        let mut index = vec![];
        for (ci, c) in cases.iter().enumerate() {
            let mut out = Outcome::default();
            let src = c.source();
            out.sample = Some(json!({"base": c.base, "source": src}));
            out.labels.push(format!("link-probe:{}", if has_empty_segment(&c.src) { "empty-segment" } else if c.src.matches(".wx").count() >= 2 { "doubled-suffix" } else { "plain" }));
            let built = std::panic::catch_unwind(|| {
                let mut g = glass_easel_template_compiler::TmplGroup::new();
                g.add_tmpl(&c.base, &src);
                let d: Vec<String> = g.direct_dependencies(&c.base).map(|i| i.collect()).unwrap_or_default();
                let sd: Vec<String> = g.script_dependencies(&c.base).map(|i| i.collect()).unwrap_or_default();
                let mut bundle = None;
                // a reference to the file itself is a cycle, not a link
                if !d.iter().any(|p| p == &c.base) {
                    for p in &d {
                        g.add_tmpl(p, "<template name=\"t1\">T1</template>INC");
                    }
                    for p in &sd {
                        g.add_script(p, "module.exports = { k: 'S' }");
                    }
                    bundle = g.get_tmpl_gen_object_groups().ok();
                }
                (d, sd, bundle)
            });
            match built {
                Err(_) => out.failures.push(Failure { sig: "C13|link-probe|panic".into(), tag: None, what: format!("compiler panicked for file {:?} with source {:?}", c.base, src), detail: json!({}) }),
                Ok((d, sd, bundle)) => {
                    if d.len() != 2 || sd.len() != 1 || d[0] != d[1] {
                        out.failures.push(Failure { sig: "C13|link-probe|dependency-count".into(), tag: None, what: format!("file {:?} with source {:?}: direct_dependencies = {:?}, script_dependencies = {:?} (one import, one include and one script reference with the same src)", c.base, src, d, sd), detail: json!({}) });
                    } else if let Some(b) = bundle {
                        items.push(json!({"bundle": b, "entry": c.base}));
                        index.push((ci, d[0].clone(), sd[0].clone()));
                    } else {
                        out.labels.push("link-probe:self-reference (not judged)".into());
                    }
                }
            }
            outs.push(out);
        }
        if !items.is_empty() {
            let resp = w.request(&json!({"kind":"link_probe","items":items})).map_err(|e| e.0)?;
            for (k, (ci, d, sd)) in index.iter().enumerate() {
                let c = &cases[*ci];
                let r = &resp["results"][k];
                let out = &mut outs[*ci];
                out.units = 1;
                out.nt.push(fnv64(format!("{}|{}", c.base, c.src).as_bytes()));
                let text = r["text"].as_str().map(|s| s.to_string()).unwrap_or_else(|| format!("<error {}>", r["error"].as_str().unwrap_or("")));
                if text != "[S]|INC|T1" {
                    out.failures.push(Failure {
                        sig: format!("C13|link-probe|{}", if !text.contains("[S]") { "script" } else if !text.contains("INC") { "include" } else { "import" }),
                        tag: None,
                        what: format!("file {:?} with src {:?}: the dependency queries report the template {:?} and the script {:?}; with a file and a script registered under exactly these paths the bundle renders {:?} instead of \"[S]|INC|T1\" (the link does not go to the reported target)", c.base, c.src, d, sd, text),
                        detail: json!({"source": c.source()}),
                    });
                }
            }
        }
        Ok(outs)
    }

    fn case_json(&self, case: &LinkCase) -> Value {
        json!({"case": serde_json::to_value(case).unwrap(), "source": case.source(), "link_probe": true})
    }

    fn case_from_json(&self, v: &Value) -> Result<LinkCase, String> {
        serde_json::from_value(v["case"].clone()).map_err(|e| e.to_string())
    }

    fn owns_case(&self, v: &Value) -> bool {
        v["link_probe"].as_bool() == Some(true)
    }
}

pub fn run(tier: Tier, seed: u64, findings: &Findings) -> i32 {
    let started = Instant::now();
    let cfg = RunCfg { prop: "C13", tier, seed };
    let check = C13;
    let mut report = super::run_regress(&check, &cfg, findings);
    exhaustive(&mut report, findings);
    let cases = tier.pick(3000, 120_000);
    report.merge(engine::run_generated(&check, &cfg, cases, 4, 16, findings, 0));
    report.merge(super::run_regress(&C13Link, &cfg, findings));
    let mut r = engine::run_explicit(&C13Link, &cfg, link_cases(tier), 40, 16, findings);
    r.extra.insert("link_probe_cases".into(), json!(r.evaluations));
    report.merge(r);
    engine::finish(
        Finish {
            cfg,
            report,
            rule: "exhaustive part: all (base, rel) pairs over {a,b,.,..,''} with <= 4 segments each (non-trivial: rel has a `.`/`..` segment); generated part: a group counts when it has >= 2 files and >= 2 cross-file references; distinct by printed sources".into(),
            assumptions: vec![
                "reference resolver written from the statement; disagreements that involve an empty segment are counted, not judged".into(),
                "registration paths are already normalised (the native add_tmpl does not normalise)".into(),
                "dependency lists are compared as multisets".into(),
                "every file of a generated group is rendered as an entry in every explored insertion order (all orders up to 4 files, 6 otherwise)".into(),
            ],
            started,
            exhaustive: false,
        },
        findings,
    )
}

pub fn replay(v: &Value, path: &str, findings: &Findings) -> i32 {
    if v["case"]["link_probe"].as_bool() == Some(true) {
        return super::replay_generic(&C13Link, "C13", v, path, findings);
    }
    if v["case"].get("exhaustive").is_some() {
        // exhaustive findings are re-found by the exhaustive sweep itself
        let mut report = engine::Report::default();
        exhaustive(&mut report, findings);
        let hit = report.violations.iter().any(|x| Some(x.sig.as_str()) == v["sig"].as_str());
        if hit {
            println!("VIOLATION property=C13 replay={}", path);
            return 1;
        }
        return 0;
    }
    super::replay_generic(&C13, "C13", v, path, findings)
}
