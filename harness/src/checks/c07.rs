//! C07 — binding-map fast path: sound for every advertised field, and never advertised for a field used where the
//! map cannot reach.

use super::common::{short_hash, Mismatch};
use crate::compile::compile_group;
use crate::engine::{self, Failure, Finish, Outcome, PropCheck, RunCfg, Tier};
use crate::findings::Findings;
use crate::gen;
use crate::jsworker::Worker;
use crate::model::data::JsVal;
use crate::model::expr::Expr;
use crate::model::wxml::{Group, Node, Piece, Tmpl, Val};
use crate::util::fnv64;
use proptest::prelude::*;
use serde::{Deserialize, Serialize};
use serde_json::{json, Value};
use std::collections::BTreeSet;
use std::time::Instant;

#[derive(Clone, Debug, Serialize, Deserialize)]
pub struct Case {
    pub group: Group,
    pub d0: JsVal,
    pub newvals: Vec<JsVal>,
    pub style: u64,
}

pub struct C07 {
    pub cfg: gen::wxml::WxmlCfg,
}

#[derive(Default, Debug)]
pub struct FieldUse {
    /// data fields read in positions the map can reach (attribute / text bindings outside dynamic subtrees)
    pub reachable: BTreeSet<String>,
    /// data fields read anywhere the map cannot reach
    pub unreachable: BTreeSet<String>,
    pub has_include: bool,
    pub occurrences: usize,
}

fn free_idents(e: &Expr, scopes: &[String]) -> Vec<String> {
    e.idents().into_iter().filter(|n| !scopes.iter().any(|s| s == n)).collect()
}

fn use_val(v: &Val, scopes: &[String], dynamic: bool, fu: &mut FieldUse) {
    for e in v.exprs() {
        for n in free_idents(e, scopes) {
            fu.occurrences += 1;
            if dynamic {
                fu.unreachable.insert(n);
            } else {
                fu.reachable.insert(n);
            }
        }
    }
}

pub fn field_use(nodes: &[Node], scopes: &mut Vec<String>, dynamic: bool, fu: &mut FieldUse) {
    for n in nodes {
        match n {
            Node::Text(ps) => {
                for p in ps {
                    if let Piece::Bind(e) = p {
                        use_val(&Val::Bind(e.clone()), scopes, dynamic, fu)
                    }
                }
            }
            Node::Comment(_) => {}
            Node::Include(_) => fu.has_include = true,
            Node::El(e) => {
                let d = scopes.len();
                for r in &e.slot_refs {
                    scopes.push(r.scope_name());
                }
                for a in &e.attrs {
                    if let Some(v) = &a.val {
                        use_val(v, scopes, dynamic, fu)
                    }
                }
                if let Some(v) = &e.slot {
                    use_val(v, scopes, dynamic, fu)
                }
                field_use(&e.kids, scopes, dynamic, fu);
                scopes.truncate(d);
            }
            Node::If(brs) => {
                for b in brs {
                    if let Some(c) = &b.cond {
                        use_val(c, scopes, true, fu)
                    }
                    field_use(&b.kids, scopes, true, fu);
                }
            }
            Node::For(f) => {
                use_val(&f.list, scopes, true, fu);
                let d = scopes.len();
                scopes.push(f.item.clone().unwrap_or_else(|| "item".into()));
                scopes.push(f.index.clone().unwrap_or_else(|| "index".into()));
                field_use(&f.kids, scopes, true, fu);
                scopes.truncate(d);
            }
            Node::Block(b) => {
                let d = scopes.len();
                for r in &b.slot_refs {
                    scopes.push(r.scope_name());
                }
                // a virtual node's slot attribute is a structural position
                if let Some(v) = &b.slot {
                    use_val(v, scopes, true, fu)
                }
                field_use(&b.kids, scopes, dynamic, fu);
                scopes.truncate(d);
            }
            Node::Tis(t) => {
                use_val(&t.is, scopes, true, fu);
                if let Some(items) = &t.data {
                    use_val(&Val::Bind(Expr::Obj(items.clone())), scopes, true, fu)
                } else if let Some(e) = &t.data_expr {
                    use_val(&Val::Bind(e.clone()), scopes, true, fu)
                }
            }
            Node::Slot(s) => {
                let d = scopes.len();
                for r in &s.slot_refs {
                    scopes.push(r.scope_name());
                }
                if let Some(v) = &s.name {
                    use_val(v, scopes, true, fu)
                }
                for a in &s.attrs {
                    if let Some(v) = &a.val {
                        use_val(v, scopes, true, fu)
                    }
                }
                if let Some(v) = &s.slot {
                    use_val(v, scopes, true, fu)
                }
                scopes.truncate(d);
            }
        }
    }
}

pub fn main_field_use(t: &Tmpl) -> FieldUse {
    let mut fu = FieldUse::default();
    let mut scopes: Vec<String> = t.wxs.iter().map(|w| w.module().to_string()).collect();
    field_use(&t.body, &mut scopes, false, &mut fu);
    fu
}

impl PropCheck for C07 {
    type Case = Case;

    fn strategy(&self) -> BoxedStrategy<Case> {
        (gen::wxml::group(&self.cfg), gen::data::data_env(2), proptest::collection::vec(gen::data::value(1), 2..4), any::<u64>())
            .prop_map(|(group, d0, newvals, style)| Case { group, d0, newvals, style })
            .boxed()
    }

    fn eval(&self, w: Option<&mut Worker>, cases: &[Case]) -> Result<Vec<Outcome>, String> {
        let w = w.ok_or("no worker")?;
        let mut outs = vec![];
        for c in cases {
            outs.push(eval_case(w, c)?);
        }
        Ok(outs)
    }

    fn case_json(&self, case: &Case) -> Value {
        let src = crate::compile::print_group(&case.group, case.style);
        json!({"case": serde_json::to_value(case).unwrap(), "source": src, "d0_js": case.d0.to_js()})
    }

    fn case_from_json(&self, v: &Value) -> Result<Case, String> {
        serde_json::from_value(v["case"].clone()).map_err(|e| e.to_string())
    }
}

pub fn eval_case(w: &mut Worker, c: &Case) -> Result<Outcome, String> {
    let mut out = Outcome::default();
    let compiled = match compile_group(&c.group, c.style) {
        Ok(x) => x,
        Err(p) => {
            out.failures.push(Failure { sig: format!("C07|compiler-panic|{}", short_hash(&p)), tag: None, what: format!("compiler panicked: {}", p), detail: json!({}) });
            return Ok(out);
        }
    };
    let main = &c.group.files[0];
    let fu = main_field_use(main);
    let src0 = compiled.sources[0].1.clone();
    // candidate changes: every field the template mentions, each with 1-2 new values different from the old one
    let mut changes = vec![];
    let mut fields: Vec<String> = fu.reachable.iter().chain(fu.unreachable.iter()).cloned().collect();
    fields.sort();
    fields.dedup();
    for (i, f) in fields.iter().enumerate() {
        for k in 0..2 {
            let nv = &c.newvals[(i + k) % c.newvals.len()];
            if c.d0.get_field(f) == Some(nv) {
                continue;
            }
            let mut d1 = c.d0.clone();
            d1.set_field(f, nv.clone());
            changes.push(json!({"field": f, "data1": d1.to_js()}));
        }
    }
    let named: Vec<String> = main.named.iter().map(|(n, _)| n.clone()).collect();
    let req = json!({"kind":"bmap","bundle":compiled.bundle,"entry":"p","data0":c.d0.to_js(),"changes":changes,"named":named});
    let resp = w.request(&req).map_err(|e| e.0)?;
    out.sample = Some(json!({"source": crate::util::truncate(&src0, 400), "d0": crate::util::truncate(&c.d0.to_js(), 200), "B_keys": resp.get("keys").cloned()}));
    if let Some(e) = resp.get("error") {
        out.failures.push(Failure { sig: format!("C07|bundle-error|{}", short_hash(e.as_str().unwrap_or(""))), tag: None, what: format!("generated code does not load: {}", e), detail: json!({}) });
        return Ok(out);
    }
    if resp.get("createThrew").is_some() {
        out.labels.push("create-threw".into());
        return Ok(out);
    }
    let mut keys: Vec<String> = resp["keys"].as_array().map(|a| a.iter().filter_map(|x| x.as_str().map(|s| s.to_string())).collect()).unwrap_or_default();
    let withdrawn = resp["disabled"].as_bool() == Some(true);
    if withdrawn {
        // the instance holds a dynamic-slot component: the runtime offers nothing (bindingMapUpdate answers false and the
        // engine updates through the tree); the fall-back itself is still compared with a fresh creation below
        out.labels.push(if keys.is_empty() { "B:withdrawn-by-runtime(empty)".into() } else { "B:withdrawn-by-runtime".into() });
        keys.clear();
    }
    out.labels.push(if keys.is_empty() { "B:empty".into() } else { "B:non-empty".into() });
    if fu.has_include {
        out.labels.push("has-include".into());
    }
    if !fu.unreachable.is_empty() {
        out.labels.push("has-unreachable-field".into());
    }
    if fu.reachable.iter().any(|f| fu.unreachable.contains(f)) {
        out.labels.push("field-both-reachable-and-unreachable".into());
    }
    // completeness: nothing advertised that is used where the map cannot reach
    for k in &keys {
        if fu.unreachable.contains(k) {
            out.failures.push(Failure {
                sig: "C07|advertised-unreachable".into(),
                tag: None,
                what: format!("field `{}` is advertised in B although it is used inside a wx:if / wx:for / template / slot subtree or in a structural position", k),
                detail: json!({"B": keys, "unreachable": fu.unreachable}),
            });
        }
    }
    if fu.has_include && !keys.is_empty() {
        out.failures.push(Failure { sig: "C07|advertised-with-include".into(), tag: None, what: format!("B = {:?} is advertised although the template contains <include>", keys), detail: json!({}) });
    }
    if let Some(named) = resp["named"].as_object() {
        for (n, ks) in named {
            if ks.as_array().map(|a| !a.is_empty()).unwrap_or(false) {
                out.failures.push(Failure { sig: "C07|named-template-advertises".into(), tag: None, what: format!("named template `{}` advertises binding-map fields {}", n, ks), detail: json!({}) });
            }
        }
    }
    // soundness
    let results = resp["results"].as_array().cloned().unwrap_or_default();
    out.units = results.len() as u64;
    if !results.is_empty() {
        out.nt.push(fnv64(format!("{}|{}", src0, c.d0.to_js()).as_bytes()));
    }
    for r in results {
        let field = r["field"].as_str().unwrap_or("").to_string();
        for m in r["mismatches"].as_array().cloned().unwrap_or_default().iter().take(2) {
            let m = Mismatch::from_json(m);
            let sig = if m.ch == "throw" { format!("C07|throw|{}", crate::util::truncate(m.actual.split(" | ").next().unwrap_or(""), 80)) } else { format!("C07|stale|{}", m.ch) };
            out.failures.push(Failure { sig, tag: None, what: format!("after running only B[{:?}] for the changed field: {}", field, m.describe()), detail: json!({"field": field}) });
        }
    }
    Ok(out)
}

pub fn run(tier: Tier, seed: u64, findings: &Findings) -> i32 {
    let started = Instant::now();
    let cfg = RunCfg { prop: "C07", tier, seed };
    let mut wc = gen::wxml::WxmlCfg::new(tier.pick(2, 3), tier.pick(2, 3));
    // the same few fields in many positions
    wc.expr.idents = vec!["a", "b", "c", "list", "k", "m"];
    // dynamic-slot components of the stub DOM (their content exists once per slot instance, which no map reaches: the
    // runtime must not offer the fast path then) and `slot:` value references on their children
    wc.dyn_tags = true;
    wc.slot_refs = true;
    let check = C07 { cfg: wc };
    let mut report = engine::Report::default();
    report.merge(super::run_regress(&check, &cfg, findings));
    let cases = tier.pick(30_000, 400_000);
    report.merge(engine::run_generated(&check, &cfg, cases, 8, 16, findings, 0));
    engine::finish(
        Finish {
            cfg,
            report,
            rule: "cases = generated groups in which a handful of fields occur in many positions; for every field f in keys(B) and 1-2 new values: create(D0), run exactly B[f] through the real ProcGenWrapper.bindingMapUpdate with D1 = D0[f := v'], compare with a fresh create(D1). Completeness: keys(B) is disjoint from the model's set of fields used in unreachable positions, B is empty when the template contains <include>, named templates advertise nothing. non-trivial = at least one advertised field exercised; distinct by (source, D0). compared_units = (field, new value) updates compared.".into(),
            assumptions: vec!["stub DOM".into(), "the model's unreachable-position analysis is written from the property statement".into()],
            started,
            exhaustive: false,
        },
        findings,
    )
}

pub fn replay(v: &Value, path: &str, findings: &Findings) -> i32 {
    let check = C07 { cfg: gen::wxml::WxmlCfg::new(2, 2) };
    super::replay_generic(&check, "C07", v, path, findings)
}
