//! C03 — binding expressions evaluate with JavaScript semantics.
//! (E) exhaustive operator-pair texts whose reference is V8 on the same token sequence; (P) random trees whose
//! reference is V8 on the model's fully parenthesised JS.

use super::common::{run_render_ref, short_hash, Mismatch};
use crate::engine::{self, Failure, Finish, Outcome, PropCheck, RunCfg, Tier};
use crate::findings::Findings;
use crate::gen;
use crate::jsworker::Worker;
use crate::model::data::JsVal;
use crate::model::expr::{self, BinOp, Expr, ExprStyle, UnOp};
use crate::model::wxml::{Attr, AttrKind, Branch, Carrier, El, Group, Node, Piece, Tmpl, Val};
use crate::util::fnv64;
use proptest::prelude::*;
use serde::{Deserialize, Serialize};
use serde_json::{json, Value};
use std::time::Instant;

#[derive(Clone, Debug, Serialize, Deserialize)]
pub struct Case {
    pub exprs: Vec<Expr>,
    pub envs: Vec<JsVal>,
    pub style: u64,
    /// 0 = raw single-binding attributes, 1 = text nodes, 2 = wx:if conditions
    pub deliver: u8,
}

pub struct C03 {
    pub per_template: usize,
    pub envs: usize,
    pub depth: u32,
}

pub fn build_group(c: &Case) -> Group {
    let mut body = vec![];
    match c.deliver {
        0 => {
            let attrs = c.exprs.iter().enumerate().map(|(i, e)| Attr { kind: AttrKind::Plain, name: format!("a{}", i), val: Some(Val::Bind(e.clone())) }).collect();
            body.push(Node::El(El { tag: "v".into(), attrs, slot: None, slot_refs: vec![], kids: vec![] }));
        }
        1 => {
            for (i, e) in c.exprs.iter().enumerate() {
                body.push(Node::El(El { tag: format!("t{}", i), attrs: vec![], slot: None, slot_refs: vec![], kids: vec![Node::Text(vec![Piece::Bind(e.clone())])] }));
            }
        }
        _ => {
            for (i, e) in c.exprs.iter().enumerate() {
                let y = Node::El(El { tag: format!("y{}", i), attrs: vec![], slot: None, slot_refs: vec![], kids: vec![] });
                let n = Node::El(El { tag: format!("n{}", i), attrs: vec![], slot: None, slot_refs: vec![], kids: vec![] });
                body.push(Node::If(vec![
                    Branch { cond: Some(Val::Bind(e.clone())), kids: vec![y], carrier: Carrier::OnChild },
                    Branch { cond: None, kids: vec![n], carrier: Carrier::OnChild },
                ]));
            }
        }
    }
    Group { files: vec![Tmpl { path: "p".into(), body, ..Default::default() }], scripts: vec![] }
}

/// static known-finding tags of one expression (narrow conditions; see known_findings.jsonl)
pub fn static_tags(_e: &Expr, _scopes: &[String]) -> Vec<String> {
    vec![]
}

fn expr_index_of(c: &Case, m: &Mismatch, g: &Group) -> Option<usize> {
    match c.deliver {
        0 => m.name.strip_prefix('a').and_then(|s| s.parse().ok()),
        _ => {
            // where = "/<i>" : index of the top-level node (one element per expression after flattening)
            let _ = g;
            m.where_.trim_start_matches('/').split('/').next().and_then(|s| s.parse().ok())
        }
    }
}

impl PropCheck for C03 {
    type Case = Case;

    fn strategy(&self) -> BoxedStrategy<Case> {
        let cfg = gen::expr::ExprCfg::new(self.depth);
        (
            proptest::collection::vec(gen::expr::expr(&cfg), 1..=self.per_template),
            proptest::collection::vec(gen::data::data_env(2), 1..=self.envs),
            any::<u64>(),
            prop_oneof![6 => Just(0u8), 1 => Just(1u8), 1 => Just(2u8)],
        )
            .prop_map(|(exprs, envs, style, deliver)| Case { exprs, envs, style, deliver })
            .boxed()
    }

    fn eval(&self, w: Option<&mut Worker>, cases: &[Case]) -> Result<Vec<Outcome>, String> {
        let w = w.ok_or("no worker")?;
        let mut outs = vec![];
        for c in cases {
            outs.push(eval_case(w, c)?);
        }
        Ok(outs)
    }

    fn case_json(&self, case: &Case) -> Value {
        let g = build_group(case);
        let src = crate::compile::print_group(&g, case.style);
        json!({"case": serde_json::to_value(case).unwrap(), "source": src.into_iter().map(|(_, s)| s).collect::<Vec<_>>(), "envs_js": case.envs.iter().map(|e| e.to_js()).collect::<Vec<_>>()})
    }

    fn case_from_json(&self, v: &Value) -> Result<Case, String> {
        serde_json::from_value(v["case"].clone()).map_err(|e| e.to_string())
    }
}

pub fn eval_case(w: &mut Worker, c: &Case) -> Result<Outcome, String> {
    let g = build_group(c);
    let datas: Vec<String> = c.envs.iter().map(|e| e.to_js()).collect();
    let run = run_render_ref(w, &g, c.style, &datas, "p", false, &static_tags)?;
    let mut out = Outcome::default();
    out.units = (c.exprs.len() * c.envs.len()) as u64;
    for e in &c.exprs {
        let src = expr::source(e, &mut ExprStyle::canonical());
        if e.size() >= 2 && !e.idents().is_empty() || matches!(e, Expr::Raw { .. }) {
            out.nt.push(fnv64(src.as_bytes()));
        }
        let mut ops = vec![];
        e.walk(&mut |x| match x {
            Expr::Unary(o, _) => ops.push(format!("op:{}", o.key())),
            Expr::Binary(o, ..) => ops.push(format!("op:{}", o.text().trim())),
            Expr::Cond(..) => ops.push("op:?:".into()),
            Expr::Member(..) => ops.push("form:member".into()),
            Expr::Index(..) => ops.push("form:index".into()),
            Expr::Call(..) => ops.push("form:call".into()),
            Expr::Arr(items) => {
                ops.push("form:array".into());
                if items.iter().any(|i| matches!(i, crate::model::expr::ArrItem::Hole)) {
                    ops.push("form:array-hole".into())
                }
                if items.iter().any(|i| matches!(i, crate::model::expr::ArrItem::Spread(_))) {
                    ops.push("form:array-spread".into())
                }
            }
            Expr::Obj(items) => {
                ops.push("form:object".into());
                if items.iter().any(|i| matches!(i, crate::model::expr::ObjItem::Short(_))) {
                    ops.push("form:object-shorthand".into())
                }
                if items.iter().any(|i| matches!(i, crate::model::expr::ObjItem::Spread(_))) {
                    ops.push("form:object-spread".into())
                }
            }
            Expr::Paren(_) => ops.push("form:paren".into()),
            Expr::Num(t) => ops.push(format!("num:{}", expr::num_class(t))),
            Expr::Raw { .. } => ops.push("form:raw-pair-text".into()),
            _ => {}
        });
        ops.sort();
        ops.dedup();
        out.labels.extend(ops);
    }
    out.labels.push(format!("deliver:{}", ["attr", "text", "if"][c.deliver.min(2) as usize]));
    out.sample = Some(json!({"source": run.compiled.as_ref().map(|c| crate::util::truncate(&c.sources[0].1, 400)), "env0": crate::util::truncate(&datas[0], 300)}));
    if let Some(p) = &run.compile_panic {
        out.failures.push(Failure { sig: format!("C03|compiler-panic|{}", short_hash(p)), tag: None, what: format!("compiler panicked on a valid expression: {}", p), detail: json!({"panic": p}) });
        return Ok(out);
    }
    if let Some(c) = &run.compiled {
        let bad: Vec<_> = c.diags.iter().filter(|d| d.level >= 2).collect();
        if !bad.is_empty() {
            out.failures.push(Failure {
                sig: format!("C03|diagnostic|{}", bad[0].kind),
                tag: None,
                what: format!("supported expression syntax was answered with diagnostic `{}` (level {}) in {:?}", bad[0].kind, bad[0].level, crate::util::truncate(&c.sources[0].1, 300)),
                detail: json!({"diag": format!("{:?}", bad[0])}),
            });
            return Ok(out);
        }
    }
    if let Some(e) = &run.bundle_error {
        out.failures.push(Failure { sig: format!("C03|bundle-error|{}", short_hash(e.lines().next().unwrap_or(""))), tag: None, what: format!("generated code does not load: {}", crate::util::truncate(e, 300)), detail: json!({"error": e}) });
        return Ok(out);
    }
    for (ei, ms) in run.results.iter().enumerate() {
        for m in ms {
            if m.ch == "throw" {
                out.failures.push(Failure {
                    sig: format!("C03|throw|{}", crate::util::truncate(m.actual.split(" | ").next().unwrap_or(""), 80)),
                    tag: None,
                    what: format!("env#{}: {}", ei, m.describe()),
                    detail: json!({"env": datas[ei]}),
                });
                continue;
            }
            let idx = expr_index_of(c, m, &g);
            let (shape, src) = match idx.and_then(|i| c.exprs.get(i)) {
                Some(e) => (e.shape(), expr::source(e, &mut ExprStyle::canonical())),
                None => ("?".into(), "?".into()),
            };
            out.failures.push(Failure {
                sig: format!("C03|value|{}|{}", ["attr", "text", "if"][c.deliver.min(2) as usize], crate::util::truncate(&shape, 100)),
                tag: None,
                what: format!("`{{{{ {} }}}}` with env#{} evaluates to {} but JavaScript gives {}", src, ei, m.actual, m.expected),
                detail: json!({"expr": src, "shape": shape, "env": datas[ei], "expected": m.expected, "actual": m.actual, "channel": m.ch}),
            });
        }
    }
    Ok(out)
}

// ------------------------------------------------------------------------------------------------
// (E) exhaustive operator-pair texts

fn bind(name: &str) -> String {
    format!("$get($d,\"{}\")", name)
}

/// all depth-2 operator texts: (source text, JS text with identifiers bound)
pub fn pair_texts() -> Vec<(String, String)> {
    #[derive(Clone)]
    enum Tok {
        Id(&'static str),
        Op(String),
        Member(&'static str, &'static str),
        Index(&'static str, &'static str),
        Call(&'static str, &'static str),
    }
    fn render(toks: &[Tok]) -> (String, String) {
        let mut s = String::new();
        let mut j = String::new();
        for t in toks {
            match t {
                Tok::Id(n) => {
                    s.push_str(n);
                    j.push_str(&bind(n));
                }
                Tok::Op(o) => {
                    s.push_str(o);
                    j.push_str(o);
                }
                Tok::Member(a, m) => {
                    s.push_str(&format!("{}.{}", a, m));
                    j.push_str(&format!("$get({},\"{}\")", bind(a), m));
                }
                Tok::Index(a, b) => {
                    s.push_str(&format!("{}[{}]", a, b));
                    j.push_str(&format!("$get({},{})", bind(a), bind(b)));
                }
                Tok::Call(a, b) => {
                    s.push_str(&format!("{}({})", a, b));
                    j.push_str(&format!("$call({},[{}])", bind(a), bind(b)));
                }
            }
        }
        (s, j)
    }
    let op = |s: &str| Tok::Op(s.to_string());
    let mut out = vec![];
    let bins: Vec<String> = BinOp::ALL.iter().map(|o| format!(" {} ", o.text().trim())).collect();
    let uns: Vec<String> = UnOp::ALL.iter().map(|o| format!("{} ", o.text().trim())).collect();
    // binary-binary, three groupings
    for o1 in &bins {
        for o2 in &bins {
            out.push(render(&[Tok::Id("a"), op(o1), Tok::Id("b"), op(o2), Tok::Id("c")]));
            out.push(render(&[op("("), Tok::Id("a"), op(o1), Tok::Id("b"), op(")"), op(o2), Tok::Id("c")]));
            out.push(render(&[Tok::Id("a"), op(o1), op("("), Tok::Id("b"), op(o2), Tok::Id("c"), op(")")]));
        }
    }
    // unary with binary
    for u in &uns {
        for o in &bins {
            out.push(render(&[op(u), Tok::Id("a"), op(o), Tok::Id("b")]));
            out.push(render(&[Tok::Id("a"), op(o), op(u), Tok::Id("b")]));
            out.push(render(&[op(u), op("("), Tok::Id("a"), op(o), Tok::Id("b"), op(")")]));
        }
        for u2 in &uns {
            out.push(render(&[op(u), op(u2), Tok::Id("a")]));
        }
        // unary with conditional
        out.push(render(&[op(u), Tok::Id("a"), op(" ? "), Tok::Id("b"), op(" : "), Tok::Id("c")]));
        out.push(render(&[Tok::Id("a"), op(" ? "), op(u), Tok::Id("b"), op(" : "), op(u), Tok::Id("c")]));
        // unary with member / call / index
        out.push(render(&[op(u), Tok::Member("a", "x")]));
        out.push(render(&[op(u), Tok::Member("a", "length")]));
        out.push(render(&[op(u), Tok::Index("a", "b")]));
        out.push(render(&[op(u), Tok::Call("a", "b")]));
    }
    // binary with conditional, every slot
    for o in &bins {
        out.push(render(&[Tok::Id("a"), op(o), Tok::Id("b"), op(" ? "), Tok::Id("c"), op(" : "), Tok::Id("d")]));
        out.push(render(&[Tok::Id("a"), op(" ? "), Tok::Id("b"), op(o), Tok::Id("c"), op(" : "), Tok::Id("d")]));
        out.push(render(&[Tok::Id("a"), op(" ? "), Tok::Id("b"), op(" : "), Tok::Id("c"), op(o), Tok::Id("d")]));
        out.push(render(&[Tok::Id("a"), op(o), op("("), Tok::Id("b"), op(" ? "), Tok::Id("c"), op(" : "), Tok::Id("d"), op(")")]));
        // binary with member / index / call operands
        out.push(render(&[Tok::Id("a"), op(o), Tok::Member("b", "x")]));
        out.push(render(&[Tok::Member("a", "x"), op(o), Tok::Id("b")]));
        out.push(render(&[Tok::Member("a", "length"), op(o), Tok::Member("b", "constructor")]));
        out.push(render(&[Tok::Id("a"), op(o), Tok::Index("b", "c")]));
        out.push(render(&[Tok::Id("a"), op(o), Tok::Call("b", "c")]));
    }
    // depth 3 where token adjacency matters: a unary operand between two binary operators, and two unary operators
    // after a binary one (`a - -b * c`, `a + + +b`)
    for o1 in &bins {
        for u in &uns {
            for o2 in &bins {
                out.push(render(&[Tok::Id("a"), op(o1), op(u), Tok::Id("b"), op(o2), Tok::Id("c")]));
            }
            for u2 in &uns {
                out.push(render(&[Tok::Id("a"), op(o1), op(u), op(u2), Tok::Id("b")]));
            }
        }
    }
    // conditional with conditional
    out.push(render(&[Tok::Id("a"), op(" ? "), Tok::Id("b"), op(" : "), Tok::Id("c"), op(" ? "), Tok::Id("d"), op(" : "), Tok::Id("a")]));
    out.push(render(&[Tok::Id("a"), op(" ? "), Tok::Id("b"), op(" ? "), Tok::Id("c"), op(" : "), Tok::Id("d"), op(" : "), Tok::Id("a")]));
    out.push(render(&[op("("), Tok::Id("a"), op(" ? "), Tok::Id("b"), op(" : "), Tok::Id("c"), op(")"), op(" ? "), Tok::Id("d"), op(" : "), Tok::Id("a")]));
    out
}

pub fn env_pool(tier: Tier) -> Vec<JsVal> {
    let small = vec![JsVal::num(0), JsVal::num(1), JsVal::str(""), JsVal::str("a"), JsVal::Null, JsVal::Undefined, JsVal::Bool(true)];
    let full = vec![
        JsVal::num(0),
        JsVal::Num("-0".into()),
        JsVal::num(1),
        JsVal::num(-1),
        JsVal::num(2),
        JsVal::num(3),
        JsVal::Num("NaN".into()),
        JsVal::Num("Infinity".into()),
        JsVal::str(""),
        JsVal::str("0"),
        JsVal::str("a"),
        JsVal::str("ab"),
        JsVal::str(" "),
        JsVal::Null,
        JsVal::Undefined,
        JsVal::Bool(true),
        JsVal::Bool(false),
    ];
    tier.pick(small, full)
}

pub fn pair_envs(tier: Tier) -> Vec<JsVal> {
    let pool = env_pool(tier);
    let mut envs = vec![];
    // d follows a (fourth identifier only appears in conditional texts)
    for a in &pool {
        for b in &pool {
            for c in &pool {
                envs.push(JsVal::Obj(vec![
                    ("a".into(), a.clone()),
                    ("b".into(), b.clone()),
                    ("c".into(), c.clone()),
                    ("d".into(), JsVal::Obj(vec![("x".into(), JsVal::num(5))])),
                ]));
            }
        }
    }
    envs
}

fn pair_cases(w: &mut Worker, tier: Tier, rep: &mut engine::Report) -> Result<Vec<Case>, String> {
    let texts = pair_texts();
    // texts V8 rejects are outside "valid JavaScript" (e.g. `a ?? b || c`): skipped and counted
    let mut valid = vec![];
    for chunk in texts.chunks(500) {
        let codes: Vec<String> = chunk.iter().map(|(_, j)| format!("(function($d,$get,$call){{return ({})}})", j)).collect();
        let resp = w.request(&json!({"kind":"syntax","codes":codes})).map_err(|e| e.0)?;
        for (t, r) in chunk.iter().zip(resp["results"].as_array().cloned().unwrap_or_default()) {
            if r["sloppy"].is_null() {
                valid.push(t.clone());
            }
        }
    }
    rep.extra.insert("pair_texts_total".into(), json!(texts.len()));
    rep.extra.insert("pair_texts_valid_js".into(), json!(valid.len()));
    rep.extra.insert("pair_texts_skipped_invalid_js".into(), json!(texts.len() - valid.len()));
    let envs = pair_envs(tier);
    let mut cases = vec![];
    let (throwers, plain): (Vec<_>, Vec<_>) = valid.into_iter().partition(|(s, _)| s.contains("instanceof"));
    for chunk in plain.chunks(40) {
        cases.push(Case { exprs: chunk.iter().map(|(s, j)| Expr::Raw { src: s.clone(), js: j.clone() }).collect(), envs: envs.clone(), style: 0, deliver: 0 });
    }
    // `instanceof` throws for non-callable right operands: one text per template so a throw does not hide the others
    for (s, j) in throwers {
        cases.push(Case { exprs: vec![Expr::Raw { src: s, js: j }], envs: envs.clone(), style: 0, deliver: 0 });
    }
    Ok(cases)
}

pub fn run(tier: Tier, seed: u64, findings: &Findings) -> i32 {
    let started = Instant::now();
    let cfg = RunCfg { prop: "C03", tier, seed };
    let check = C03 { per_template: tier.pick(20, 30), envs: tier.pick(8, 24), depth: tier.pick(4, 6) };
    let mut report = engine::Report::default();
    // regress replays first
    report.merge(super::run_regress(&check, &cfg, findings));
    // (E)
    match Worker::spawn() {
        Ok(mut w) => match pair_cases(&mut w, tier, &mut report) {
            Ok(cases) => {
                drop(w);
                report.merge(engine::run_explicit(&check, &cfg, cases, 1, 16, findings));
            }
            Err(e) => report.errors.push(e),
        },
        Err(e) => report.errors.push(e.0),
    }
    // (P)
    let cases = tier.pick(16_000, 400_000);
    report.merge(engine::run_generated(&check, &cfg, cases, 4, 16, findings, 0));
    engine::finish(
        Finish {
            cfg,
            report,
            rule: "cases = templates of up to N single-binding attributes (or text nodes / wx:if conditions) evaluated under the real ProcGenWrapper on the stub DOM for every data environment; reference = V8 on the model's fully parenthesised JS (random trees) or on the identical operator text (exhaustive pairs). distinct_nontrivial = distinct expression source texts with >= 1 operator/form and >= 1 identifier. compared_units = expression x environment evaluations compared.".into(),
            assumptions: vec!["V8 (node 22) is the JavaScript semantics reference".into(), "stub DOM records the value handed to R.r / text / wx:if branch".into(), "pool functions are pure, so eager hoisting of sub-expressions cannot change values".into()],
            started,
            exhaustive: true,
        },
        findings,
    )
}

pub fn replay(v: &Value, path: &str, findings: &Findings) -> i32 {
    let check = C03 { per_template: 20, envs: 8, depth: 4 };
    super::replay_generic(&check, "C03", v, path, findings)
}
