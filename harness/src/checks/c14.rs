//! C14 — stringify is a faithful, stable inverse of parse: fixpoint after one round, no new diagnostics above Note,
//! and the re-parsed template renders and updates like the original.

use super::common::{short_hash, Mismatch};
use crate::compile::{compile_sources, level_no, panic_message, Diag};
use crate::engine::{self, Failure, Finish, Outcome, PropCheck, RunCfg, Tier};
use crate::findings::Findings;
use crate::gen;
use crate::gen::history::Step;
use crate::gen::soup::{self, Mutation};
use crate::jsworker::Worker;
use crate::model::data::JsVal;
use crate::model::wxml::Group;
use crate::util::fnv64;
use glass_easel_template_compiler::stringify::{Stringifier, Stringify};
use proptest::prelude::*;
use serde::{Deserialize, Serialize};
use serde_json::{json, Value};
use std::panic::{catch_unwind, AssertUnwindSafe};
use std::time::Instant;

#[derive(Clone, Debug, Serialize, Deserialize)]
pub struct Case {
    pub group: Group,
    pub style: u64,
    pub mutations: Vec<Mutation>,
    pub mangling: bool,
    pub d0: JsVal,
    pub steps: Vec<Step>,
    /// entry source given verbatim (exhaustive operator texts); the group is ignored then
    #[serde(default)]
    pub raw_entry: Option<String>,
    /// extra data environments compared at creation
    #[serde(default)]
    pub envs: Vec<JsVal>,
}

pub struct C14 {
    pub cfg: gen::wxml::WxmlCfg,
}

pub fn stringify(path: &str, src: &str, mangling: bool) -> Result<(String, Vec<Diag>), String> {
    catch_unwind(AssertUnwindSafe(|| {
        let (t, ps) = glass_easel_template_compiler::parse::parse(path, src);
        let diags: Vec<Diag> = ps.warnings().map(crate::compile::diag_of).collect();
        let mut s = Stringifier::new(String::new(), path, src);
        s.set_mangling(mangling);
        t.stringify_write(&mut s).unwrap();
        let (out, _sm) = s.finish();
        (out, diags)
    }))
    .map_err(panic_message)
}

impl PropCheck for C14 {
    type Case = Case;

    fn strategy(&self) -> BoxedStrategy<Case> {
        (
            gen::wxml::group(&self.cfg),
            any::<u64>(),
            prop_oneof![2 => Just(vec![]), 1 => proptest::collection::vec(soup::mutation(), 1..4)],
            any::<bool>(),
            gen::data::data_env(2),
            proptest::collection::vec(gen::history::step(), 0..3),
        )
            .prop_map(|(group, style, mutations, mangling, d0, steps)| Case { group, style, mutations, mangling, d0, steps, raw_entry: None, envs: vec![] })
            .boxed()
    }

    fn eval(&self, w: Option<&mut Worker>, cases: &[Case]) -> Result<Vec<Outcome>, String> {
        let w = w.ok_or("no worker")?;
        let mut outs = vec![];
        for c in cases {
            outs.push(eval_case(w, c)?);
        }
        Ok(outs)
    }

    fn case_json(&self, case: &Case) -> Value {
        let src = sources(case);
        json!({"case": serde_json::to_value(case).unwrap(), "source": src})
    }

    fn case_from_json(&self, v: &Value) -> Result<Case, String> {
        serde_json::from_value(v["case"].clone()).map_err(|e| e.to_string())
    }
}

/// Source-level conditions of the listed findings C14-F2 / C14-F3 (narrow, syntactic).
/// F3: two sibling text nodes separated only by comments (comments are not printed, so they are read back as one text).
/// F2: a binding that consists of one string literal only (printed as static text, pinned by the test lit_str).
/// F3 by its root cause: the parsed template has two sibling text nodes next to each other (whatever separated them in
/// the source — comments, a stray end tag — is not part of the AST, and the printer writes them back to back).
pub fn has_adjacent_text_siblings(src: &str) -> bool {
    use glass_easel_template_compiler::parse::tag::{ElementKind, Node};
    fn walk(nodes: &[Node]) -> bool {
        let mut prev_text = false;
        for n in nodes {
            match n {
                Node::Text(_) => {
                    if prev_text {
                        return true;
                    }
                    prev_text = true;
                }
                Node::Element(e) => {
                    prev_text = false;
                    let hit = match &e.kind {
                        ElementKind::Normal { children, .. } | ElementKind::Pure { children, .. } | ElementKind::For { children, .. } => walk(children),
                        ElementKind::If { branches, else_branch, .. } => branches.iter().any(|(_, _, c)| walk(c)) || else_branch.as_ref().map(|(_, c)| walk(c)).unwrap_or(false),
                        _ => false,
                    };
                    if hit {
                        return true;
                    }
                }
                // comments and unknown meta tags are not printed: they do not separate
                _ => {}
            }
        }
        false
    }
    std::panic::catch_unwind(|| {
        let (t, _ps) = glass_easel_template_compiler::parse::parse("p", src);
        walk(&t.content) || t.globals.sub_templates.iter().any(|d| walk(&d.content))
    })
    .unwrap_or(false)
}

pub fn file_tag(src0: &str) -> Option<String> {
    file_tag_with(src0, false)
}

/// `skip_f3`: look for the lone-literal pattern (C14-F2) only
pub fn file_tag_with(src0: &str, skip_f3: bool) -> Option<String> {
    if !skip_f3 && has_adjacent_text_siblings(src0) {
        return Some("text-comment-text-printed-adjacent".to_string());
    }
    // entity spellings of `{` count as `{` (same length is not needed: only patterns are searched)
    let src_owned = src0.replace("&#x7b;", "{").replace("&#x7B;", "{").replace("&#123;", "{").replace("&lbrace;", "{").replace("&lcub;", "{");
    let src = src_owned.as_str();
    let b = src.as_bytes();
    let mut i = 0;
    while i < b.len() {
        if src[i..].starts_with("<!--") {
            // text directly before the (run of) comment(s) and directly after it
            let before_is_text = i > 0 && b[i - 1] != b'>';
            let mut j = i;
            let mut comments = 0;
            while src[j..].starts_with("<!--") {
                match src[j + 4..].find("-->") {
                    Some(k) => {
                        j = j + 4 + k + 3;
                        comments += 1;
                    }
                    None => break,
                }
            }
            let after_is_text = j < b.len() && b[j] != b'<';
            if comments > 0 && before_is_text && after_is_text && !skip_f3 {
                return Some("text-comment-text-printed-adjacent".to_string());
            }
            if comments > 0 {
                i = j;
                continue;
            }
        }
        if src[i..].starts_with("{{") {
            // skip whitespace and /* */ comments
            let skip = |mut k: usize| {
                loop {
                    let rest = &src[k..];
                    let t = rest.trim_start_matches(|c: char| c == ' ' || ('\x09'..='\x0d').contains(&c));
                    k += rest.len() - t.len();
                    if src[k..].starts_with("/*") {
                        match src[k + 2..].find("*/") {
                            Some(e) => k = k + 2 + e + 2,
                            None => return k,
                        }
                    } else {
                        return k;
                    }
                }
            };
            let mut k = skip(i + 2);
            // redundant parentheses around the literal are dropped by the parser: the same construct
            let mut parens = 0;
            while src[k..].starts_with('(') {
                parens += 1;
                k = skip(k + 1);
            }
            if let Some(q) = src[k..].chars().next().filter(|c| *c == '"' || *c == '\'') {
                let mut m = k + 1;
                let mut closed = false;
                let bytes = src.as_bytes();
                while m < bytes.len() {
                    if bytes[m] == b'\\' {
                        m += 2;
                        continue;
                    }
                    if bytes[m] == q as u8 {
                        closed = true;
                        break;
                    }
                    m += 1;
                }
                if closed {
                    let mut e = skip(m + 1);
                    while parens > 0 && src[e..].starts_with(')') {
                        parens -= 1;
                        e = skip(e + 1);
                    }
                    if parens == 0 && src[e..].starts_with("}}") {
                        return Some("lone-string-literal-binding-printed-static".to_string());
                    }
                }
            }
        }
        i += 1;
        while i < b.len() && !src.is_char_boundary(i) {
            i += 1;
        }
    }
    None
}

/// The listed finding C14-F2 as a transformation of the generator's model: every value that is exactly one binding of a
/// string literal (possibly inside redundant parentheses) becomes static text. A re-printed template that behaves like
/// THIS template deviates from the source by the listed finding only.
pub fn staticise_lone_literals(g: &crate::model::wxml::Group) -> Option<crate::model::wxml::Group> {
    fn lone(v: &Value) -> Option<String> {
        let mut e = v.as_object().filter(|o| o.len() == 1)?.get("Bind")?;
        loop {
            let o = e.as_object().filter(|o| o.len() == 1)?;
            if let Some(s) = o.get("Str") {
                return s.as_str().map(|s| s.to_string());
            }
            e = o.get("Paren")?;
        }
    }
    fn walk(v: &mut Value) {
        match v {
            Value::Object(o) => {
                for (k, x) in o.iter_mut() {
                    if k == "Text" {
                        if let Some(a) = x.as_array_mut() {
                            if a.len() == 1 {
                                if let Some(s) = lone(&a[0]) {
                                    a[0] = json!({"Lit": s});
                                }
                            }
                        }
                    } else if let Some(s) = lone(x) {
                        *x = json!({"Static": s});
                        continue;
                    }
                    walk(x);
                }
            }
            Value::Array(a) => {
                for x in a.iter_mut() {
                    walk(x);
                }
            }
            _ => {}
        }
    }
    let mut v = serde_json::to_value(g).ok()?;
    walk(&mut v);
    serde_json::from_value(v).ok()
}

pub fn sources(c: &Case) -> Vec<(String, String)> {
    if let Some(raw) = &c.raw_entry {
        return vec![("p".to_string(), raw.clone())];
    }
    let mut src = crate::compile::print_group(&c.group, c.style);
    if !c.mutations.is_empty() {
        src[0].1 = soup::apply(&src[0].1, &c.mutations, soup::WXML_ALPHABET);
    }
    src
}

pub fn eval_case(w: &mut Worker, c: &Case) -> Result<Outcome, String> {
    let mut out = Outcome::default();
    let src = sources(c);
    out.labels.push(if c.mutations.is_empty() { "input:well-formed".into() } else { "input:mutated".into() });
    out.labels.push(if c.mangling { "mangling:on".into() } else { "mangling:off".into() });
    let mut s1s = vec![];
    for (path, t) in &src {
        let (s1, d0) = match stringify(path, t, c.mangling) {
            Ok(x) => x,
            Err(p) => {
                out.failures.push(Failure { sig: format!("C14|panic|{}", short_hash(&p)), tag: None, what: format!("stringify panicked: {} on {:?}", p, crate::util::truncate(t, 200)), detail: json!({"source": t}) });
                return Ok(out);
            }
        };
        if d0.iter().any(|d| d.level >= 2) && c.mutations.is_empty() {
            // C15 owns "clean input is clean"; keep going
            out.labels.push("wellformed-with-diagnostic".into());
        }
        let (s2, d1) = match stringify(path, &s1, c.mangling) {
            Ok(x) => x,
            Err(p) => {
                out.failures.push(Failure { sig: format!("C14|panic2|{}", short_hash(&p)), tag: None, what: format!("re-parsing the printed text panicked: {} on {:?}", p, crate::util::truncate(&s1, 200)), detail: json!({"printed": s1}) });
                return Ok(out);
            }
        };
        if s2 != s1 {
            let tag = file_tag(t);
            out.failures.push(Failure {
                sig: "C14|not-fixpoint".into(),
                tag,
                what: format!("printing is not a fixpoint: source {:?} prints as {:?} which prints as {:?}", crate::util::truncate(t, 160), crate::util::truncate(&s1, 160), crate::util::truncate(&s2, 160)),
                detail: json!({"source": t, "s1": s1, "s2": s2}),
            });
        }
        if let Some(d) = d1.iter().find(|d| d.level >= 2) {
            out.failures.push(Failure {
                sig: format!("C14|printed-has-diagnostic|{}", d.kind),
                tag: file_tag(t),
                what: format!("printed text {:?} re-parses with diagnostic `{}` (level {}) at {:?}", crate::util::truncate(&s1, 200), d.kind, d.level, d.start),
                detail: json!({"source": t, "s1": s1}),
            });
        }
        s1s.push((path.clone(), s1));
    }
    let scripts: Vec<(String, String)> = c.group.scripts.iter().map(|s| (s.path.clone(), s.js.clone())).collect();
    let bundle_of = |srcs: &[(String, String)]| -> Result<String, String> {
        let (g, _) = compile_sources(srcs, &scripts, false)?;
        catch_unwind(AssertUnwindSafe(|| g.get_tmpl_gen_object_groups())).map_err(panic_message)?.map_err(|e| e.message)
    };
    let (ba, bb) = match (bundle_of(&src), bundle_of(&s1s)) {
        (Ok(a), Ok(b)) => (a, b),
        (Err(e), _) | (_, Err(e)) => {
            out.labels.push("codegen-panicked".into());
            out.failures.push(Failure { sig: format!("C14|codegen-panic|{}", short_hash(&e)), tag: None, what: format!("code generation panicked: {}", e), detail: json!({"source": src}) });
            return Ok(out);
        }
    };
    let (datas, trees, _) = super::c06::expand(&super::c06::Case { group: c.group.clone(), d0: c.d0.clone(), steps: c.steps.clone(), slot_ops: vec![], style: c.style });
    let mut histories = vec![json!({"data":datas,"trees":trees})];
    for e in &c.envs {
        histories.push(json!({"data":[e.to_js()],"trees":[]}));
    }
    let req = json!({"kind":"equiv","bundleA":ba,"bundleB":bb,"entry":"p","histories":histories});
    let resp = w.request(&req).map_err(|e| e.0)?;
    out.sample = Some(json!({"source": crate::util::truncate(&src[0].1, 300), "printed": crate::util::truncate(&s1s[0].1, 300)}));
    if resp.get("error").is_some() {
        // the original's artefact does not load (C02 owns that): behaviour comparison skipped, counted
        out.labels.push("original-artefact-does-not-load".into());
        return Ok(out);
    }
    if let Some(e) = resp.get("errorB") {
        out.failures.push(Failure { sig: "C14|printed-artefact-does-not-load".into(), tag: None, what: format!("artefact of the re-printed template does not load: {}", e), detail: json!({"s1": s1s}) });
        return Ok(out);
    }
    out.units = datas.len() as u64;
    let has_binding = src[0].1.contains("{{");
    if has_binding {
        out.nt.push(fnv64(src[0].1.as_bytes()));
    }
    for r in resp["results"].as_array().cloned().unwrap_or_default() {
        for m in r["mismatches"].as_array().cloned().unwrap_or_default().iter().take(2) {
            let m = Mismatch::from_json(m);
            // listed finding C14-F1: with mangling on, scope references are printed as `_$N` while the declaring
            // attributes are not renamed (pinned by the tests for_scope / for_if_scope / slot_value_ref_scope)
            let tag = if c.mangling && s1s.iter().any(|(_, s)| s.contains("_$")) {
                Some("mangled-scope-names-undeclared".to_string())
            } else if let Some(t) = src.iter().find_map(|(_, t)| file_tag(t).filter(|x| x != "lone-string-literal-binding-printed-static")) {
                // C14-F3 (text, comment, text) somewhere in the group
                Some(t)
            } else if let Some(t) = src.iter().find_map(|(_, t)| file_tag_with(t, true)) {
                // C14-F2 is narrowed wherever the generator's model is at hand: the printed template must behave like the
                // source with its lone literals made static — a deviation beyond that is not the listed finding
                if t == "lone-string-literal-binding-printed-static" && c.raw_entry.is_none() && c.mutations.is_empty() {
                    let same = staticise_lone_literals(&c.group).and_then(|g2| {
                        let src2 = crate::compile::print_group(&g2, c.style);
                        let b2 = bundle_of(&src2).ok()?;
                        let req = json!({"kind":"equiv","bundleA":b2,"bundleB":bb,"entry":"p","histories":histories});
                        let resp = w.request(&req).ok()?;
                        if resp.get("error").is_some() || resp.get("errorB").is_some() {
                            return None;
                        }
                        Some(resp["results"].as_array().map(|rs| rs.iter().all(|r| r["mismatches"].as_array().map(|m| m.is_empty()).unwrap_or(true))).unwrap_or(false))
                    });
                    if std::env::var("GEV_DEBUG_F2").is_ok() {
                        eprintln!("F2 narrowing: same={:?} staticised={:?}", same, staticise_lone_literals(&c.group).map(|g2| crate::compile::print_group(&g2, c.style)));
                    }
                    if same == Some(true) {
                        Some(t)
                    } else {
                        out.labels.push("lone-literal-source-but-other-deviation".into());
                        None
                    }
                } else {
                    Some(t)
                }
            } else if m.ch == "p" && m.actual == "<absent>" && m.expected.starts_with('"') {
                // listed finding C14-F2: a lone string-literal binding is printed as static text:
                // `change:x="{{ 'literal' }}"` is printed as the static `change:x="literal"`, which
                // generates no change binding (printing a lone string-literal binding as text is pinned by the test lit_str)
                Some("lone-string-literal-binding-printed-static".to_string())
            } else {
                None
            };
            out.failures.push(Failure {
                sig: format!("C14|behaviour|{}", m.ch),
                tag,
                what: format!("re-printed template behaves differently: {} ; source {:?} printed {:?}", m.describe(), crate::util::truncate(&src[0].1, 200), crate::util::truncate(&s1s[0].1, 200)),
                detail: json!({"source": src, "printed": s1s, "datas": datas}),
            });
        }
    }
    Ok(out)
}

pub fn run(tier: Tier, seed: u64, findings: &Findings) -> i32 {
    let started = Instant::now();
    let cfg = RunCfg { prop: "C14", tier, seed };
    let mut wc = gen::wxml::WxmlCfg::new(tier.pick(2, 3), tier.pick(2, 3));
    // slot value scopes: dynamic-slot components of the stub DOM and `slot:` references on their children
    wc.slot_refs = true;
    wc.dyn_tags = true;
    let check = C14 { cfg: wc };
    let mut report = engine::Report::default();
    report.merge(super::run_regress(&check, &cfg, findings));
    // every operator-pair / adjacency text of C03's enumeration must keep its value through print + re-parse
    let texts = super::c03::pair_texts();
    let envs = super::c03::pair_envs(Tier::Quick);
    let step = tier.pick(7, 1);
    let envs: Vec<JsVal> = envs.into_iter().step_by(step).collect();
    let mut explicit = vec![];
    for (ci, ch) in texts.chunks(30).enumerate() {
        let mut src = String::from("<v");
        for (i, (t, _)) in ch.iter().enumerate() {
            src.push_str(&format!(" a{}=\"{{{{{}}}}}\"", i, t));
        }
        src.push_str("/>");
        explicit.push(Case { group: Group::default(), style: 0, mutations: vec![], mangling: ci % 2 == 1, d0: envs[0].clone(), steps: vec![], raw_entry: Some(src), envs: envs.clone() });
    }
    // reference spellings whose suffix handling must survive a print / re-parse round
    for tag in ["import", "include", "wxs"] {
        for src in ["a", "a.wxml", "a.wxs", "a.wxml.wxml", "a.wxs.wxs", "d/a.wxml.wxs", "a.wxs.wxml", "a.wxml.wxs.wxml", ".wxml", "a.wxml/b", "a.js"] {
            let raw = if tag == "wxs" { format!("<wxs module=\"m\" src=\"{}\"/><v a=\"{{{{m.k}}}}\"/>", src) } else { format!("<v/><{} src=\"{}\"/>", tag, src) };
            explicit.push(Case { group: Group::default(), style: 0, mutations: vec![], mangling: false, d0: envs[0].clone(), steps: vec![], raw_entry: Some(raw), envs: vec![] });
        }
    }
    // names whose camel-cased form would collide with another attribute
    for raw in ["<slot name-=\"1\"/>", "<slot name-/>", "<v model:value-=\"{{a}}\" model:value=\"{{b}}\"/>", "<v change:p-=\"{{a}}\"/>", "<slot a--b=\"1\"/>", "<v data-a-=\"1\" data-a=\"2\"/>"] {
        explicit.push(Case { group: Group::default(), style: 0, mutations: vec![], mangling: false, d0: envs[0].clone(), steps: vec![], raw_entry: Some(raw.to_string()), envs: vec![] });
    }
    report.extra.insert("operator_texts".into(), json!(texts.len()));
    report.merge(engine::run_explicit(&check, &cfg, explicit, 2, 16, findings));
    let cases = tier.pick(20_000, 300_000);
    report.merge(engine::run_generated(&check, &cfg, cases, 8, 16, findings, 0));
    engine::finish(
        Finish {
            cfg,
            report,
            rule: "cases = generated groups (2/3 well-formed, 1/3 with 1-3 span mutations of the entry file), mangling on/off; s1 = print(parse(t)), s2 = print(parse(s1)). Oracles: s2 == s1; parse(s1) has no diagnostic above Note; the bundle compiled from the s1 texts renders and updates (data history with covering update-path trees) exactly like the bundle compiled from t on the real wrapper. non-trivial = entry source contains a binding; distinct by source. compared_units = data states compared.".into(),
            assumptions: vec!["stub DOM".into(), "behaviour comparison skipped (counted) when the original's artefact does not load — C02 owns that".into()],
            started,
            exhaustive: false,
        },
        findings,
    )
}

pub fn replay(v: &Value, path: &str, findings: &Findings) -> i32 {
    let check = C14 { cfg: gen::wxml::WxmlCfg::new(2, 2) };
    super::replay_generic(&check, "C14", v, path, findings)
}
