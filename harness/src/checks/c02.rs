//! C02 — every emitted JavaScript artefact parses (sloppy and strict), whatever diagnostics the template produced,
//! for any size, path, accepted name and literal.

use super::common::short_hash;
use crate::compile::{compile_sources, panic_message};
use crate::engine::{self, Failure, Finish, Outcome, PropCheck, RunCfg, Tier};
use crate::findings::Findings;
use crate::gen;
use crate::gen::soup::{self, Mutation};
use crate::jsworker::Worker;
use crate::model::wxml::Group;
use crate::util::fnv64;
use proptest::prelude::*;
use serde::{Deserialize, Serialize};
use serde_json::{json, Value};
use std::panic::{catch_unwind, AssertUnwindSafe};
use std::time::Instant;

#[derive(Clone, Debug, Serialize, Deserialize)]
pub enum Input {
    Group { group: Group, style: u64, mutations: Vec<Mutation>, adversarial: Vec<(u8, u8)> },
    /// n sibling / nested elements so that the shared identifier counter passes reserved words
    SizeRamp { n: u32, nested: bool, with_binding: bool },
    Raw(String),
    /// many deep expressions as attribute bindings (operator adjacency in the emitted JS: `- -a`, `+ +a`, `a- -b*c` ...)
    Exprs { exprs: Vec<crate::model::expr::Expr>, style: u64 },
    /// the l-value shapes of C11 (access chains, conditionals, scope items, spreads under `model:`, `wx:for`, `change:`,
    /// event bindings): every place where an l-value path array is emitted next to the value
    Lvalues { tape: Vec<u16>, style: u64 },
}

#[derive(Clone, Debug, Serialize, Deserialize)]
pub struct Case {
    pub input: Input,
    pub path: u8,
    pub dev: bool,
    pub extra: u8,
}

pub const ADV_NAMES: &[&str] = &["a'b", "a\"b", "a\\", "a\nb", "if", "in", "class", "1a", "a-b", "a.b", "\u{2028}", "</script>", "$", "_", "a b", "中", "😀", "a#b", "*/", "//"];
pub const ENTRY_PATHS: &[&str] = &["p", "dir/p", "it's", "q\"x", "back\\slash", "new\nline", "\u{2028}", "</script>", "中/😀", "a#b", "sp ace"];
pub const INLINE_EDGE_SCRIPTS: &[&str] = &["exports.a = 1 // trailing line comment", "exports.a = '< /wxs' + 1", "/* c */", "exports.f = function(){ return 1 }\n", "exports.s = \"\\u2028\""];
pub const EXTRA_SCRIPTS: &[&str] = &["", "var Z1=1;", "function Z2(){};Z2();", "/* c */;"];

/// adversarial decorations appended to the printed entry source (names the parser accepts at Note level or silently)
fn adversarial_suffix(adv: &[(u8, u8)]) -> String {
    let mut s = String::new();
    for (i, (kind, name)) in adv.iter().enumerate() {
        let n = ADV_NAMES[*name as usize % ADV_NAMES.len()];
        let q = if n.contains('"') { '\'' } else { '"' };
        match kind % 9 {
            0 => s.push_str(&format!("<wxs module={q}{n}{q}>{}</wxs>", INLINE_EDGE_SCRIPTS[i % INLINE_EDGE_SCRIPTS.len()])),
            1 => s.push_str(&format!("<wxs module=\"adv{i}\">{}</wxs>", INLINE_EDGE_SCRIPTS[*name as usize % INLINE_EDGE_SCRIPTS.len()])),
            2 => s.push_str(&format!("<view><block slot:{}>{{{{x}}}}</block></view>", ["a", "a-b", "a.b", "a1", "_x", "if", "a-", "5", "-", ".", "1a", "a..b", "-1"][*name as usize % 13])),
            3 => s.push_str(&format!("<view><v slot:a={q}{n}{q}>{{{{a}}}}</v></view>")),
            4 => s.push_str(&format!("<block wx:for=\"{{{{list}}}}\" wx:for-item={q}{n}{q} wx:for-index=\"i{i}\">{{{{i{i}}}}}</block>")),
            5 => s.push_str(&format!("<template name={q}{n}{q}>x</template><template is={q}{n}{q}/>")),
            6 => s.push_str(&format!("<view data:{0}=\"1\" mark:{0}=\"2\" bind:{0}=\"h\" generic:{0}=\"g\" extra-attr:{0}={q}{n}{q} worklet:{0}={q}{n}{q} model:{0}=\"{{{{a}}}}\" change:{0}=\"{{{{f}}}}\"/>", ["x", "if", "a-b", "a.b", "$x", "x1"][*name as usize % 6])),
            7 => s.push_str(&format!("<view wx:for=\"{{{{list}}}}\" wx:key={q}{n}{q}/>")),
            _ => s.push_str(&format!("<{0} id={q}{n}{q}>{{{{ {{ if: 1, class: a, in: b }}.if + a.new.delete + '{1}' }}}}</{0}>", ["view", "a.b", "x-y", "_t"][*name as usize % 4], if n.contains('\'') || n.contains('\\') || n.contains('\n') { "s" } else { n })),
        }
    }
    s
}

pub fn sources(c: &Case) -> (Vec<(String, String)>, Vec<(String, String)>) {
    let entry = ENTRY_PATHS[c.path as usize % ENTRY_PATHS.len()].to_string();
    match &c.input {
        Input::Group { group, style, mutations, adversarial } => {
            let mut src = crate::compile::print_group(group, *style);
            src[0].1.push_str(&adversarial_suffix(adversarial));
            if !mutations.is_empty() {
                src[0].1 = soup::apply(&src[0].1, mutations, soup::WXML_ALPHABET);
            }
            // the entry file is registered under an adversarial path as well (its references are absolute, so rendering is
            // not the subject here)
            let extra_entry = (entry, src[0].1.clone());
            src.push(extra_entry);
            // some groups carry no external script (the runtime prelude differs when there is none)
            let scripts = if c.extra & 4 == 0 { group.scripts.iter().map(|s| (s.path.clone(), s.js.clone())).collect() } else { vec![] };
            (src, scripts)
        }
        Input::SizeRamp { n, nested, with_binding } => {
            let mut s = String::new();
            let b = if *with_binding { " a=\"{{x}}\"" } else { "" };
            if *nested {
                let depth = 40usize;
                let per = (*n as usize / depth).max(1);
                for _ in 0..depth {
                    s.push_str("<v>");
                    for _ in 0..per {
                        s.push_str(&format!("<a{}/>", b));
                    }
                }
                for _ in 0..depth {
                    s.push_str("</v>");
                }
            } else {
                for _ in 0..*n {
                    s.push_str(&format!("<a{}/>", b));
                }
            }
            (vec![(entry, s)], vec![])
        }
        Input::Raw(t) => (vec![(entry, t.clone())], vec![("lib/s".into(), "module.exports = {} // c".into())]),
        Input::Lvalues { tape, style } => {
            let g = super::c11::build_group(tape);
            let src = crate::compile::print_group(&g, *style);
            let scripts = g.scripts.iter().map(|s| (s.path.clone(), s.js.clone())).collect();
            let mut out = src.clone();
            out.push((entry, src[0].1.clone()));
            (out, scripts)
        }
        Input::Exprs { exprs, style } => {
            let case = super::c03::Case { exprs: exprs.clone(), envs: vec![], style: *style, deliver: 0 };
            let g = super::c03::build_group(&case);
            let src = crate::compile::print_group(&g, *style);
            (vec![(entry, src[0].1.clone())], vec![])
        }
    }
}

pub fn inline_script_bodies(src: &[(String, String)]) -> Vec<String> {
    let mut out = vec![];
    for (p, t) in src {
        let r = catch_unwind(AssertUnwindSafe(|| {
            let mut g = glass_easel_template_compiler::TmplGroup::new();
            g.add_tmpl(p, t);
            let names: Vec<String> = g.inline_script_module_names(p).map(|i| i.map(|s| s.to_string()).collect()).unwrap_or_default();
            names.iter().filter_map(|n| g.inline_script_content(p, n).ok().map(|s| s.to_string())).collect::<Vec<_>>()
        }));
        if let Ok(v) = r {
            out.extend(v);
        }
    }
    out
}

pub struct C02 {
    pub cfg: gen::wxml::WxmlCfg,
}

pub fn artefacts(c: &Case) -> Result<Vec<(String, String)>, String> {
    let (src, scripts) = sources(c);
    let (mut g, _diags) = compile_sources(&src, &scripts, c.dev)?;
    let extra = EXTRA_SCRIPTS[c.extra as usize % EXTRA_SCRIPTS.len()];
    if !extra.is_empty() {
        g.set_extra_runtime_script(extra);
    }
    catch_unwind(AssertUnwindSafe(|| {
        let mut out = vec![];
        for (p, _) in &src {
            if let Ok(s) = g.get_tmpl_gen_object(p) {
                out.push((format!("get_tmpl_gen_object({:?})", p), s));
            }
        }
        if let Ok(s) = g.get_tmpl_gen_object_groups() {
            out.push(("get_tmpl_gen_object_groups".into(), s));
        }
        if let Ok(s) = g.get_wx_gen_object_groups() {
            out.push(("get_wx_gen_object_groups".into(), s));
        }
        out.push(("get_runtime_string".into(), g.get_runtime_string()));
        if let Ok(s) = g.export_globals() {
            out.push(("export_globals".into(), s));
        }
        if let Ok(s) = g.export_all_scripts() {
            out.push(("export_all_scripts".into(), s));
        }
        out
    }))
    .map_err(panic_message)
}

impl PropCheck for C02 {
    type Case = Case;

    fn strategy(&self) -> BoxedStrategy<Case> {
        let mut wc = self.cfg.clone();
        wc.expr.edge_numbers = true;
        wc.expr.small_numbers = false;
        let input = prop_oneof![
            8 => (gen::wxml::group(&wc), any::<u64>(), prop_oneof![3 => Just(vec![]), 1 => proptest::collection::vec(soup::mutation(), 1..4)], proptest::collection::vec((any::<u8>(), any::<u8>()), 0..4))
                .prop_map(|(group, style, mutations, adversarial)| Input::Group { group, style, mutations, adversarial }),
            1 => soup::soup(soup::WXML_ALPHABET, 80).prop_map(Input::Raw),
            3 => (proptest::collection::vec(gen::expr::expr(&gen::expr::ExprCfg::new(4)), 1..16), any::<u64>()).prop_map(|(exprs, style)| Input::Exprs { exprs, style }),
            2 => (proptest::collection::vec(any::<u16>(), 30..260), any::<u64>()).prop_map(|(tape, style)| Input::Lvalues { tape, style }),
        ];
        (input, any::<u8>(), any::<bool>(), any::<u8>()).prop_map(|(input, path, dev, extra)| Case { input, path, dev, extra }).boxed()
    }

    fn eval(&self, w: Option<&mut Worker>, cases: &[Case]) -> Result<Vec<Outcome>, String> {
        let w = w.ok_or("no worker")?;
        let mut outs = vec![];
        for c in cases {
            outs.push(eval_case(w, c)?);
        }
        Ok(outs)
    }

    fn case_json(&self, case: &Case) -> Value {
        let (src, _) = sources(case);
        let small: Vec<_> = src.iter().map(|(p, s)| (p.clone(), crate::util::truncate(s, 4000))).collect();
        json!({"case": serde_json::to_value(case).unwrap(), "source": small})
    }

    fn case_from_json(&self, v: &Value) -> Result<Case, String> {
        serde_json::from_value(v["case"].clone()).map_err(|e| e.to_string())
    }
}

pub fn eval_case(w: &mut Worker, c: &Case) -> Result<Outcome, String> {
    let mut out = Outcome::default();
    let (src, _) = sources(c);
    match &c.input {
        Input::Group { mutations, adversarial, .. } => {
            out.labels.push(if mutations.is_empty() { "input:well-formed".into() } else { "input:mutated".into() });
            if !adversarial.is_empty() {
                out.labels.push("adversarial-names".into());
            }
        }
        Input::SizeRamp { n, .. } => out.labels.push(format!("size-ramp:{}", n)),
        Input::Raw(_) => out.labels.push("input:soup".into()),
        Input::Exprs { .. } => out.labels.push("input:deep-expressions".into()),
        Input::Lvalues { .. } => out.labels.push("input:lvalue-shapes".into()),
    }
    out.labels.push(if c.dev { "dev-mode".into() } else { "non-dev".into() });
    out.labels.push(format!("entry-path:{}", c.path as usize % ENTRY_PATHS.len()));
    let arts = match artefacts(c) {
        Ok(a) => a,
        Err(p) => {
            out.failures.push(Failure { sig: format!("C02|emit-panic|{}", short_hash(&p)), tag: None, what: format!("emitting artefacts panicked: {}", p), detail: json!({"source": src.iter().map(|(p, s)| (p.clone(), crate::util::truncate(s, 2000))).collect::<Vec<_>>()}) });
            return Ok(out);
        }
    };
    out.units = arts.len() as u64;
    let entry_src = &src.last().unwrap().1;
    // precondition of the property: inline script bodies are themselves valid JavaScript (a mutation may have broken one)
    if !matches!(c.input, Input::SizeRamp { .. }) && entry_src.contains("<wxs") {
        let bodies = inline_script_bodies(&src);
        if !bodies.is_empty() {
            let codes: Vec<String> = bodies.iter().map(|b| format!("(function(require,exports,module){{{}\n}})", b)).collect();
            let resp = w.request(&json!({"kind":"syntax","codes":codes})).map_err(|e| e.0)?;
            if resp["results"].as_array().map(|a| a.iter().any(|r| !r["sloppy"].is_null() || !r["strict"].is_null())).unwrap_or(false) {
                out.labels.push("skipped:inline-script-not-valid-js".into());
                out.excluded += 1;
                return Ok(out);
            }
        }
    }
    if matches!(c.input, Input::Exprs { .. } | Input::Lvalues { .. }) || entry_src.contains("{{") && (entry_src.contains("wx:") || entry_src.contains("<wxs") || entry_src.contains("<template") || entry_src.contains("<slot") || entry_src.contains("<include")) {
        out.nt.push(fnv64(entry_src.as_bytes()));
    }
    out.sample = Some(json!({"entry_path": src.last().unwrap().0, "source": crate::util::truncate(entry_src, 300)}));
    let codes: Vec<&String> = arts.iter().map(|(_, s)| s).collect();
    let total: usize = codes.iter().map(|c| c.len()).sum();
    // V8 parses ~10 MB/s when 16 workers run at once: allow for the size of the request
    let timeout = crate::jsworker::REQUEST_TIMEOUT_S + (total as u64 / 100_000) * 2;
    let resp = w.request_within(&json!({"kind":"syntax","codes":codes}), timeout).map_err(|e| e.0)?;
    for ((name, code), r) in arts.iter().zip(resp["results"].as_array().cloned().unwrap_or_default()) {
        for mode in ["sloppy", "strict"] {
            if let Some(msg) = r[mode].as_str() {
                let api = name.split('(').next().unwrap_or(name);
                out.failures.push(Failure {
                    sig: format!("C02|{}|{}|{}", api, mode, crate::util::truncate(msg, 60)),
                    tag: None,
                    what: format!("{} does not parse in {} mode: {} — entry source {:?}", name, mode, msg, crate::util::truncate(entry_src, 300)),
                    detail: json!({"artefact": name, "mode": mode, "error": msg, "code_head": crate::util::truncate(code, 600)}),
                });
                break;
            }
        }
    }
    Ok(out)
}

pub fn run(tier: Tier, seed: u64, findings: &Findings) -> i32 {
    let started = Instant::now();
    let cfg = RunCfg { prop: "C02", tier, seed };
    let check = C02 { cfg: gen::wxml::WxmlCfg::new(tier.pick(2, 3), tier.pick(2, 3)) };
    let mut report = engine::Report::default();
    report.merge(super::run_regress(&check, &cfg, findings));
    // size ramps (the identifier counter passes `if`/`in`/`do` near 2.2-2.7k and `for`/`var`/`new`/`try`/`let` near 1.8e5)
    let sizes: Vec<u32> = tier.pick(vec![100, 1700, 2300, 2700, 3000], vec![100, 1700, 2300, 2700, 3000, 10_000, 180_000, 210_000]);
    let mut ramps = vec![];
    for n in sizes {
        for nested in [false, true] {
            for with_binding in [false, true] {
                ramps.push(Case { input: Input::SizeRamp { n, nested, with_binding }, path: 0, dev: false, extra: 0 });
            }
        }
    }
    if tier == Tier::Quick {
        // one flat template past every three-letter reserved word (the property's size bound is >= 200k nodes)
        ramps.push(Case { input: Input::SizeRamp { n: 210_000, nested: false, with_binding: false }, path: 0, dev: false, extra: 0 });
    }
    report.merge(engine::run_explicit(&check, &cfg, ramps, 1, 8, findings));
    // every operator-pair / adjacency-triple text of C03's enumeration, as artefact-validity input
    let texts = super::c03::pair_texts();
    let pair_cases: Vec<Case> = texts
        .chunks(40)
        .map(|ch| Case { input: Input::Exprs { exprs: ch.iter().map(|(s, j)| crate::model::expr::Expr::Raw { src: s.clone(), js: j.clone() }).collect(), style: 0 }, path: 0, dev: false, extra: 0 })
        .collect();
    report.extra.insert("operator_texts".into(), json!(texts.len()));
    report.merge(engine::run_explicit(&check, &cfg, pair_cases, 4, 16, findings));
    let cases = tier.pick(12_000, 400_000);
    report.merge(engine::run_generated(&check, &cfg, cases, 4, 16, findings, 0));
    engine::finish(
        Finish {
            cfg,
            report,
            rule: "cases = generated groups (well-formed, span-mutated, or token soup) decorated with adversarial accepted names (module / slot / scope / template / attribute names, keys), registered under adversarial template paths, dev and non-dev, with and without an extra runtime script, with inline scripts ending in a line comment; plus size ramps of N sibling / nested elements. Oracle: new vm.Script(code) succeeds in sloppy mode and with a 'use strict' prologue for get_tmpl_gen_object(path), get_tmpl_gen_object_groups(), get_wx_gen_object_groups(), get_runtime_string(), export_globals(), export_all_scripts(). non-trivial = entry source has a binding and a structural construct; distinct by entry source. compared_units = artefacts parsed.".into(),
            assumptions: vec!["V8's parser (node 22 vm.Script) decides syntactic validity".into(), "inline script bodies and the extra runtime script are valid JavaScript by construction".into()],
            started,
            exhaustive: false,
        },
        findings,
    )
}

pub fn replay(v: &Value, path: &str, findings: &Findings) -> i32 {
    let check = C02 { cfg: gen::wxml::WxmlCfg::new(2, 2) };
    super::replay_generic(&check, "C02", v, path, findings)
}
