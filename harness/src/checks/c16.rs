//! C16 — recorded source positions point at the text they describe.
//!
//! Generated templates (all element kinds / attribute families / expressions, printed with random line breaks, tabs,
//! comments, entities, multi-byte and astral characters) are parsed with `parse::parse`; the whole public AST is walked:
//!  * every stored location must lie inside the source (existing line, UTF-16 column on a character boundary);
//!  * the source slice of a tag name, attribute name, identifier, member name, literal or static value must be the
//!    spelling of that node (entity-decoded for names and static values, escape-decoded for string literals, numeric
//!    value for numbers, the operator / bracket text for punctuation locations);
//!  * children lie inside their parent's span, siblings are in source order;
//!  * every tag name / static attribute value / static text the printer recorded (its own independent line / UTF-16
//!    column bookkeeping) must be found in the AST at exactly that location.
//! The template is then re-printed with `Stringifier` and the source map is checked token by token: destination
//! positions never decrease, source positions are valid and are the start of a located construct of the AST, and the
//! (entity-decoded) source text at a named token's position starts with the name.

use super::common::short_hash;
use crate::engine::{self, Failure, Finish, Outcome, PropCheck, RunCfg, Tier};
use crate::findings::Findings;
use crate::gen;
use crate::jsworker::Worker;
use crate::model::wxml::{print_template_with_positions, Group, PosEntry};
use crate::util::fnv64;
use glass_easel_template_compiler::parse::expr::{ArrayFieldKind, Expression, ObjectFieldKind};
use glass_easel_template_compiler::parse::tag::{Attribute, ClassAttribute, CommonElementAttributes, Element, ElementKind, Ident, Node, NormalAttributePrefix, Script, StaticAttribute, StrName, StyleAttribute, TagLocation, Value as TValue};
use glass_easel_template_compiler::parse::{Position, TemplateStructure};
use glass_easel_template_compiler::stringify::{Stringifier, Stringify};
use proptest::prelude::*;
use serde::{Deserialize, Serialize};
use serde_json::{json, Value};
use std::collections::{HashMap, HashSet};
use std::ops::Range;
use std::sync::OnceLock;
use std::time::Instant;

type R = Range<Position>;

fn entity_table() -> &'static HashMap<String, String> {
    static T: OnceLock<HashMap<String, String>> = OnceLock::new();
    T.get_or_init(|| {
        let path = format!("{}/data/html5_entities.json", crate::jsworker::verif_root());
        let mut m = HashMap::new();
        if let Ok(text) = std::fs::read_to_string(path) {
            if let Ok(Value::Object(o)) = serde_json::from_str::<Value>(&text) {
                for (k, v) in o {
                    if let Some(s) = v.as_str() {
                        m.insert(k, s.to_string());
                    }
                }
            }
        }
        m
    })
}

/// entity decoding as the documentation describes it (numeric and HTML5 named references; anything else verbatim)
pub fn decode_entities(s: &str) -> String {
    let mut out = String::new();
    let mut rest = s;
    while let Some(i) = rest.find('&') {
        out.push_str(&rest[..i]);
        let tail = &rest[i..];
        let mut done = false;
        if let Some(semi) = tail.find(';') {
            let body = &tail[1..semi];
            let dec = if let Some(h) = body.strip_prefix("#x") {
                if !h.is_empty() && h.chars().all(|c| c.is_ascii_hexdigit()) { u32::from_str_radix(h, 16).ok().and_then(char::from_u32).map(|c| c.to_string()) } else { None }
            } else if let Some(d) = body.strip_prefix('#') {
                if !d.is_empty() && d.chars().all(|c| c.is_ascii_digit()) { d.parse::<u32>().ok().and_then(char::from_u32).map(|c| c.to_string()) } else { None }
            } else if !body.is_empty() && body.chars().all(|c| c.is_ascii_alphanumeric()) {
                entity_table().get(&format!("{};", body)).cloned()
            } else {
                None
            };
            if let Some(d) = dec {
                out.push_str(&d);
                rest = &tail[semi + 1..];
                done = true;
            }
        }
        if !done {
            out.push('&');
            rest = &tail[1..];
        }
    }
    out.push_str(rest);
    out
}

/// decode a quoted string literal of the expression grammar
fn decode_str_lit(s: &str) -> Option<String> {
    let mut cs = s.chars();
    let q = cs.next()?;
    if q != '"' && q != '\'' {
        return None;
    }
    let body: Vec<char> = cs.collect();
    if body.last() != Some(&q) {
        return None;
    }
    let body = &body[..body.len() - 1];
    let mut out = String::new();
    let mut i = 0;
    while i < body.len() {
        let c = body[i];
        if c == '\\' && i + 1 < body.len() {
            let n = body[i + 1];
            i += 2;
            match n {
                'n' => out.push('\n'),
                'r' => out.push('\r'),
                't' => out.push('\t'),
                'b' => out.push('\u{8}'),
                'f' => out.push('\u{c}'),
                'v' => out.push('\u{b}'),
                '0' => out.push('\0'),
                'x' | 'u' => {
                    let len = if n == 'x' { 2 } else { 4 };
                    if i + len > body.len() {
                        return None;
                    }
                    let h: String = body[i..i + len].iter().collect();
                    out.push(char::from_u32(u32::from_str_radix(&h, 16).ok()?)?);
                    i += len;
                }
                x => out.push(x),
            }
        } else {
            out.push(c);
            i += 1;
        }
    }
    Some(out)
}

/// dash-to-camel for any run of dashes (the documented normalisation of property / dataset names)
fn camel_loose(s: &str) -> String {
    let mut out = String::new();
    let mut up = false;
    for c in s.chars() {
        if c == '-' {
            up = true;
        } else if up {
            up = false;
            out.push(c.to_ascii_uppercase());
        } else {
            out.push(c);
        }
    }
    if up && !out.is_empty() {
        // a trailing dash has nothing to upper-case and is kept
        out.push('-');
    }
    if out.is_empty() {
        s.to_string()
    } else {
        out
    }
}

fn number_value(s: &str) -> Option<f64> {
    let t = s.trim();
    let radix = |digits: &str, r: u32| -> Option<f64> {
        if digits.is_empty() {
            return None;
        }
        // exact while it fits, then the same left-to-right float accumulation a JavaScript engine's slow path uses
        let mut exact: Option<u128> = Some(0);
        let mut f = 0f64;
        for c in digits.chars() {
            let d = c.to_digit(r)?;
            exact = exact.and_then(|v| v.checked_mul(r as u128)).and_then(|v| v.checked_add(d as u128));
            f = f * r as f64 + d as f64;
        }
        Some(exact.map(|v| v as f64).unwrap_or(f))
    };
    if let Some(h) = t.strip_prefix("0x").or_else(|| t.strip_prefix("0X")) {
        return radix(h, 16);
    }
    if t.len() > 1 && t.starts_with('0') && t.chars().all(|c| ('0'..='7').contains(&c)) {
        return radix(t, 8);
    }
    t.parse::<f64>().ok()
}

pub struct Walk<'s> {
    src: &'s str,
    line_starts: Vec<usize>,
    pub problems: Vec<(String, String)>,
    /// every stored location start
    pub starts: HashSet<(u32, u32)>,
    /// (start, end) -> decoded text of idents / static values found there
    pub texts: HashMap<((u32, u32), (u32, u32)), Vec<String>>,
    pub located: u64,
    pub astral_before: bool,
    /// false when the parser reported a Warn-level recovery (missing / mismatched end tags ...): the recovered tree
    /// carries synthetic tag delimiters and spans, so only leaf spellings and expression structure are judged
    pub strict_structure: bool,
    in_expr: u32,
}

fn key(p: Position) -> (u32, u32) {
    (p.line, p.utf16_col)
}

impl<'s> Walk<'s> {
    pub fn new(src: &'s str) -> Self {
        let mut line_starts = vec![0];
        for (i, b) in src.bytes().enumerate() {
            if b == b'\n' {
                line_starts.push(i + 1);
            }
        }
        Walk { src, line_starts, problems: vec![], starts: HashSet::new(), texts: HashMap::new(), located: 0, astral_before: false, strict_structure: true, in_expr: 0 }
    }

    fn problem(&mut self, class: &str, what: String) {
        if self.problems.len() < 12 {
            self.problems.push((class.to_string(), what));
        }
    }

    /// byte offset of a position; None when the line does not exist or the column is not on a character boundary
    pub fn offset(&self, p: Position) -> Option<usize> {
        let ls = *self.line_starts.get(p.line as usize)?;
        let le = self.line_starts.get(p.line as usize + 1).map(|x| x - 1).unwrap_or(self.src.len());
        let line = &self.src[ls..le];
        let mut col = 0u32;
        for (i, c) in line.char_indices() {
            if col == p.utf16_col {
                return Some(ls + i);
            }
            if col > p.utf16_col {
                return None;
            }
            col += c.len_utf16() as u32;
        }
        if col == p.utf16_col {
            Some(le)
        } else {
            None
        }
    }

    fn slice(&mut self, kind: &str, r: &R) -> Option<&'s str> {
        self.located += 1;
        self.starts.insert(key(r.start));
        let (a, b) = (self.offset(r.start), self.offset(r.end));
        match (a, b) {
            (Some(a), Some(b)) if a <= b => {
                if !self.astral_before && self.src[..a].chars().any(|c| c.len_utf16() == 2) && self.src[..a].contains('\n') {
                    self.astral_before = true;
                }
                Some(&self.src[a..b])
            }
            _ => {
                self.problem("invalid-location", format!("{} location {:?}-{:?} is not a span of the source (existing line, column on a character boundary, start <= end)", kind, key(r.start), key(r.end)));
                None
            }
        }
    }

    /// spellings are judged for clean parses, and inside expressions always (recoveries do not rewrite expressions)
    fn judge(&self) -> bool {
        self.strict_structure || self.in_expr > 0
    }

    fn exact(&mut self, kind: &str, r: &R, text: &str) {
        if let Some(s) = self.slice(kind, r) {
            if s != text && self.judge() {
                self.problem(&format!("slice:{}", kind), format!("{} `{}` has location {:?}-{:?} which spans {:?}", kind, text, key(r.start), key(r.end), crate::util::truncate(s, 60)));
            }
        }
    }

    fn brace(&mut self, kind: &str, r: &R, open: bool) {
        if let Some(s) = self.slice(kind, r) {
            let ok = if open { s.ends_with("{{") } else { s.starts_with("}}") };
            if !ok {
                self.problem(&format!("slice:{}", kind), format!("{} location {:?}-{:?} spans {:?}", kind, key(r.start), key(r.end), crate::util::truncate(s, 40)));
            }
        }
    }

    fn one_of(&mut self, kind: &str, r: &R, texts: &[&str]) {
        if let Some(s) = self.slice(kind, r) {
            if !texts.contains(&s) && self.judge() {
                self.problem(&format!("slice:{}", kind), format!("{} location {:?}-{:?} spans {:?}, expected {:?}", kind, key(r.start), key(r.end), crate::util::truncate(s, 60), texts));
            }
        }
    }

    fn decoded(&mut self, kind: &str, r: &R, text: &str, strip: Option<&str>) {
        if let Some(s) = self.slice(kind, r) {
            let d = decode_entities(s);
            let ok = d == text || strip.map(|sfx| d.strip_suffix(sfx) == Some(text)).unwrap_or(false);
            self.texts.entry((key(r.start), key(r.end))).or_default().push(d.clone());
            if !ok && self.judge() {
                self.problem(&format!("slice:{}", kind), format!("{} `{}` has location {:?}-{:?} which spans {:?}", kind, crate::util::truncate(text, 60), key(r.start), key(r.end), crate::util::truncate(s, 60)));
            }
        }
    }

    fn inside(&mut self, kind: &str, outer: (Position, Position), r: &R) {
        if !self.strict_structure && (kind == "child-node" || kind.starts_with("wx:") || kind.ends_with("-static-value") || kind.ends_with("-expression") || kind.ends_with("-name") || kind.ends_with("-value")) {
            return;
        }
        if !(outer.0 <= r.start && r.end <= outer.1) {
            self.problem(&format!("nesting:{}", kind), format!("{} at {:?}-{:?} is not inside its parent's span {:?}-{:?}", kind, key(r.start), key(r.end), key(outer.0), key(outer.1)));
        }
    }

    fn ordered(&mut self, kind: &str, a: Position, b: Position) {
        if a > b && self.judge() {
            self.problem(&format!("order:{}", kind), format!("{}: {:?} comes after {:?}", kind, key(a), key(b)));
        }
    }

    /// names: the slice (entity-decoded) is the name, up to the documented normalisations of attribute names
    /// (`foo-bar` -> `fooBar` for properties, `data-Foo-bar` -> `fooBar` with the `data-` part inside the location)
    fn ident(&mut self, kind: &str, id: &Ident) {
        if let Some(s) = self.slice(kind, &id.location) {
            let d = decode_entities(s);
            self.texts.entry((key(id.location.start), key(id.location.end))).or_default().push(d.clone());
            let camel = camel_loose(&d);
            let data = d.strip_prefix("data-").map(|r| camel_loose(&r.to_lowercase()));
            let ok = d == id.name.as_str() || (kind != "tag-name" && (camel == id.name.as_str() || data.as_deref() == Some(id.name.as_str())));
            if !ok && self.judge() {
                self.problem(&format!("slice:{}", kind), format!("{} `{}` has location {:?}-{:?} which spans {:?}", kind, crate::util::truncate(&id.name, 60), key(id.location.start), key(id.location.end), crate::util::truncate(s, 60)));
            }
        }
    }

    fn str_name(&mut self, kind: &str, n: &StrName, strip: Option<&str>) {
        self.decoded(kind, &n.location, &n.name, strip);
    }

    fn value(&mut self, kind: &str, v: &TValue, span: Option<(Position, Position)>) {
        match v {
            TValue::Static { value, location, .. } => {
                self.decoded(&format!("{}-static-value", kind), location, value, None);
                if let Some(sp) = span {
                    self.inside(&format!("{}-static-value", kind), sp, location);
                }
            }
            TValue::Dynamic { expression, double_brace_location, .. } => {
                // a mixed value is a synthetic concatenation: its braces belong to the pieces
                let r = expression.location();
                if let Some(sp) = span {
                    self.inside(&format!("{}-expression", kind), sp, &r);
                }
                let mixed = matches!(**expression, Expression::Plus { ref location, .. } if self.offset(location.start).map(|o| self.src[o..].starts_with("{{") || self.src[o..].starts_with("}}")).unwrap_or(false))
                    || matches!(**expression, Expression::ToStringWithoutUndefined { .. });
                if !mixed {
                    // (adjacent static text merged into a literal of the expression extends these ranges)
                    self.brace("binding-open", &double_brace_location.0, true);
                    self.brace("binding-close", &double_brace_location.1, false);
                    self.ordered("binding", double_brace_location.0.start, r.start);
                    self.ordered("binding", r.end, double_brace_location.1.end);
                }
                self.expr(expression, true);
            }
            _ => {}
        }
    }

    fn expr(&mut self, e: &Expression, top: bool) {
        self.in_expr += 1;
        self.expr_inner(e, top);
        self.in_expr -= 1;
    }

    fn expr_inner(&mut self, e: &Expression, top: bool) {
        let whole = e.location();
        let span = (whole.start, whole.end);
        macro_rules! bin {
            ($l:expr, $r:expr, $loc:expr, $ops:expr) => {{
                self.one_of("operator", $loc, $ops);
                self.ordered("operand-operator", $l.location().end, $loc.start);
                self.ordered("operator-operand", $loc.end, $r.location().start);
                self.inside("left-operand", span, &$l.location());
                self.inside("right-operand", span, &$r.location());
                self.expr($l, false);
                self.expr($r, false);
            }};
        }
        macro_rules! un {
            ($v:expr, $loc:expr, $ops:expr) => {{
                self.one_of("operator", $loc, $ops);
                self.ordered("operator-operand", $loc.end, $v.location().start);
                self.inside("operand", span, &$v.location());
                self.expr($v, false);
            }};
        }
        match e {
            Expression::ScopeRef { location, .. } => {
                if let Some(s) = self.slice("scope-reference", location) {
                    if s.is_empty() || !s.chars().all(|c| c.is_ascii_alphanumeric() || c == '_' || c == '$') {
                        self.problem("slice:scope-reference", format!("scope reference location {:?}-{:?} spans {:?}", key(location.start), key(location.end), crate::util::truncate(s, 40)));
                    }
                }
            }
            Expression::DataField { name, location, .. } => self.exact("identifier", location, name),
            Expression::ToStringWithoutUndefined { value, location, .. } => {
                if let Some(sl) = self.slice("binding-brace", location) {
                    if !(sl.starts_with("}}") || sl.ends_with("{{")) {
                        self.problem("slice:binding-brace", format!("binding brace location {:?}-{:?} spans {:?}", key(location.start), key(location.end), crate::util::truncate(sl, 40)));
                    }
                }
                self.expr(value, false);
            }
            Expression::LitUndefined { location, .. } => self.exact("literal", location, "undefined"),
            Expression::LitNull { location, .. } => self.exact("literal", location, "null"),
            Expression::LitBool { value, location, .. } => self.exact("literal", location, if *value { "true" } else { "false" }),
            Expression::LitStr { value, location, .. } => {
                if let Some(s) = self.slice("string-literal", location) {
                    // a quoted literal, or a static piece of a mixed value (then entity-decoded text)
                    // (static text next to a binding whose expression ends / starts with a literal is merged into that
                    // literal: the location then spans both spellings and the braces between them)
                    let merged = s.contains("}}") || s.contains("{{");
                    let ok = merged || decode_str_lit(s).as_deref() == Some(value.as_str()) || decode_entities(s) == value.as_str();
                    if !ok {
                        self.problem("slice:string-literal", format!("string literal {:?} has location {:?}-{:?} which spans {:?}", crate::util::truncate(value, 40), key(location.start), key(location.end), crate::util::truncate(s, 60)));
                    }
                }
            }
            Expression::LitInt { value, location, .. } => {
                if let Some(s) = self.slice("number-literal", location) {
                    if number_value(s) != Some(*value as f64) {
                        self.problem("slice:number-literal", format!("integer literal {} has location {:?}-{:?} which spans {:?}", value, key(location.start), key(location.end), crate::util::truncate(s, 40)));
                    }
                }
            }
            Expression::LitFloat { value, location, .. } => {
                if let Some(s) = self.slice("number-literal", location) {
                    let v = number_value(s);
                    let close = |a: f64, b: f64| a == b || ((a - b).abs() <= 1e-12 * a.abs().max(b.abs()));
                    if !(v.map(|x| close(x, *value)).unwrap_or(false) || (value.is_nan() && v.map(|x| x.is_nan()).unwrap_or(false))) {
                        self.problem("slice:number-literal", format!("float literal {} has location {:?}-{:?} which spans {:?}", value, key(location.start), key(location.end), crate::util::truncate(s, 40)));
                    }
                }
            }
            Expression::LitObj { fields, brace_location, .. } => {
                // the object of `<template data>` has no braces of its own (empty ranges)
                let _ = top;
                if brace_location.0.start != brace_location.0.end || brace_location.1.start != brace_location.1.end {
                    self.exact("brace", &brace_location.0, "{");
                    self.exact("brace", &brace_location.1, "}");
                } else {
                    self.slice("data-object", &brace_location.0);
                    self.slice("data-object", &brace_location.1);
                }
                let mut prev = brace_location.0.end;
                for f in fields {
                    match f {
                        ObjectFieldKind::Named { name, location, colon_location, value, .. } => {
                            self.exact("object-key", location, name);
                            self.inside("object-key", span, location);
                            self.ordered("object-fields", prev, location.start);
                            if let Some(c) = colon_location {
                                self.exact("colon", c, ":");
                                self.ordered("key-colon", location.end, c.start);
                                self.ordered("colon-value", c.end, value.location().start);
                                self.inside("object-value", span, &value.location());
                                self.expr(value, false);
                            }
                            prev = value.location().end.max(location.end);
                        }
                        ObjectFieldKind::Spread { location, value, .. } => {
                            self.exact("spread", location, "...");
                            self.ordered("object-fields", prev, location.start);
                            self.inside("object-value", span, &value.location());
                            self.expr(value, false);
                            prev = value.location().end;
                        }
                    }
                }
            }
            Expression::LitArr { fields, bracket_location, .. } => {
                self.exact("bracket", &bracket_location.0, "[");
                self.exact("bracket", &bracket_location.1, "]");
                let mut prev = bracket_location.0.end;
                for f in fields {
                    match f {
                        ArrayFieldKind::Normal { value, .. } => {
                            self.ordered("array-items", prev, value.location().start);
                            self.inside("array-item", span, &value.location());
                            self.expr(value, false);
                            prev = value.location().end;
                        }
                        ArrayFieldKind::Spread { location, value, .. } => {
                            self.exact("spread", location, "...");
                            self.ordered("array-items", prev, location.start);
                            self.inside("array-item", span, &value.location());
                            self.expr(value, false);
                            prev = value.location().end;
                        }
                        _ => {}
                    }
                }
            }
            Expression::StaticMember { obj, field_name, dot_location, field_location, .. } => {
                self.exact("dot", dot_location, ".");
                self.exact("member-name", field_location, field_name);
                self.ordered("object-dot", obj.location().end, dot_location.start);
                self.ordered("dot-member", dot_location.end, field_location.start);
                self.inside("member-name", span, field_location);
                self.expr(obj, false);
            }
            Expression::DynamicMember { obj, field_name, bracket_location, .. } => {
                self.exact("bracket", &bracket_location.0, "[");
                self.exact("bracket", &bracket_location.1, "]");
                self.ordered("object-bracket", obj.location().end, bracket_location.0.start);
                self.ordered("bracket-index", bracket_location.0.end, field_name.location().start);
                self.ordered("index-bracket", field_name.location().end, bracket_location.1.start);
                self.inside("index-bracket", span, &bracket_location.1);
                self.expr(obj, false);
                self.expr(field_name, false);
            }
            Expression::FuncCall { func, args, paren_location, .. } => {
                self.exact("parenthesis", &paren_location.0, "(");
                self.exact("parenthesis", &paren_location.1, ")");
                self.ordered("callee-parenthesis", func.location().end, paren_location.0.start);
                self.inside("call-parenthesis", span, &paren_location.1);
                let mut prev = paren_location.0.end;
                for a in args {
                    self.ordered("arguments", prev, a.location().start);
                    self.expr(a, false);
                    prev = a.location().end;
                }
                self.ordered("arguments", prev, paren_location.1.start);
                self.expr(func, false);
            }
            Expression::Reverse { value, location, .. } => un!(value, location, &["!"]),
            Expression::BitReverse { value, location, .. } => un!(value, location, &["~"]),
            Expression::Positive { value, location, .. } => un!(value, location, &["+"]),
            Expression::Negative { value, location, .. } => un!(value, location, &["-"]),
            Expression::TypeOf { value, location, .. } => un!(value, location, &["typeof"]),
            Expression::Void { value, location, .. } => un!(value, location, &["void"]),
            Expression::Multiply { left, right, location, .. } => bin!(left, right, location, &["*"]),
            Expression::Divide { left, right, location, .. } => bin!(left, right, location, &["/"]),
            Expression::Remainer { left, right, location, .. } => bin!(left, right, location, &["%"]),
            Expression::Plus { left, right, location, .. } => {
                // the concatenation of a mixed value is synthetic: its location is the adjacent binding brace
                let synthetic = self.offset(location.start).map(|o| self.src[o..].starts_with("{{") || self.src[o..].starts_with("}}")).unwrap_or(false);
                if synthetic {
                    self.one_of("operator", location, &["{{", "}}"]);
                    self.ordered("mixed-value-pieces", left.location().start, right.location().start);
                    self.expr(left, false);
                    self.expr(right, false);
                } else {
                    bin!(left, right, location, &["+"])
                }
            }
            Expression::Minus { left, right, location, .. } => bin!(left, right, location, &["-"]),
            Expression::LeftShift { left, right, location, .. } => bin!(left, right, location, &["<<"]),
            Expression::RightShift { left, right, location, .. } => bin!(left, right, location, &[">>"]),
            Expression::UnsignedRightShift { left, right, location, .. } => bin!(left, right, location, &[">>>"]),
            Expression::Lt { left, right, location, .. } => bin!(left, right, location, &["<"]),
            Expression::Gt { left, right, location, .. } => bin!(left, right, location, &[">"]),
            Expression::Lte { left, right, location, .. } => bin!(left, right, location, &["<="]),
            Expression::Gte { left, right, location, .. } => bin!(left, right, location, &[">="]),
            Expression::InstanceOf { left, right, location, .. } => bin!(left, right, location, &["instanceof"]),
            Expression::Eq { left, right, location, .. } => bin!(left, right, location, &["=="]),
            Expression::Ne { left, right, location, .. } => bin!(left, right, location, &["!="]),
            Expression::EqFull { left, right, location, .. } => bin!(left, right, location, &["==="]),
            Expression::NeFull { left, right, location, .. } => bin!(left, right, location, &["!=="]),
            Expression::BitAnd { left, right, location, .. } => bin!(left, right, location, &["&"]),
            Expression::BitXor { left, right, location, .. } => bin!(left, right, location, &["^"]),
            Expression::BitOr { left, right, location, .. } => bin!(left, right, location, &["|"]),
            Expression::LogicAnd { left, right, location, .. } => bin!(left, right, location, &["&&"]),
            Expression::LogicOr { left, right, location, .. } => bin!(left, right, location, &["||"]),
            Expression::NullishCoalescing { left, right, location, .. } => bin!(left, right, location, &["??"]),
            Expression::Cond { cond, true_br, false_br, question_location, colon_location, .. } => {
                self.exact("question-mark", question_location, "?");
                self.exact("colon", colon_location, ":");
                self.ordered("condition-question", cond.location().end, question_location.start);
                self.ordered("question-branch", question_location.end, true_br.location().start);
                self.ordered("branch-colon", true_br.location().end, colon_location.start);
                self.ordered("colon-branch", colon_location.end, false_br.location().start);
                self.expr(cond, false);
                self.expr(true_br, false);
                self.expr(false_br, false);
            }
            _ => {}
        }
    }

    fn tag_location(&mut self, t: &TagLocation) -> (Position, Position) {
        if !self.strict_structure {
            for r in [&t.start.0, &t.start.1, &t.close] {
                self.slice("tag-delimiter", r);
            }
            let mut end = t.start.1.end;
            if let Some((a, b)) = &t.end {
                self.slice("tag-delimiter", a);
                self.slice("tag-delimiter", b);
                end = b.end;
            }
            return (t.start.0.start, end);
        }
        self.exact("tag-open", &t.start.0, "<");
        self.exact("tag-close", &t.start.1, ">");
        // (an element whose end tag is missing — a Warn-level recovery — reuses the `>` of its start tag here)
        if t.end.is_none() && t.close == t.start.1 {
            self.slice("tag-slash", &t.close);
        } else {
            self.exact("tag-slash", &t.close, "/");
        }
        self.ordered("start-tag", t.start.0.end, t.start.1.start);
        let mut end = t.start.1.end;
        if let Some((a, b)) = &t.end {
            self.exact("end-tag-open", a, "<");
            // (an end tag that the end of the source cuts off has an empty closing range; it carries a diagnostic)
            if b.start != b.end {
                self.exact("end-tag-close", b, ">");
            } else {
                self.slice("end-tag-close", b);
            }
            self.ordered("tag-ends", t.start.1.end, a.start);
            self.ordered("end-tag", a.end, b.start);
            end = b.end;
        }
        (t.start.0.start, end)
    }

    /// span in which the attributes of a start tag live
    fn attr_span(t: &TagLocation) -> (Position, Position) {
        (t.start.0.end, t.start.1.start)
    }

    fn content_span(t: &TagLocation) -> (Position, Position) {
        match &t.end {
            Some((a, _)) => (t.start.1.end, a.start),
            // self-closed, or the end tag is missing (a Warn-level recovery: the children follow the start tag)
            None => (t.start.1.end, Position { line: u32::MAX, utf16_col: u32::MAX }),
        }
    }

    fn named_value(&mut self, kind: &str, name: &R, v: &TValue, span: (Position, Position)) {
        // the stored range is the attribute's name (with its prefix)
        if let Some(s) = self.slice(&format!("{}-attribute-name", kind), name) {
            if s.is_empty() || s.contains('=') || s.contains(char::is_whitespace) {
                self.problem("slice:attribute-name", format!("{} attribute name location {:?}-{:?} spans {:?}", kind, key(name.start), key(name.end), crate::util::truncate(s, 40)));
            }
        }
        self.inside(&format!("{}-attribute-name", kind), span, name);
        let vl = match v {
            TValue::Static { location, .. } => Some(location.clone()),
            TValue::Dynamic { double_brace_location, .. } => Some(double_brace_location.0.start..double_brace_location.1.end),
            _ => None,
        };
        if let Some(vl) = &vl {
            // a valueless attribute stores an empty value at the end of its name
            if vl.start != vl.end {
                self.ordered(&format!("{}-name-value", kind), name.end, vl.start);
            }
        }
        self.value(kind, v, Some(span));
    }

    fn attribute(&mut self, kind: &str, a: &Attribute, span: (Position, Position)) {
        self.ident(&format!("{}-name", kind), &a.name);
        self.inside(&format!("{}-name", kind), span, &a.name.location);
        if let Some(p) = &a.prefix_location {
            self.slice(&format!("{}-prefix", kind), p);
            self.ordered(&format!("{}-prefix-name", kind), p.end, a.name.location.start);
        }
        if let Some(v) = &a.value {
            self.value(kind, v, Some(span));
        }
    }

    fn static_attribute(&mut self, kind: &str, a: &StaticAttribute, span: (Position, Position)) {
        self.ident(&format!("{}-name", kind), &a.name);
        self.inside(&format!("{}-name", kind), span, &a.name.location);
        if let Some(p) = &a.prefix_location {
            self.slice(&format!("{}-prefix", kind), p);
            self.ordered(&format!("{}-prefix-name", kind), p.end, a.name.location.start);
        }
        // a valueless `slot:x` reference names itself: the value shares the name's location
        if a.value.location != a.name.location {
            self.str_name(&format!("{}-value", kind), &a.value, None);
            self.inside(&format!("{}-value", kind), span, &a.value.location);
        }
    }

    fn common(&mut self, c: &CommonElementAttributes, span: (Position, Position)) {
        if let Some((n, v)) = &c.id {
            self.named_value("id", n, v, span);
        }
        if let Some((n, v)) = &c.slot {
            self.named_value("slot", n, v, span);
        }
        for a in &c.slot_value_refs {
            self.static_attribute("slot-value-ref", a, span);
        }
        for e in &c.event_bindings {
            self.ident("event-name", &e.name);
            self.inside("event-name", span, &e.name.location);
            self.slice("event-prefix", &e.prefix_location);
            self.ordered("event-prefix-name", e.prefix_location.end, e.name.location.start);
            if let Some(v) = &e.value {
                self.value("event", v, Some(span));
            }
        }
        for a in &c.data {
            // `data-foo-bar` is stored camel-cased: only `data:` names are compared literally
            if a.prefix_location.is_some() {
                self.attribute("dataset", a, span);
            } else if let Some(v) = &a.value {
                self.slice("dataset-name", &a.name.location);
                self.value("dataset", v, Some(span));
            }
        }
        for a in &c.marks {
            self.attribute("mark", a, span);
        }
    }

    pub fn nodes(&mut self, nodes: &[Node], span: Option<(Position, Position)>) {
        let mut prev: Option<Position> = None;
        for n in nodes {
            let loc = match n {
                Node::Text(v) => {
                    self.value("text", v, span);
                    match v {
                        TValue::Static { location, .. } => Some(location.clone()),
                        TValue::Dynamic { expression, .. } => Some(expression.location()),
                        _ => None,
                    }
                }
                Node::Element(e) => Some(self.element(e, span)),
                Node::Comment(c) => {
                    if let Some(s) = self.slice("comment", &c.location) {
                        // (a comment that the end of the source cuts off has no `-->`)
                        if !s.starts_with("<!--") {
                            self.problem("slice:comment", format!("comment location {:?}-{:?} spans {:?}", key(c.location.start), key(c.location.end), crate::util::truncate(s, 40)));
                        }
                    }
                    Some(c.location.clone())
                }
                Node::UnknownMetaTag(m) => {
                    self.slice("meta-tag", &m.location);
                    Some(m.location.clone())
                }
                _ => None,
            };
            if let Some(l) = loc {
                if let Some(sp) = span {
                    self.inside("child-node", sp, &l);
                }
                if let Some(p) = prev {
                    self.ordered("sibling-nodes", p, l.start);
                }
                prev = Some(l.end);
            }
        }
    }

    fn element(&mut self, e: &Element, _outer: Option<(Position, Position)>) -> R {
        let t = &e.tag_location;
        let (s, en) = self.tag_location(t);
        let aspan = Self::attr_span(t);
        let cspan = Self::content_span(t);
        match &e.kind {
            ElementKind::Normal { tag_name, attributes, class, style, change_attributes, worklet_attributes, children, generics, extra_attr, common, .. } => {
                self.ident("tag-name", tag_name);
                self.inside("tag-name", aspan, &tag_name.location);
                for a in attributes {
                    self.ident("attribute-name", &a.name);
                    self.inside("attribute-name", aspan, &a.name.location);
                    if let NormalAttributePrefix::Model(p) = &a.prefix {
                        self.exact("model-prefix", p, "model");
                        self.ordered("prefix-name", p.end, a.name.location.start);
                    }
                    if let Some(v) = &a.value {
                        self.value("attribute", v, Some(aspan));
                    }
                }
                match class {
                    ClassAttribute::String(n, v) => self.named_value("class", n, v, aspan),
                    ClassAttribute::Multiple(items) => {
                        for (id, v) in items {
                            self.ident("class-name", id);
                            self.value("class", v, Some(aspan));
                        }
                    }
                    _ => {}
                }
                match style {
                    StyleAttribute::String(n, v) => self.named_value("style", n, v, aspan),
                    StyleAttribute::Multiple(items) => {
                        for (id, v) in items {
                            self.ident("style-name", id);
                            self.value("style", v, Some(aspan));
                        }
                    }
                    _ => {}
                }
                for a in change_attributes {
                    self.attribute("change", a, aspan);
                }
                for a in worklet_attributes {
                    self.static_attribute("worklet", a, aspan);
                }
                for a in generics {
                    self.static_attribute("generic", a, aspan);
                }
                for a in extra_attr {
                    self.static_attribute("extra-attr", a, aspan);
                }
                self.common(common, aspan);
                self.nodes(children, Some(cspan));
            }
            ElementKind::Pure { children, slot, slot_value_refs, .. } => {
                if let Some((n, v)) = slot {
                    self.named_value("slot", n, v, aspan);
                }
                for a in slot_value_refs {
                    self.static_attribute("slot-value-ref", a, aspan);
                }
                self.nodes(children, Some(cspan));
            }
            ElementKind::For { list, item_name, index_name, key: k, children, .. } => {
                self.named_value("wx:for", &list.0, &list.1, aspan);
                // defaults carry the location of the wx:for attribute itself
                for (what, (n, v)) in [("wx:for-item", item_name), ("wx:for-index", index_name), ("wx:key", k)] {
                    if v.location != list.0 && n != &v.location {
                        self.slice(what, n);
                        self.inside(what, aspan, n);
                        self.str_name(&format!("{}-value", what), v, None);
                        self.inside(&format!("{}-value", what), aspan, &v.location);
                    }
                }
                // the loop shares the tag of its element: children are that element (or its children for a block)
                self.nodes(children, Some((s, en)));
            }
            ElementKind::If { branches, else_branch, .. } => {
                let mut prev: Option<Position> = None;
                for (n, v, kids) in branches {
                    if let Some(p) = prev {
                        self.ordered("if-branches", p, n.start);
                    }
                    prev = Some(n.end);
                    self.slice("wx:if-name", n);
                    self.inside("wx:if-name", (s, en), n);
                    self.value("wx:if", v, Some((s, en)));
                    self.nodes(kids, Some((s, en)));
                }
                if let Some((n, kids)) = else_branch {
                    if let Some(p) = prev {
                        self.ordered("if-branches", p, n.start);
                    }
                    self.slice("wx:else-name", n);
                    self.inside("wx:else-name", (s, en), n);
                    self.nodes(kids, Some((s, en)));
                }
            }
            ElementKind::TemplateRef { target, data, .. } => {
                self.named_value("is", &target.0, &target.1, aspan);
                if data.0.start != data.0.end {
                    self.named_value("data", &data.0, &data.1, aspan);
                }
            }
            ElementKind::Include { path, .. } => {
                self.slice("src-name", &path.0);
                self.inside("src-name", aspan, &path.0);
                self.str_name("src-value", &path.1, Some(".wxml"));
                self.inside("src-value", aspan, &path.1.location);
            }
            ElementKind::Slot { name, values, common, .. } => {
                if name.0.start != name.0.end {
                    self.named_value("slot-name", &name.0, &name.1, aspan);
                }
                for a in values {
                    self.attribute("slot-value", a, aspan);
                }
                self.common(common, aspan);
            }
            _ => {}
        }
        s..en
    }
}

#[derive(Clone, Debug, Serialize, Deserialize)]
pub struct Case {
    pub group: Group,
    pub style: u64,
    /// characters inserted into static text to move columns: index into a pool
    pub spice: u8,
}

pub struct C16;

impl PropCheck for C16 {
    type Case = Case;

    fn needs_worker(&self) -> bool {
        false
    }

    fn strategy(&self) -> BoxedStrategy<Case> {
        let cfg = gen::wxml::WxmlCfg::new(3, 3);
        (gen::wxml::group(&cfg), 1u64..u64::MAX, any::<u8>(), any::<u64>())
            .prop_map(|(mut group, style, spice, deco)| {
                let mut rng = crate::util::Rng::new(deco | 1);
                if deco % 2 == 0 {
                    for t in group.files.iter_mut() {
                        gen::wxml::add_slot_refs(&mut t.body, &mut rng);
                    }
                }
                Case { group, style, spice }
            })
            .boxed()
    }

    fn eval(&self, _w: Option<&mut Worker>, cases: &[Case]) -> Result<Vec<Outcome>, String> {
        Ok(cases.iter().map(eval_case).collect())
    }

    fn case_json(&self, case: &Case) -> Value {
        let srcs: Vec<Value> = sources(case).into_iter().map(|(p, s, _)| json!([p, s])).collect();
        json!({"case": serde_json::to_value(case).unwrap(), "source": srcs})
    }

    fn case_from_json(&self, v: &Value) -> Result<Case, String> {
        serde_json::from_value(v["case"].clone()).map_err(|e| e.to_string())
    }
}

const SPICE: &[&str] = &["", "😀", "\u{10ffff}é", "中文\n😀", "\r\n\t𝒳", "\u{2028}a😀\n"];

/// printed sources with the printer's position table; a leading text moves every position (astral / multi-line prefix)
fn sources(c: &Case) -> Vec<(String, String, Vec<PosEntry>)> {
    let mut out = vec![];
    for (fi, t) in c.group.files.iter().enumerate() {
        let mut t2 = t.clone();
        let sp = SPICE[(c.spice as usize + fi) % SPICE.len()];
        if !sp.is_empty() {
            t2.body.insert(0, crate::model::wxml::Node::Text(vec![crate::model::wxml::Piece::Lit(format!("{}x", sp))]));
            t2.body = crate::model::wxml::normalise_nodes(t2.body);
        }
        let (src, pos) = print_template_with_positions(&t2, c.style.wrapping_add(fi as u64 * 7919));
        out.push((t.path.clone(), src, pos));
    }
    out
}

pub fn check_source(path: &str, src: &str, pos: &[PosEntry], out: &mut Outcome) -> Result<(), String> {
    check_source_with(path, src, pos, out, 2)
}

/// `strict_below`: structure, spelling and source-map construct checks are applied when every diagnostic is below this
/// level (2 = Warn: the generated-template check; 1 = any diagnostic at all: the fuzz oracle, whose inputs are
/// arbitrary text where even Note-level recoveries leave synthetic locations)
pub fn check_source_with(path: &str, src: &str, pos: &[PosEntry], out: &mut Outcome, strict_below: u8) -> Result<(), String> {
    let parsed = std::panic::catch_unwind(|| {
        let (t, mut ps) = glass_easel_template_compiler::parse::parse(path, src);
        let w = ps.take_warnings();
        (t, w)
    });
    let (tmpl, warnings) = match parsed {
        Ok(x) => x,
        Err(p) => {
            let m = crate::compile::panic_message(p);
            out.failures.push(Failure { sig: format!("C16|panic|{}", short_hash(&m)), tag: None, what: format!("parser panicked: {}", m), detail: json!({"source": src}) });
            return Ok(());
        }
    };
    if warnings.iter().any(|w| crate::compile::level_no(&w.kind.level()) >= 3) {
        // the property quantifies over templates parsed without error
        out.labels.push("parse-error(skipped)".into());
        return Ok(());
    }
    let mut w = Walk::new(src);
    w.strict_structure = !warnings.iter().any(|x| crate::compile::level_no(&x.kind.level()) >= strict_below);
    if !w.strict_structure {
        out.labels.push("recovered-tree(leaf checks only)".into());
    }
    w.nodes(&tmpl.content, None);
    for i in &tmpl.globals.imports {
        w.tag_location(&i.tag_location);
        w.slice("src-name", &i.src_location);
        w.str_name("import-src", &i.src, Some(".wxml"));
    }
    for i in &tmpl.globals.includes {
        w.str_name("include-src", &i.src, Some(".wxml"));
    }
    for d in &tmpl.globals.sub_templates {
        let t = &d.tag_location;
        w.tag_location(t);
        w.slice("name-attribute", &d.name_location);
        w.str_name("template-name", &d.name, None);
        w.inside("template-name", Walk::attr_span(t), &d.name.location);
        w.nodes(&d.content, Some(Walk::content_span(t)));
    }
    for s in &tmpl.globals.scripts {
        match s {
            Script::Inline { tag_location, module_location, module_name, content, content_location, .. } => {
                w.tag_location(tag_location);
                w.slice("module-attribute", module_location);
                w.str_name("module-name", module_name, None);
                w.exact("inline-script", content_location, content);
            }
            Script::GlobalRef { tag_location, module_location, module_name, src_location, src, .. } => {
                w.tag_location(tag_location);
                w.slice("module-attribute", module_location);
                w.str_name("module-name", module_name, None);
                w.slice("src-attribute", src_location);
                w.str_name("wxs-src", src, Some(".wxs"));
            }
            _ => {}
        }
    }
    // the printer's own table
    for p in pos {
        let k = ((p.start.0, p.start.1), (p.end.0, p.end.1));
        match p.kind {
            "tag-name" | "attr-static" => {
                let want = if p.kind == "attr-static" { p.text.clone() } else { p.text.clone() };
                // block / template / include / import / wxs / slot tags have no name node in the AST
                if p.kind == "tag-name" && matches!(p.text.as_str(), "block" | "template" | "include" | "import" | "wxs" | "slot") {
                    continue;
                }
                // empty static values, and attribute families stored in normalised form, are not located nodes
                if p.kind == "attr-static" && p.text.is_empty() {
                    continue;
                }
                let found = w.texts.get(&k);
                let ok = found.map(|v| v.iter().any(|d| *d == want || d.strip_suffix(".wxml") == Some(&want) || d.strip_suffix(".wxs") == Some(&want))).unwrap_or(false);
                out.units += 1;
                if !ok {
                    w.problem(
                        &format!("table:{}", p.kind),
                        format!("the printer wrote {} {:?} at {:?}-{:?} but the AST has {} there", p.kind, crate::util::truncate(&p.text, 40), k.0, k.1, match found { Some(v) => format!("{:?}", v), None => "no located name / static value".to_string() }),
                    );
                }
            }
            _ => {}
        }
    }
    out.units += w.located;
    // re-print: source map
    let sm = std::panic::catch_unwind(std::panic::AssertUnwindSafe(|| {
        let mut s = Stringifier::new(String::new(), path, src);
        tmpl.stringify_write(&mut s).map(|_| s.finish())
    }));
    match sm {
        Ok(Ok((printed, map))) => {
            let mut prev = (0u32, 0u32);
            let mut n = 0;
            for t in map.tokens() {
                n += 1;
                let d = (t.get_dst_line(), t.get_dst_col());
                if d < prev {
                    w.problem("map:order", format!("source-map destination positions decrease: {:?} after {:?}", d, prev));
                }
                prev = d;
                let sp = Position { line: t.get_src_line(), utf16_col: t.get_src_col() };
                match w.offset(sp) {
                    None => w.problem("map:source-position", format!("source-map token at output {:?} points to {:?} which is not a position of the source", d, key(sp))),
                    Some(o) => {
                        if w.strict_structure && !w.starts.contains(&key(sp)) {
                            w.problem("map:construct-start", format!("source-map token at output {:?} points to {:?} ({:?}...) which is not the start of a located construct", d, key(sp), crate::util::truncate(&src[o..], 12)));
                        }
                        if let Some(name) = t.get_name().filter(|_| w.strict_structure) {
                            let mut hi = (o + name.len() * 10 + 4096).min(src.len());
                            while !src.is_char_boundary(hi) {
                                hi -= 1;
                            }
                            let text = &src[o..hi];
                            let dec = decode_entities(text);
                            let run: String = dec.chars().take_while(|c| c.is_ascii_alphanumeric() || matches!(c, '_' | '-' | '.' | '$')).collect();
                            let camel = camel_loose(&run);
                            let data = run.strip_prefix("data-").map(|r| camel_loose(&r.to_lowercase()));
                            if !(text.starts_with(name) || dec.starts_with(name) || camel == name || data.as_deref() == Some(name)) {
                                w.problem("map:name", format!("source-map token named {:?} points to {:?} where the source reads {:?}", crate::util::truncate(name, 30), key(sp), crate::util::truncate(text, 30)));
                            }
                        }
                    }
                }
            }
            out.units += n;
            let _ = printed;
        }
        Ok(Err(_)) => w.problem("stringify", "stringify_write returned an error".into()),
        Err(p) => w.problem("stringify", format!("stringifier panicked: {}", crate::compile::panic_message(p))),
    }
    if w.astral_before {
        out.labels.push("astral-and-newline-before-located-node".into());
    }
    for (class, what) in w.problems.iter().take(4) {
        out.failures.push(Failure { sig: format!("C16|{}", class), tag: None, what: format!("{} ; file {:?} source {:?}", what, path, crate::util::truncate(src, 500)), detail: json!({"source": src, "path": path}) });
    }
    Ok(())
}

pub fn eval_case(c: &Case) -> Outcome {
    let mut out = Outcome::default();
    let srcs = sources(c);
    for (path, src, pos) in &srcs {
        let _ = check_source(path, src, pos, &mut out);
    }
    out.labels.sort();
    out.labels.dedup();
    let main = &srcs[0].1;
    out.sample = Some(json!({"source": crate::util::truncate(main, 300)}));
    if main.contains('\n') && out.labels.iter().any(|l| l.starts_with("astral")) {
        out.nt.push(fnv64(main.as_bytes()));
    }
    out
}

pub fn run(tier: Tier, seed: u64, findings: &Findings) -> i32 {
    let started = Instant::now();
    let cfg = RunCfg { prop: "C16", tier, seed };
    let check = C16;
    let mut report = super::run_regress(&check, &cfg, findings);
    let cases = tier.pick(24_000, 600_000);
    report.merge(engine::run_generated(&check, &cfg, cases, 8, 16, findings, 0));
    // coverage-guided stage on arbitrary text (oracle: fuzz_oracles::tmpl_positions)
    super::fuzz_stage::replay_regress("tmpl_positions", "C16", &mut report);
    if tier == Tier::Thorough && report.violations.is_empty() {
        let t = super::fuzz_stage::FuzzTarget { name: "tmpl_positions", corpus_kind: "tmpl", runs: 6_000_000, max_len: 800 };
        if let Err(e) = super::fuzz_stage::campaign(&t, "C16", seed, &mut report) {
            report.errors.push(e);
        }
    }
    engine::finish(
        Finish {
            cfg,
            report,
            rule: "a case counts when its entry template spans >= 2 lines and some located node stands after a line break and an astral character; distinct by source. compared_units = located nodes checked + printer table entries + source-map tokens.".into(),
            assumptions: vec![
                "spelling of a node = its source slice after the node kind's documented decoding (entities for names and static values, escapes for string literals, numeric value for numbers)".into(),
                "synthetic nodes of mixed values carry the location of the adjacent binding braces; default wx:for item / index names carry the location of the wx:for attribute; `data-` names are stored camel-cased (not compared literally)".into(),
                "a source-map name is compared with the entity-decoded source text".into(),
                "templates answered with an Error / Fatal diagnostic are outside the quantifier (counted)".into(),
                "thorough tier: a libFuzzer campaign (cargo-fuzz target tmpl_positions, corpus from the generators) judges arbitrary text with the same walk; structure / spelling / source-map-construct checks apply there only to inputs parsed without any diagnostic, location validity to all".into(),
            ],
            started,
            exhaustive: false,
        },
        findings,
    )
}

pub fn replay(v: &Value, path: &str, findings: &Findings) -> i32 {
    super::replay_generic(&C16, "C16", v, path, findings)
}
