//! C11 — emitted l-value paths address exactly the value the expression reads.
//!
//! Domain: templates built from a choice tape (so the whole structure shrinks as one value) over a typed data schema:
//! `model:` / event / `change:` / legacy `bindxxx` attribute / `<slot>` value bindings whose expressions are access chains
//! (static members, literal and dynamic indices, for-items of nested loops over data, module and conditional lists,
//! conditionals, inline and external script modules) or non-assignable decoys.
//! Oracles: (1) every path the real runtime wrapper receives equals the location the model says the expression reads
//! (`model::wxml::path_spec`, evaluated by the reference renderer; segments compared as property keys), no path for a
//! non-assignable expression, and a `model:` binding over a pure data chain must receive one; (2) the get-put law on the
//! real generated code only: write a sentinel at the emitted data path, create again, the binding reads the sentinel;
//! (3) after update(U) and after a binding-map update the paths equal those of a fresh creation.

use super::common::{run_render_ref, short_hash, Mismatch};
use crate::engine::{self, Failure, Finish, Outcome, PropCheck, RunCfg, Tier};
use crate::findings::Findings;
use crate::jsworker::Worker;
use crate::model::data::JsVal;
use crate::model::expr::{ArrItem, BinOp, Expr, ObjItem, UnOp};
use crate::model::wxml::{self, Attr, AttrKind, Branch, Carrier, El, EvKind, ForNode, Group, Node, Piece, Script, SlotEl, Tmpl, Val, Wxs};
use crate::util::fnv64;
use proptest::prelude::*;
use serde::{Deserialize, Serialize};
use serde_json::{json, Value};
use std::time::Instant;

#[derive(Clone, Debug, Serialize, Deserialize)]
pub struct Case {
    /// choice tape the template is decoded from
    pub tape: Vec<u16>,
    /// choice tape of the data values (d0 and the changed fields)
    pub dtape: Vec<u16>,
    pub style: u64,
    /// 0: the schema's own keys; 1..: the two members of `omap` are renamed to numeric-looking strings that are not the
    /// canonical spelling of an array index (`ODD_KEYS`), in the data and in every static access
    #[serde(default)]
    pub odd_keys: u8,
}

pub struct C11;

/// keys that `Number()` accepts but that are property names of their own: a path segment must keep them as they are
pub const ODD_KEYS: &[(&str, &str)] = &[("01", "1e1"), ("007", ""), (" 1", "0x1"), ("1.0", "-0"), ("+1", "1 ")];

/// `omap.k0` / `omap['k0']` -> `omap['01']` (through the serialised model: Member -> Index over a string literal)
pub fn rename_omap_keys(g: &Group, ds: &mut [JsVal], odd: u8) -> Group {
    if odd == 0 {
        return g.clone();
    }
    fn walk(v: &mut Value, name: &dyn Fn(&str) -> Option<&'static str>) {
        match v {
            Value::Array(a) => a.iter_mut().for_each(|x| walk(x, name)),
            Value::Object(m) => {
                if let Some(Value::Array(args)) = m.get("Member") {
                    if let Some(n) = args.get(1).and_then(|k| k.as_str()).and_then(|k| name(k)) {
                        let obj = args[0].clone();
                        m.clear();
                        m.insert("Index".into(), json!([obj, {"Str": n}]));
                    }
                }
                if let Some(n) = m.get("Str").and_then(|k| k.as_str()).and_then(|k| name(k)) {
                    m.insert("Str".into(), json!(n));
                }
                m.values_mut().for_each(|x| walk(x, name));
            }
            _ => {}
        }
    }
    let (s0, s1): (&'static str, &'static str) = ODD_KEYS[(odd as usize - 1) % ODD_KEYS.len()];
    let name2 = move |k: &str| -> Option<&'static str> {
        match k {
            "k0" => Some(s0),
            "k1" => Some(s1),
            _ => None,
        }
    };
    let mut v = serde_json::to_value(g).expect("group serialises");
    walk(&mut v, &name2);
    fn data(v: &mut JsVal, name: &dyn Fn(&str) -> Option<&'static str>) {
        match v {
            JsVal::Arr(a) => a.iter_mut().for_each(|x| data(x, name)),
            JsVal::Obj(fs) => {
                for (k, x) in fs.iter_mut() {
                    if let Some(n) = name(k) {
                        *k = n.to_string();
                    }
                    data(x, name);
                }
            }
            _ => {}
        }
    }
    for d in ds.iter_mut() {
        data(d, &name2);
    }
    serde_json::from_value(v).expect("renamed group deserialises")
}

// ---------------------------------------------------------------------------------------------------------------
// tape

pub struct Tape<'a> {
    t: &'a [u16],
    pos: usize,
}

impl<'a> Tape<'a> {
    pub fn new(t: &'a [u16]) -> Self {
        Tape { t, pos: 0 }
    }
    /// 0..n, monotone in the tape value (zeros = first alternative)
    pub fn pick(&mut self, n: usize) -> usize {
        let v = self.t.get(self.pos).copied().unwrap_or(0) as usize;
        self.pos += 1;
        (v * n) >> 16
    }
    pub fn chance(&mut self, pct: usize) -> bool {
        self.pick(100) >= 100 - pct
    }
    pub fn weighted(&mut self, w: &[usize]) -> usize {
        let total: usize = w.iter().sum();
        let mut x = self.pick(total.max(1));
        for (i, k) in w.iter().enumerate() {
            if x < *k {
                return i;
            }
            x -= k;
        }
        0
    }
}

// ---------------------------------------------------------------------------------------------------------------
// schema

#[derive(Clone, Debug, PartialEq)]
pub enum Ty {
    Scalar,
    Fun,
    Arr(Box<Ty>),
    Obj(Vec<(&'static str, Ty)>),
    Unknown,
}

fn subrow() -> Ty {
    Ty::Obj(vec![("w", Ty::Scalar)])
}
fn row() -> Ty {
    Ty::Obj(vec![("id", Ty::Scalar), ("w", Ty::Scalar), ("sub", Ty::Arr(Box::new(subrow()))), ("o", Ty::Obj(vec![("p", Ty::Scalar)]))])
}
fn data_ty() -> Vec<(&'static str, Ty)> {
    vec![
        ("a", Ty::Obj(vec![("b", Ty::Arr(Box::new(Ty::Scalar))), ("c", Ty::Obj(vec![("d", Ty::Scalar), ("e", Ty::Scalar)])), ("k", Ty::Scalar), ("list", Ty::Arr(Box::new(row())))])),
        ("list", Ty::Arr(Box::new(row()))),
        ("omap", Ty::Obj(vec![("k0", row()), ("k1", row())])),
        ("rows", Ty::Arr(Box::new(Ty::Scalar))),
    ]
}
fn mod_ty() -> Ty {
    Ty::Obj(vec![
        ("list", Ty::Arr(Box::new(Ty::Obj(vec![("w", Ty::Scalar), ("sub", Ty::Arr(Box::new(subrow())))])))),
        ("hs", Ty::Arr(Box::new(Ty::Fun))),
        ("f", Ty::Fun),
        ("o", Ty::Obj(vec![("p", Ty::Obj(vec![("q", Ty::Fun)]))])),
    ])
}

pub const MOD_JS: &str = "module.exports = { list: [{ w: 's0', sub: [{ w: 't0' }, { w: 't1' }] }, { w: 's1', sub: [{ w: 't2' }] }], hs: [function h0() { return 0 }, function h1() { return 1 }, function h2() { return 2 }], f: function f() { return 'f' }, o: { p: { q: function q() { return 'q' } } } }";
pub const LIB_JS: &str = "module.exports = { list: [{ w: 'L0', sub: [{ w: 'M0' }] }, { w: 'L1', sub: [{ w: 'M1' }, { w: 'M2' }] }, { w: 'L2', sub: [] }], hs: [function g0() { return 'g0' }, function g1() { return 'g1' }], f: function gf() { return 'gf' }, o: { p: { q: function gq() { return 'gq' } } } }";

fn scalar(t: &mut Tape) -> JsVal {
    match t.pick(9) {
        0 => JsVal::Num("1".into()),
        1 => JsVal::Str("a".into()),
        2 => JsVal::Num("0".into()),
        3 => JsVal::Str("".into()),
        4 => JsVal::Bool(true),
        5 => JsVal::Null,
        6 => JsVal::Undefined,
        7 => JsVal::Num("2.5".into()),
        _ => JsVal::Str("w".into()),
    }
}

fn value_of(ty: &Ty, t: &mut Tape) -> JsVal {
    match ty {
        Ty::Scalar | Ty::Unknown => scalar(t),
        Ty::Fun => JsVal::Pool("fn".into()),
        Ty::Arr(e) => {
            // mostly 2-3 items so that indices 0..2 usually exist
            let n = [3, 2, 1, 0, 4][t.weighted(&[5, 4, 2, 1, 1])];
            JsVal::Arr((0..n).map(|_| value_of(e, t)).collect())
        }
        Ty::Obj(fs) => JsVal::Obj(
            fs.iter()
                .filter_map(|(k, ty)| {
                    if *k == "id" {
                        return Some((k.to_string(), JsVal::Num("0".into())));
                    }
                    Some((k.to_string(), value_of(ty, t)))
                })
                .collect(),
        ),
    }
}

fn unique_ids(v: &mut JsVal) {
    // rows get distinct `id`s (the keyed loops of the generator use wx:key="id")
    fn walk(v: &mut JsVal, next: &mut i64) {
        match v {
            JsVal::Arr(items) => {
                for it in items.iter_mut() {
                    if let JsVal::Obj(fs) = it {
                        for (k, x) in fs.iter_mut() {
                            if k == "id" {
                                *x = JsVal::Num(next.to_string());
                                *next += 1;
                            }
                        }
                    }
                    walk(it, next);
                }
            }
            JsVal::Obj(fs) => {
                for (_, x) in fs.iter_mut() {
                    walk(x, next);
                }
            }
            _ => {}
        }
    }
    let mut n = 10;
    walk(v, &mut n);
}

fn small_int(t: &mut Tape) -> JsVal {
    JsVal::Num(["0", "1", "2", "3"][t.weighted(&[4, 4, 3, 1])].into())
}

/// the value of one top-level field
fn field_value(name: &str, t: &mut Tape) -> JsVal {
    for (n, ty) in data_ty() {
        if n == name {
            let mut v = value_of(&ty, t);
            unique_ids(&mut v);
            return v;
        }
    }
    match name {
        "i" | "j" => small_int(t),
        "key" => JsVal::Str("w".into()),
        "k2" => JsVal::Str("sub".into()),
        "c" | "t" => JsVal::Bool(t.chance(50)),
        "n" => JsVal::Num(["2", "0", "3"][t.pick(3)].into()),
        "s" => JsVal::Str(["ab", "", "xyz"][t.pick(3)].into()),
        _ => scalar(t),
    }
}

pub const FIELDS: &[&str] = &["a", "list", "omap", "rows", "i", "j", "key", "k2", "c", "t", "n", "s", "u"];

/// d0 plus `steps` successors, each replacing one top-level field
pub fn datas(dtape: &[u16], steps: usize) -> (Vec<JsVal>, Vec<String>) {
    let mut t = Tape::new(dtape);
    let mut items: Vec<(String, JsVal)> = FIELDS.iter().filter(|f| **f != "u").map(|f| (f.to_string(), field_value(f, &mut t))).collect();
    // `a.k` names a member of `a`
    if let Some((_, JsVal::Obj(fs))) = items.iter_mut().find(|(k, _)| k == "a") {
        for (k, v) in fs.iter_mut() {
            if k == "k" {
                *v = JsVal::Str("b".into());
            }
        }
    }
    crate::gen::data::finish_env(&mut items, vec![], JsVal::Null);
    let mut out = vec![JsVal::Obj(items)];
    let mut changed = vec![];
    let changeable = ["i", "c", "list", "j", "a", "t", "omap", "rows", "n"];
    for _ in 0..steps {
        let f = changeable[t.weighted(&[5, 4, 3, 3, 2, 2, 1, 2, 1])];
        let mut d = out.last().unwrap().clone();
        let mut nv = field_value(f, &mut t);
        if f == "a" {
            if let JsVal::Obj(fs) = &mut nv {
                for (k, v) in fs.iter_mut() {
                    if k == "k" {
                        *v = JsVal::Str("b".into());
                    }
                }
            }
        }
        if (f == "i" || f == "j" || f == "c" || f == "t") && d.get_field(f) == Some(&nv) {
            // make scalar steps real changes
            nv = match &nv {
                JsVal::Bool(b) => JsVal::Bool(!b),
                JsVal::Num(s) => JsVal::Num(if s == "0" { "1".into() } else { "0".into() }),
                x => x.clone(),
            };
        }
        d.set_field(f, nv);
        out.push(d);
        changed.push(f.to_string());
    }
    (out, changed)
}

// ---------------------------------------------------------------------------------------------------------------
// expressions

#[derive(Clone, Debug)]
struct Scope {
    name: String,
    ty: Ty,
    is_index: bool,
}

#[derive(Clone, Debug, Default)]
struct Ctx {
    scopes: Vec<Scope>,
}

fn id(s: &str) -> Expr {
    Expr::Ident(s.to_string())
}
fn num(s: &str) -> Expr {
    Expr::Num(s.to_string())
}

fn cond_expr(t: &mut Tape) -> Expr {
    match t.pick(6) {
        0 => id("c"),
        1 => id("t"),
        2 => Expr::Unary(UnOp::Not, Box::new(id("c"))),
        3 => id("i"),
        4 => Expr::Binary(BinOp::EqS, Box::new(id("i")), Box::new(id("j"))),
        _ => Expr::Binary(BinOp::And, Box::new(id("c")), Box::new(id("t"))),
    }
}

fn index_expr(t: &mut Tape, ctx: &Ctx) -> Expr {
    let idx_vars: Vec<&Scope> = ctx.scopes.iter().filter(|s| s.is_index).collect();
    match t.weighted(&[4, 4, 3, 2, if idx_vars.is_empty() { 0 } else { 4 }, 2, 2, 1]) {
        0 => num("0"),
        1 => id("i"),
        2 => num("1"),
        3 => id("j"),
        4 => id(&idx_vars[t.pick(idx_vars.len())].name),
        5 => Expr::Binary(BinOp::Add, Box::new(id("i")), Box::new(num("1"))),
        6 => Expr::Cond(Box::new(id("c")), Box::new(num("0")), Box::new(num("1"))),
        _ => Expr::Str("1".into()),
    }
}

fn field_ty(fs: &[(&'static str, Ty)], k: &str) -> Option<Ty> {
    fs.iter().find(|(n, _)| *n == k).map(|(_, t)| t.clone())
}

/// an access chain and the schema type of what it reads
fn chain(t: &mut Tape, ctx: &Ctx, depth: u32) -> (Expr, Ty) {
    let items: Vec<&Scope> = ctx.scopes.iter().filter(|s| !s.is_index).collect();
    let w = [5, if items.is_empty() { 0 } else { 6 }, 3, if depth > 0 { 2 } else { 0 }, 1];
    let (mut e, mut ty) = match t.weighted(&w) {
        0 => {
            let d = data_ty();
            let (n, ty) = d[t.pick(d.len())].clone();
            (id(n), ty)
        }
        1 => {
            // innermost items first
            let s = items[items.len() - 1 - t.pick(items.len())];
            (id(&s.name), s.ty.clone())
        }
        2 => {
            let m = ["m", "g"][t.pick(2)];
            (id(m), mod_ty())
        }
        3 => {
            let c = cond_expr(t);
            let (a, ta) = chain(t, ctx, depth - 1);
            let (b, _) = if t.chance(70) { chain(t, ctx, depth - 1) } else { (decoy(t, ctx, depth - 1), Ty::Unknown) };
            if t.chance(30) {
                (Expr::Cond(Box::new(c), Box::new(b), Box::new(a)), ta)
            } else {
                (Expr::Cond(Box::new(c), Box::new(a), Box::new(b)), ta)
            }
        }
        _ => {
            let n = ["i", "c", "key", "u", "s"][t.pick(5)];
            (id(n), Ty::Scalar)
        }
    };
    let nseg = t.weighted(&[2, 4, 4, 3, 1]);
    for _ in 0..nseg {
        match ty.clone() {
            Ty::Obj(fs) => {
                let (k, kty) = fs[t.pick(fs.len())].clone();
                match t.weighted(&[6, 2, 3]) {
                    0 => e = Expr::Member(Box::new(e), k.to_string()),
                    1 => e = Expr::Index(Box::new(e), Box::new(Expr::Str(k.to_string()))),
                    _ => {
                        // dynamic key: the data fields `key` ("w"), `k2` ("sub") and `a.k` ("b") name members
                        let (kx, kn) = match t.pick(3) {
                            0 => (id("key"), "w"),
                            1 => (id("k2"), "sub"),
                            _ => (Expr::Member(Box::new(id("a")), "k".into()), "b"),
                        };
                        e = Expr::Index(Box::new(e), Box::new(kx));
                        ty = field_ty(&fs, kn).unwrap_or(Ty::Unknown);
                        continue;
                    }
                }
                ty = kty;
            }
            Ty::Arr(el) => {
                if t.chance(8) {
                    e = Expr::Member(Box::new(e), "length".into());
                    ty = Ty::Scalar;
                } else {
                    e = Expr::Index(Box::new(e), Box::new(index_expr(t, ctx)));
                    ty = *el;
                }
            }
            _ => {
                if t.chance(25) {
                    e = if t.chance(50) { Expr::Member(Box::new(e), "w".into()) } else { Expr::Index(Box::new(e), Box::new(num("0"))) };
                    ty = Ty::Unknown;
                } else {
                    break;
                }
            }
        }
    }
    if t.chance(6) {
        e = Expr::Paren(Box::new(e));
    }
    (e, ty)
}

/// expressions that are not assignable
fn decoy(t: &mut Tape, ctx: &Ctx, depth: u32) -> Expr {
    let idx_vars: Vec<&Scope> = ctx.scopes.iter().filter(|s| s.is_index).collect();
    let d = depth.min(1);
    match t.weighted(&[3, 2, 2, 2, 2, if idx_vars.is_empty() { 0 } else { 4 }, 2, 2, 2, 1]) {
        0 => Expr::Binary(BinOp::Add, Box::new(chain(t, ctx, d).0), Box::new(num("1"))),
        1 => num("7"),
        2 => Expr::Str("lit".into()),
        3 => Expr::Unary(UnOp::Not, Box::new(chain(t, ctx, d).0)),
        4 => Expr::Call(Box::new(id("id")), vec![chain(t, ctx, d).0]),
        5 => id(&idx_vars[t.pick(idx_vars.len())].name),
        6 => Expr::Binary(BinOp::Or, Box::new(chain(t, ctx, d).0), Box::new(chain(t, ctx, d).0)),
        7 => Expr::Arr(vec![ArrItem::Item(chain(t, ctx, d).0)]),
        8 => Expr::Obj(vec![ObjItem::KV("w".into(), chain(t, ctx, d).0)]),
        _ => Expr::Unary(UnOp::Neg, Box::new(chain(t, ctx, d).0)),
    }
}

fn binding(t: &mut Tape, ctx: &Ctx, depth: u32) -> Val {
    match t.weighted(&[15, 4, 1]) {
        0 => Val::Bind(chain(t, ctx, depth).0),
        1 => Val::Bind(decoy(t, ctx, depth)),
        _ => Val::Mixed(vec![Piece::Lit("x".into()), Piece::Bind(chain(t, ctx, depth).0)]),
    }
}

// ---------------------------------------------------------------------------------------------------------------
// nodes

fn element(t: &mut Tape, ctx: &Ctx, depth: u32, counter: &mut usize) -> Node {
    let tag = ["view", "comp", "input"][t.pick(3)];
    let n = 1 + t.weighted(&[4, 4, 2]);
    let mut attrs = vec![];
    for k in 0..n {
        *counter += 1;
        let kind = match t.weighted(&[6, 4, 2, 2, 1]) {
            0 => AttrKind::Model,
            1 => AttrKind::Event(EvKind::ALL[t.pick(6)]),
            2 => AttrKind::Change,
            3 => AttrKind::Plain,
            _ => AttrKind::Plain,
        };
        let name = match kind {
            AttrKind::Model => ["value", "prop-a", "x"][k % 3].to_string(),
            AttrKind::Event(_) => ["tap", "custom-ev", "e3"][k % 3].to_string(),
            AttrKind::Change => ["p", "prop-b", "q"][k % 3].to_string(),
            // legacy event-binding spellings of plain attributes (the fallback listener path) and an ordinary one
            _ => [["bindfoo", "catchbar", "onbaz"][t.pick(3)], "plain", "capture-bindx"][k % 3].to_string(),
        };
        if attrs.iter().any(|a: &Attr| a.dup_key(false) == Attr { kind, name: name.clone(), val: None }.dup_key(false)) {
            continue;
        }
        attrs.push(Attr { kind, name, val: Some(binding(t, ctx, 2)) });
    }
    let kids = if depth > 0 && t.chance(35) { nodes(t, ctx, depth - 1, counter) } else { vec![] };
    Node::El(El { tag: tag.into(), attrs, slot: None, slot_refs: vec![], kids })
}

fn probe(item: &str) -> Node {
    Node::El(El {
        tag: "probe".into(),
        attrs: vec![
            Attr { kind: AttrKind::Model, name: "v".into(), val: Some(Val::Bind(id(item))) },
            Attr { kind: AttrKind::Event(EvKind::Bind), name: "p".into(), val: Some(Val::Bind(id(item))) },
        ],
        slot: None,
        slot_refs: vec![],
        kids: vec![],
    })
}

fn for_node(t: &mut Tape, ctx: &Ctx, depth: u32, counter: &mut usize) -> Node {
    // the list: an access chain reading a container (retry a few times), sometimes a decoy / conditional mix
    let (list, ty) = match t.weighted(&[12, 2, 2, 1, 1]) {
        0 => {
            let mut best = chain(t, ctx, 1);
            for _ in 0..3 {
                if matches!(best.1, Ty::Arr(_) | Ty::Obj(_)) {
                    break;
                }
                best = chain(t, ctx, 1);
            }
            best
        }
        1 => {
            // data branch and module branch mixed
            let c = cond_expr(t);
            let a = Expr::Member(Box::new(id(["m", "g"][t.pick(2)])), "list".into());
            let b = id("list");
            let elem = Ty::Obj(vec![("w", Ty::Scalar), ("sub", Ty::Arr(Box::new(subrow())))]);
            if t.chance(50) {
                (Expr::Cond(Box::new(c), Box::new(a), Box::new(b)), Ty::Arr(Box::new(elem)))
            } else {
                (Expr::Cond(Box::new(c), Box::new(b), Box::new(a)), Ty::Arr(Box::new(elem)))
            }
        }
        2 => (Expr::Arr(vec![ArrItem::Item(chain(t, ctx, 1).0), ArrItem::Item(chain(t, ctx, 1).0)]), Ty::Arr(Box::new(Ty::Unknown))),
        3 => (id("n"), Ty::Unknown),
        _ => (id("s"), Ty::Unknown),
    };
    let elem_ty = match &ty {
        Ty::Arr(e) => (**e).clone(),
        // an object list iterates its values; all schema objects used as lists hold rows or mixed values
        Ty::Obj(fs) => fs.first().map(|(_, t)| t.clone()).unwrap_or(Ty::Unknown),
        _ => Ty::Unknown,
    };
    let level = ctx.scopes.len() / 2;
    let (item, index) = match t.weighted(&[4, 3, 2]) {
        0 => (None, None),
        1 => (Some(format!("it{}", level)), Some(format!("ix{}", level))),
        _ => (Some(format!("it{}", level)), None),
    };
    let item_name = item.clone().unwrap_or_else(|| "item".into());
    let index_name = index.clone().unwrap_or_else(|| "index".into());
    let mut inner = ctx.clone();
    inner.scopes.push(Scope { name: item_name.clone(), ty: elem_ty.clone(), is_index: false });
    inner.scopes.push(Scope { name: index_name, ty: Ty::Scalar, is_index: true });
    let mut kids = vec![probe(&item_name)];
    if depth > 0 {
        kids.extend(nodes(t, &inner, depth - 1, counter));
    } else {
        kids.push(element(t, &inner, 0, counter));
    }
    let key = if matches!(&elem_ty, Ty::Obj(fs) if fs.iter().any(|(k, _)| *k == "id")) && t.chance(40) { Some("id".to_string()) } else { None };
    Node::For(Box::new(ForNode { list: Val::Bind(list), item, index, key, kids, carrier: if t.chance(30) { Carrier::OnChild } else { Carrier::Block } }))
}

fn nodes(t: &mut Tape, ctx: &Ctx, depth: u32, counter: &mut usize) -> Vec<Node> {
    let n = 1 + t.weighted(&[5, 4, 2]);
    let mut out = vec![];
    for _ in 0..n {
        let k = t.weighted(&[6, if depth > 0 { 5 } else { 0 }, if depth > 0 { 1 } else { 0 }, 1]);
        out.push(match k {
            0 => element(t, ctx, depth, counter),
            1 => for_node(t, ctx, depth, counter),
            2 => Node::If(vec![
                Branch { cond: Some(Val::Bind(cond_expr(t))), kids: nodes(t, ctx, depth - 1, counter), carrier: Carrier::Block },
                Branch { cond: None, kids: vec![element(t, ctx, 0, counter)], carrier: Carrier::Block },
            ]),
            _ => Node::Slot(SlotEl {
                name: Some(Val::Static("s".into())),
                attrs: vec![Attr { kind: AttrKind::Plain, name: "sv".into(), val: Some(binding(t, ctx, 1)) }, Attr { kind: AttrKind::Plain, name: "bind-w".into(), val: Some(binding(t, ctx, 1)) }],
                slot: None,
                slot_refs: vec![],
            }),
        });
    }
    out
}

pub fn build_group(tape: &[u16]) -> Group {
    let mut t = Tape::new(tape);
    let mut counter = 0;
    let body = wxml::normalise_nodes(nodes(&mut t, &Ctx::default(), 3, &mut counter));
    let p = Tmpl { path: "p".into(), imports: vec![], wxs: vec![Wxs::Inline { module: "m".into(), js: MOD_JS.into() }, Wxs::Ref { module: "g".into(), src: ["lib/s", "/lib/s.wxs", "./lib/../lib/s"][t.pick(3)].into() }], named: vec![], body };
    Group { files: vec![p], scripts: vec![Script { path: "lib/s".into(), js: LIB_JS.into(), requires: vec![] }] }
}

// ---------------------------------------------------------------------------------------------------------------
// labels

fn expr_labels(e: &Expr, out: &mut Vec<String>) {
    fn segs(e: &Expr) -> (usize, bool, bool) {
        match e {
            Expr::Paren(x) => segs(x),
            Expr::Member(b, _) => {
                let (n, d, c) = segs(b);
                (n + 1, d, c)
            }
            Expr::Index(b, i) => {
                let (n, d, c) = segs(b);
                (n + 1, d || !matches!(**i, Expr::Num(_) | Expr::Str(_)), c)
            }
            Expr::Cond(_, a, b) => {
                let (n1, d1, _) = segs(a);
                let (n2, d2, _) = segs(b);
                (n1.max(n2), d1 || d2, true)
            }
            _ => (0, false, false),
        }
    }
    let (n, d, c) = segs(e);
    if n >= 1 {
        out.push("chain:len>=2".into());
    }
    if n >= 3 {
        out.push("chain:len>=4".into());
    }
    if d {
        out.push("chain:dynamic-index".into());
    }
    if c {
        out.push("chain:conditional".into());
    }
}

fn node_labels(nodes: &[Node], depth: usize, out: &mut Vec<String>) {
    for n in nodes {
        match n {
            Node::El(e) => {
                for a in &e.attrs {
                    out.push(format!("binding:{}", a.kind.label()));
                    if let Some(Val::Bind(x)) = &a.val {
                        expr_labels(x, out);
                    }
                }
                node_labels(&e.kids, depth, out);
            }
            Node::For(f) => {
                out.push(format!("for:depth{}", depth + 1));
                if let Val::Bind(Expr::Cond(..)) = &f.list {
                    out.push("for:conditional-list".into());
                }
                node_labels(&f.kids, depth + 1, out);
            }
            Node::If(bs) => {
                for b in bs {
                    node_labels(&b.kids, depth, out);
                }
            }
            Node::Slot(_) => out.push("binding:slot-value".into()),
            _ => {}
        }
    }
}

// ---------------------------------------------------------------------------------------------------------------

impl PropCheck for C11 {
    type Case = Case;

    fn strategy(&self) -> BoxedStrategy<Case> {
        (proptest::collection::vec(any::<u16>(), 30..260), proptest::collection::vec(any::<u16>(), 120..200), any::<u64>(), prop_oneof![6 => Just(0u8), 4 => 1u8..=ODD_KEYS.len() as u8])
            .prop_map(|(tape, dtape, style, odd_keys)| Case { tape, dtape, style, odd_keys })
            .boxed()
    }

    fn eval(&self, w: Option<&mut Worker>, cases: &[Case]) -> Result<Vec<Outcome>, String> {
        let w = w.ok_or("no worker")?;
        let mut outs = vec![];
        for c in cases {
            outs.push(eval_case(w, c)?);
        }
        Ok(outs)
    }

    fn case_json(&self, case: &Case) -> Value {
        let (mut ds, changed) = datas(&case.dtape, 3);
        let g = rename_omap_keys(&build_group(&case.tape), &mut ds, case.odd_keys);
        let src = crate::compile::print_group(&g, case.style);
        json!({"case": serde_json::to_value(case).unwrap(), "source": src, "datas_js": ds.iter().map(|e| e.to_js()).collect::<Vec<_>>(), "changed_fields": changed})
    }

    fn case_from_json(&self, v: &Value) -> Result<Case, String> {
        serde_json::from_value(v["case"].clone()).map_err(|e| e.to_string())
    }
}

fn mismatch_failure(stage: &str, m: &Mismatch, src: &str, data: &str) -> Failure {
    let class = if m.ch.ends_with(".mp") || m.ch.ends_with(".gp") {
        if m.actual == "<no path>" {
            "path-missing"
        } else if m.expected.starts_with("<no path") {
            "path-for-non-assignable"
        } else {
            "path-differs"
        }
    } else if m.ch == "getput" {
        "get-put"
    } else {
        "value"
    };
    Failure {
        sig: format!("C11|{}|{}|{}", stage, class, m.ch),
        tag: None,
        what: format!("{} [{}]: at {} {}:{} expected {} got {} ; source {:?} data {}", class, stage, m.where_, m.ch, m.name, crate::util::truncate(&m.expected, 160), crate::util::truncate(&m.actual, 160), crate::util::truncate(src, 400), crate::util::truncate(data, 300)),
        detail: json!({"mismatch": {"where": m.where_, "ch": m.ch, "name": m.name, "expected": m.expected, "actual": m.actual}}),
    }
}

pub fn eval_case(w: &mut Worker, c: &Case) -> Result<Outcome, String> {
    let (mut ds, changed) = datas(&c.dtape, 3);
    let g = rename_omap_keys(&build_group(&c.tape), &mut ds, c.odd_keys);
    let djs: Vec<String> = ds.iter().map(|e| e.to_js()).collect();
    let mut out = Outcome::default();
    let mut labels = vec![];
    if c.odd_keys != 0 {
        labels.push("keys:numeric-looking-strings".to_string());
    }
    node_labels(&g.files[0].body, 0, &mut labels);
    labels.sort();
    labels.dedup();
    let run = run_render_ref(w, &g, c.style, &djs, "p", true, &wxml::no_tags)?;
    let src0 = run.compiled.as_ref().map(|c| c.sources[0].1.clone()).unwrap_or_default();
    out.sample = Some(json!({"source": crate::util::truncate(&src0, 500)}));
    out.labels = labels.clone();
    if let Some(p) = &run.compile_panic {
        out.failures.push(Failure { sig: format!("C11|compiler-panic|{}", short_hash(p)), tag: None, what: format!("compiler panicked on a well-formed template: {}", p), detail: json!({}) });
        return Ok(out);
    }
    let compiled = run.compiled.as_ref().unwrap();
    if let Some(d) = compiled.diags.iter().find(|d| d.level >= 3) {
        out.failures.push(Failure { sig: format!("C11|diagnostic|{}", d.kind), tag: None, what: format!("well-formed template answered with error diagnostic `{}` at {:?}; source {:?}", d.kind, d.start, crate::util::truncate(&src0, 300)), detail: json!({}) });
        return Ok(out);
    }
    if let Some(e) = &run.bundle_error {
        out.failures.push(Failure { sig: format!("C11|bundle-error|{}", short_hash(e.lines().next().unwrap_or(""))), tag: None, what: format!("generated code does not load: {}", crate::util::truncate(e, 300)), detail: json!({}) });
        return Ok(out);
    }
    out.units = run.nodes.iter().sum();
    for (i, ms) in run.results.iter().enumerate() {
        for m in ms.iter().take(2) {
            out.failures.push(mismatch_failure("creation", m, &src0, &djs[i]));
        }
    }
    if !out.failures.is_empty() {
        return Ok(out);
    }
    // get-put on the real code only
    let resp = w.request(&json!({"kind":"getput","bundle":compiled.bundle,"entry":"p","data":[djs[0], djs[djs.len() - 1]]})).map_err(|e| e.0)?;
    let mut observed = 0u64;
    let mut ok = 0u64;
    let mut skipped = 0u64;
    for (i, r) in resp["results"].as_array().cloned().unwrap_or_default().iter().enumerate() {
        observed += r["observed"].as_u64().unwrap_or(0);
        ok += r["ok"].as_u64().unwrap_or(0);
        skipped += r["skipped"].as_u64().unwrap_or(0);
        for m in r["mismatches"].as_array().cloned().unwrap_or_default().iter().take(2) {
            let mm = Mismatch::from_json(m);
            out.failures.push(mismatch_failure("get-put", &mm, &src0, if i == 0 { &djs[0] } else { &djs[djs.len() - 1] }));
        }
    }
    out.units += observed;
    if observed > 0 {
        out.labels.push("paths:observed".into());
    }
    if ok > 0 {
        out.labels.push("getput:verified".into());
    }
    if skipped > 0 {
        out.labels.push("getput:some-skipped".into());
    }
    if ok >= 2 && labels.iter().any(|l| l == "chain:dynamic-index" || l.starts_with("for:") || l == "chain:conditional") {
        out.nt.push(fnv64(src0.as_bytes()));
    }
    if !out.failures.is_empty() {
        return Ok(out);
    }
    // updates: full update with the changed field marked, and the binding-map fast path, against a fresh creation
    let trees: Vec<Value> = changed.iter().map(|f| json!({ f.as_str(): true })).collect();
    let resp = w.request(&json!({"kind":"history","bundle":compiled.bundle,"entry":"p","data":djs,"trees":trees})).map_err(|e| e.0)?;
    if resp.get("domainExit").is_some() {
        out.labels.push("domain-exit:non-unique-keys".into());
    }
    for st in resp["steps"].as_array().cloned().unwrap_or_default() {
        for m in st["mismatches"].as_array().cloned().unwrap_or_default().iter().take(2) {
            let mm = Mismatch::from_json(m);
            let i = st["step"].as_u64().unwrap_or(0) as usize;
            out.failures.push(mismatch_failure("update", &mm, &src0, &format!("step {} changes `{}`: {}", i, changed.get(i.saturating_sub(1)).cloned().unwrap_or_default(), djs.get(i).cloned().unwrap_or_default())));
        }
    }
    if !out.failures.is_empty() {
        return Ok(out);
    }
    let mut changes = vec![];
    for (k, f) in changed.iter().enumerate() {
        // from d0, change only that field to its later value
        let mut d1 = ds[0].clone();
        if let Some(v) = ds[k + 1].get_field(f) {
            if ds[0].get_field(f) == Some(v) {
                continue;
            }
            d1.set_field(f, v.clone());
            changes.push(json!({"field": f, "data1": d1.to_js()}));
        }
    }
    let resp = w.request(&json!({"kind":"bmap","bundle":compiled.bundle,"entry":"p","data0":djs[0],"changes":changes,"named":[]})).map_err(|e| e.0)?;
    let mut bm = 0;
    for r in resp["results"].as_array().cloned().unwrap_or_default() {
        bm += 1;
        for m in r["mismatches"].as_array().cloned().unwrap_or_default().iter().take(2) {
            let mm = Mismatch::from_json(m);
            out.failures.push(mismatch_failure("binding-map-update", &mm, &src0, &format!("field `{}`: {} -> {}", r["field"].as_str().unwrap_or("?"), djs[0], r["data1"].as_str().unwrap_or(""))));
        }
    }
    if bm > 0 {
        out.labels.push("binding-map-update:run".into());
    }
    Ok(out)
}

pub fn run(tier: Tier, seed: u64, findings: &Findings) -> i32 {
    let started = Instant::now();
    let cfg = RunCfg { prop: "C11", tier, seed };
    let check = C11;
    let mut report = super::run_regress(&check, &cfg, findings);
    let cases = tier.pick(24_000, 500_000);
    report.merge(engine::run_generated(&check, &cfg, cases, 8, 16, findings, 0));
    engine::finish(
        Finish {
            cfg,
            report,
            rule: "a case counts when the get-put law was verified for >= 2 emitted data paths and the template has a dynamic index, a conditional chain or a wx:for (for-item paths); distinct by template source".into(),
            assumptions: vec![
                "stub DOM records the path arguments of R.r / R.v / R.p / R.l exactly as passed; the wx:for path (4th argument of F) is observed through the item paths it produces (a probe element in every loop)".into(),
                "expected paths come from the model's own statement of the location an access chain reads, index values from V8".into(),
                "a missing path is a violation only for model: bindings over pure data access chains (documented by tests/tmpl/lvalue.test.ts)".into(),
                "get-put is skipped (counted) when a container on the path is missing or the write changes the structure / the path itself".into(),
            ],
            started,
            exhaustive: false,
        },
        findings,
    )
}

pub fn replay(v: &Value, path: &str, findings: &Findings) -> i32 {
    super::replay_generic(&C11, "C11", v, path, findings)
}
