pub mod c01;
pub mod c02;
pub mod c03;
pub mod c04;
pub mod c06;
pub mod c07;
pub mod c08;
pub mod c11;
pub mod c12;
pub mod c13;
pub mod c14;
pub mod c15;
pub mod c16;
pub mod c17;
pub mod c20;
pub mod common;
pub mod fuzz_oracles;
pub mod fuzz_stage;

use crate::engine::Tier;
use crate::findings::Findings;

pub fn run(prop: &str, tier: Tier, seed: u64) -> i32 {
    let findings = Findings::load();
    match prop {
        "C01" => c01::run(tier, seed, &findings),
        "C02" => c02::run(tier, seed, &findings),
        "C03" => c03::run(tier, seed, &findings),
        "C04" => c04::run("C04", tier, seed, &findings),
        "C05" => c04::run("C05", tier, seed, &findings),
        "C06" => c06::run(tier, seed, &findings),
        "C07" => c07::run(tier, seed, &findings),
        "C08" => c08::run("C08", tier, seed, &findings),
        "C09" => c08::run("C09", tier, seed, &findings),
        "C10" => c08::run("C10", tier, seed, &findings),
        "C11" => c11::run(tier, seed, &findings),
        "C12" => c12::run(tier, seed, &findings),
        "C13" => c13::run(tier, seed, &findings),
        "C14" => c14::run(tier, seed, &findings),
        "C20" => c20::run(tier, seed, &findings),
        "C15" => c15::run(tier, seed, &findings),
        "C16" => c16::run(tier, seed, &findings),
        "C17" => c17::run("C17", tier, seed, &findings),
        "C18" => c17::run("C18", tier, seed, &findings),
        "C19" => c17::run("C19", tier, seed, &findings),
        _ => {
            eprintln!("gev: unknown property {}", prop);
            2
        }
    }
}

pub fn replay(path: &str) -> i32 {
    let Ok(text) = std::fs::read_to_string(path) else {
        eprintln!("gev: cannot read {}", path);
        return 2;
    };
    let Ok(v) = serde_json::from_str::<serde_json::Value>(&text) else {
        eprintln!("gev: bad json in {}", path);
        return 2;
    };
    let findings = Findings::load();
    let prop = v["property"].as_str().unwrap_or("").to_string();
    if let Some(b) = v["case"]["fuzz_input_b64"].as_str() {
        let target = v["case"]["fuzz_target"].as_str().unwrap_or("");
        let data = fuzz_stage::unb64(b);
        return match fuzz_stage::run_oracle(target, &data) {
            Some((p, what)) => {
                println!("VIOLATION property={} replay={}", p, path);
                eprintln!("  what: {}", what);
                1
            }
            None => {
                eprintln!("gev: replay passes (no failure reproduced)");
                0
            }
        };
    }
    match prop.as_str() {
        "C01" => c01::replay(&v, path, &findings),
        "C02" => c02::replay(&v, path, &findings),
        "C03" => c03::replay(&v, path, &findings),
        "C04" => c04::replay("C04", &v, path, &findings),
        "C05" => c04::replay("C05", &v, path, &findings),
        "C06" => c06::replay(&v, path, &findings),
        "C07" => c07::replay(&v, path, &findings),
        "C08" => c08::replay("C08", &v, path, &findings),
        "C09" => c08::replay("C09", &v, path, &findings),
        "C10" => c08::replay("C10", &v, path, &findings),
        "C11" => c11::replay(&v, path, &findings),
        "C12" => c12::replay(&v, path, &findings),
        "C13" => c13::replay(&v, path, &findings),
        "C14" => c14::replay(&v, path, &findings),
        "C20" => c20::replay(&v, path, &findings),
        "C15" => c15::replay(&v, path, &findings),
        "C16" => c16::replay(&v, path, &findings),
        "C17" => c17::replay("C17", &v, path, &findings),
        "C18" => c17::replay("C18", &v, path, &findings),
        "C19" => c17::replay("C19", &v, path, &findings),
        _ => {
            eprintln!("gev: unknown property in replay file");
            2
        }
    }
}

use crate::engine::{PropCheck, Report, RunCfg};

/// Run the committed regress replays of one property (every tier starts with them).
pub fn run_regress<C: PropCheck>(check: &C, cfg: &RunCfg, findings: &Findings) -> Report {
    let dir = format!("{}/regress", crate::jsworker::verif_root());
    let mut cases = vec![];
    let mut rep = Report::default();
    if let Ok(rd) = std::fs::read_dir(&dir) {
        let mut names: Vec<_> = rd.filter_map(|e| e.ok()).map(|e| e.path()).filter(|p| p.file_name().and_then(|n| n.to_str()).map(|n| n.starts_with(cfg.prop) && n.ends_with(".json")).unwrap_or(false)).collect();
        names.sort();
        for p in names {
            let Ok(text) = std::fs::read_to_string(&p) else { continue };
            let Ok(v) = serde_json::from_str::<serde_json::Value>(&text) else {
                rep.errors.push(format!("bad regress file {}", p.display()));
                continue;
            };
            if !check.owns_case(&v["case"]) {
                continue;
            }
            match check.case_from_json(&v["case"]) {
                Ok(c) => cases.push(c),
                Err(e) => rep.errors.push(format!("regress file {}: {}", p.display(), e)),
            }
        }
    }
    let n = cases.len();
    if n > 0 {
        let mut r = crate::engine::run_explicit(check, cfg, cases, 1, 4, findings);
        // regress cases are not part of the generated-case statistics
        r.extra.insert("regress_replays".into(), serde_json::json!(n));
        rep.merge(r);
    }
    rep
}

pub fn replay_generic<C: PropCheck>(check: &C, prop: &'static str, v: &serde_json::Value, path: &str, findings: &Findings) -> i32 {
    let case = match check.case_from_json(&v["case"]) {
        Ok(c) => c,
        Err(e) => {
            eprintln!("gev: cannot decode case: {}", e);
            return 2;
        }
    };
    let mut worker = if check.needs_worker() {
        match crate::jsworker::Worker::spawn() {
            Ok(w) => Some(w),
            Err(e) => {
                eprintln!("gev: {}", e.0);
                return 2;
            }
        }
    } else {
        None
    };
    let out = match check.eval(worker.as_mut(), std::slice::from_ref(&case)) {
        Ok(mut o) => o.pop().unwrap_or_default(),
        Err(e) => {
            eprintln!("gev: {}", e);
            return 2;
        }
    };
    let known = findings.for_property(prop);
    let mut code = 0;
    for f in &out.failures {
        match &f.tag {
            Some(t) if known.contains_key(t) => println!("KNOWN-FINDING: property={} {} [{}]", prop, known[t].what, known[t].id),
            _ => {
                println!("VIOLATION property={} replay={}", prop, path);
                eprintln!("  sig: {}\n  what: {}", f.sig, f.what);
                code = 1;
            }
        }
    }
    if out.failures.is_empty() {
        eprintln!("gev: replay passes (no failure reproduced)");
    }
    code
}

/// `gev emit`: compile what the JSON request describes in a fresh process and print every emitted artefact as JSON.
/// Request: {"files":[[path,src]...],"scripts":[[path,js]...],"dev":bool,"extra":str?,"import_split":n?,
///           "css":{"text":..., "options":{...}}?}
pub fn c20_emit(v: &serde_json::Value) -> i32 {
    let out = c20::emit_artefacts(v);
    println!("{}", out);
    0
}

/// seed corpus for the libFuzzer targets: printed generator output (templates: every file of generated groups)
pub fn write_corpus(kind: &str, dir: &str, count: usize, seed: u64) -> i32 {
    use proptest::strategy::{Strategy, ValueTree};
    use proptest::test_runner::{Config, RngAlgorithm, TestRng, TestRunner};
    let _ = std::fs::create_dir_all(dir);
    let mut bytes = [0u8; 32];
    bytes[..8].copy_from_slice(&crate::util::splitmix64(seed ^ 0xC0).to_le_bytes());
    let mut runner = TestRunner::new_with_rng(Config::default(), TestRng::from_seed(RngAlgorithm::ChaCha, &bytes));
    let mut n = 0;
    match kind {
        "tmpl" => {
            let mut cfg = crate::gen::wxml::WxmlCfg::new(2, 2);
            cfg.slot_refs = true;
            let st = (crate::gen::wxml::group(&cfg), proptest::prelude::any::<u64>());
            while n < count {
                let Ok(t) = st.new_tree(&mut runner) else { break };
                let (g, style) = t.current();
                for (_, src) in crate::compile::print_group(&g, style) {
                    if !src.is_empty() && src.len() < 1500 {
                        let _ = std::fs::write(format!("{}/t{:04}", dir, n), src);
                        n += 1;
                    }
                }
            }
        }
        "wxss" => {
            let mut cfg = crate::gen::css::CssCfg::new();
            cfg.hosts = true;
            cfg.imports = true;
            let st = (crate::gen::css::sheet(&cfg), proptest::prelude::any::<u64>(), proptest::prelude::any::<u8>());
            while n < count {
                let Ok(t) = st.new_tree(&mut runner) else { break };
                let (sheet, style, o) = t.current();
                let text = crate::model::css::print(&sheet, style).text;
                if text.len() < 1500 {
                    let mut data = vec![o];
                    data.extend_from_slice(text.as_bytes());
                    let _ = std::fs::write(format!("{}/s{:04}", dir, n), data);
                    n += 1;
                }
            }
        }
        _ => return 2,
    }
    eprintln!("gev: wrote {} corpus files to {}", n, dir);
    0
}

pub fn fuzz_replay(target: &str, data: &[u8]) -> i32 {
    let r = match target {
        "tmpl_positions" => std::str::from_utf8(data).ok().and_then(fuzz_oracles::tmpl_positions),
        "tmpl_roundtrip" => std::str::from_utf8(data).ok().and_then(fuzz_oracles::tmpl_roundtrip),
        "wxss_map" => {
            if data.is_empty() {
                None
            } else {
                std::str::from_utf8(&data[1..]).ok().and_then(|s| fuzz_oracles::wxss_map(s, data[0]))
            }
        }
        _ => {
            eprintln!("unknown fuzz target {}", target);
            return 2;
        }
    };
    match r {
        Some((prop, what)) => {
            println!("VIOLATION property={} {}", prop, what);
            1
        }
        None => {
            println!("no violation");
            0
        }
    }
}
