//! C17 (:host partition), C18 (@import placeholder), C19 (stylesheet source maps). They share the CSS generator and
//! the token alignment of c08; each derives its expected output sheet(s) from the model.

use super::c08::{align_full, opts_strategy, Issue, Opts};
use super::common::short_hash;
use crate::compile::panic_message;
use crate::engine::{self, Failure, Finish, Outcome, PropCheck, RunCfg, Tier};
use crate::findings::Findings;
use crate::gen;
use crate::jsworker::Worker;
use crate::model::css::{self, Node, Sheet, TokKind};
use crate::oracle::css::{self as ocss};
use crate::util::fnv64;
use glass_easel_stylesheet_compiler::{StyleSheetOptions, StyleSheetTransformer};
use proptest::prelude::*;
use serde::{Deserialize, Serialize};
use serde_json::{json, Value};
use std::panic::{catch_unwind, AssertUnwindSafe};
use std::time::Instant;

#[derive(Clone, Debug, Serialize, Deserialize)]
pub struct Case {
    pub sheet: Sheet,
    pub style: u64,
    pub opts: Opts,
    pub convert_host: bool,
    pub host_is: Option<String>,
    pub import_sign: Option<String>,
}

pub struct C17 {
    pub prop: &'static str,
    pub cfg: gen::css::CssCfg,
}

pub fn options(c: &Case) -> StyleSheetOptions {
    StyleSheetOptions { class_prefix: c.opts.prefix.clone(), class_prefix_sign: c.opts.sign.clone(), rpx_ratio: c.opts.ratio as f32, import_sign: c.import_sign.clone(), convert_host: c.convert_host, host_is: c.host_is.clone() }
}

#[derive(Clone, Debug)]
pub struct MapTok {
    pub dst_line: u32,
    pub dst_col: u32,
    pub src_line: u32,
    pub src_col: u32,
    pub name: Option<String>,
}

pub struct Run {
    pub normal: String,
    pub low: String,
    pub warnings: Vec<String>,
    pub map_normal: Vec<MapTok>,
    pub map_low: Vec<MapTok>,
    pub map_roundtrip_equal: bool,
}

pub fn run_transform(text: &str, o: StyleSheetOptions) -> Result<Run, String> {
    catch_unwind(AssertUnwindSafe(|| {
        let collect = |sm: &sourcemap6::SourceMap| -> Vec<MapTok> { sm.tokens().map(|t| MapTok { dst_line: t.get_dst_line(), dst_col: t.get_dst_col(), src_line: t.get_src_line(), src_col: t.get_src_col(), name: t.get_name().map(|s| s.to_string()) }).collect() };
        let t = StyleSheetTransformer::from_css("sheet.wxss", text, o.clone());
        let warnings: Vec<String> = t.warnings().map(|w| format!("{}", w.kind)).collect();
        let (a, b) = t.output_and_low_priority_output();
        let mut sa = Vec::new();
        a.write(&mut sa).unwrap();
        let mut sb = Vec::new();
        b.write(&mut sb).unwrap();
        let direct = collect(&a.extract_source_map());
        let low_map = collect(&b.extract_source_map());
        // the serialised form, from a second identical run (extract / write both consume the output)
        let t2 = StyleSheetTransformer::from_css("sheet.wxss", text, o);
        let (a2, _) = t2.output_and_low_priority_output();
        let mut smb = Vec::new();
        let ok = a2.write_source_map(&mut smb).is_ok();
        let rt = if ok { sourcemap6::SourceMap::from_reader(&smb[..]).ok().map(|sm| collect(&sm)) } else { None };
        let equal = match rt {
            Some(r) => r.len() == direct.len() && r.iter().zip(direct.iter()).all(|(x, y)| x.dst_line == y.dst_line && x.dst_col == y.dst_col && x.src_line == y.src_line && x.src_col == y.src_col && x.name == y.name),
            None => false,
        };
        Run { normal: String::from_utf8(sa).unwrap_or_default(), low: String::from_utf8(sb).unwrap_or_default(), warnings, map_normal: direct, map_low: low_map, map_roundtrip_equal: equal }
    }))
    .map_err(panic_message)
}

/// expected normal / low-priority sheets
pub fn expected_sheets(c: &Case) -> (Sheet, Sheet, usize) {
    let mut dropped = 0usize;
    fn walk(nodes: &[Node], c: &Case, chain: &mut Vec<(String, css::Prelude)>, normal: &mut Vec<Node>, low: &mut Vec<Node>, dropped: &mut usize) {
        for n in nodes {
            match n {
                Node::Host(decls) if c.convert_host => {
                    let mut attrs = vec![("wx-host".to_string(), c.opts.prefix.clone().unwrap_or_default())];
                    if let Some(h) = &c.host_is {
                        attrs.push(("is".to_string(), h.clone()));
                    }
                    let mut node = Node::AttrRule { attrs, decls: decls.clone() };
                    for (name, prelude) in chain.iter().rev() {
                        node = Node::Group { name: name.clone(), prelude: prelude.clone(), body: vec![node] };
                    }
                    low.push(node);
                }
                Node::HostCombined { .. } if c.convert_host => {
                    *dropped += 1;
                }
                Node::Group { name, prelude, body } => {
                    let mut inner = vec![];
                    chain.push((name.clone(), prelude.clone()));
                    walk(body, c, chain, &mut inner, low, dropped);
                    chain.pop();
                    normal.push(Node::Group { name: name.clone(), prelude: prelude.clone(), body: inner });
                }
                Node::Import(im) if c.import_sign.is_some() => {
                    let path = match &im.form {
                        css::ImportForm::Str(s) | css::ImportForm::UrlFn(s) | css::ImportForm::Url(s) | css::ImportForm::UrlFnNamed(_, s) => s.clone(),
                    };
                    normal.push(Node::ImportPlaceholder { layer: im.layer.clone(), supports: im.supports.clone(), media: im.media.clone(), comment_path: path, supports_sel: im.supports_sel.clone() });
                }
                other => normal.push(other.clone()),
            }
        }
    }
    let mut normal = vec![];
    let mut low = vec![];
    walk(&c.sheet.nodes, c, &mut vec![], &mut normal, &mut low, &mut dropped);
    (Sheet { nodes: normal }, Sheet { nodes: low }, dropped)
}

fn count_nodes(nodes: &[Node], f: &dyn Fn(&Node) -> bool) -> usize {
    let mut n = 0;
    for x in nodes {
        if f(x) {
            n += 1;
        }
        if let Node::Group { body, .. } = x {
            n += count_nodes(body, f);
        }
    }
    n
}

fn max_host_depth(nodes: &[Node], d: usize) -> usize {
    let mut m = 0;
    for x in nodes {
        match x {
            Node::Host(_) => m = m.max(d + 1),
            Node::Group { body, .. } => m = m.max(max_host_depth(body, d + 1)),
            _ => {}
        }
    }
    m
}

impl PropCheck for C17 {
    type Case = Case;

    fn strategy(&self) -> BoxedStrategy<Case> {
        let prop = self.prop;
        (gen::css::sheet(&self.cfg), any::<u64>(), opts_strategy(), proptest::bool::weighted(0.85), proptest::option::of(prop_oneof![Just("IS"), Just("h\"q"), Just("组件"), Just("a\tb"), Just("cafe\u{301}"), Just("z\u{200d}w"), Just("b\\s"), Just("n\nl")]), proptest::bool::weighted(0.8))
            .prop_map(move |(sheet, style, opts, ch, host_is, sign)| Case {
                sheet,
                style,
                opts,
                convert_host: if prop == "C17" { ch } else if prop == "C08" { false } else { ch && style % 3 != 0 },
                host_is: host_is.map(|s| s.to_string()),
                import_sign: if (prop == "C18" || prop == "C10") && sign { Some("IMP".into()) } else { None },
            })
            .boxed()
    }

    fn needs_worker(&self) -> bool {
        false
    }

    fn eval(&self, _w: Option<&mut Worker>, cases: &[Case]) -> Result<Vec<Outcome>, String> {
        Ok(cases.iter().map(|c| eval_case(self.prop, c)).collect())
    }

    fn case_json(&self, case: &Case) -> Value {
        let p = css::print(&case.sheet, case.style);
        let r = run_transform(&p.text, options(case)).ok();
        json!({"case": serde_json::to_value(case).unwrap(), "source": p.text, "normal": r.as_ref().map(|r| r.normal.clone()), "low": r.as_ref().map(|r| r.low.clone())})
    }

    fn case_from_json(&self, v: &Value) -> Result<Case, String> {
        serde_json::from_value(v["case"].clone()).map_err(|e| e.to_string())
    }

    fn owns_case(&self, v: &Value) -> bool {
        v["raw_stage"].as_bool() != Some(true) && v["case"].get("convert_host").is_some()
    }
}

/// C19, model-free stage: the printed sheet is damaged (cut off at a random character, so that blocks, functions and
/// brackets are closed by the end of the input; a byte order mark in front) and judged by `fuzz_oracles::wxss_map`:
/// every source-map entry of both outputs names corresponding tokens at its two ends.
#[derive(Clone, Debug, Serialize, Deserialize)]
pub struct RawCase {
    pub base: Case,
    /// cut after this share (per 1000) of the characters
    pub cut: Option<u16>,
    pub bom: bool,
    /// option bits of `fuzz_oracles::wxss_map`
    pub opts_byte: u8,
    pub raw_stage: bool,
}

pub struct C19Raw {
    pub cfg: gen::css::CssCfg,
}

pub fn raw_text(c: &RawCase) -> String {
    let p = css::print(&c.base.sheet, c.base.style);
    let mut text: String = match c.cut {
        Some(k) => {
            let n = p.text.chars().count();
            p.text.chars().take(n * k as usize / 1000).collect()
        }
        None => p.text,
    };
    if c.bom {
        text.insert(0, '\u{feff}');
    }
    text
}

impl PropCheck for C19Raw {
    type Case = RawCase;

    fn strategy(&self) -> BoxedStrategy<RawCase> {
        let base = C17 { prop: "C19", cfg: self.cfg.clone() }.strategy();
        (base, proptest::option::weighted(0.8, 0u16..1000), proptest::bool::weighted(0.25), any::<u8>()).prop_map(|(base, cut, bom, opts_byte)| RawCase { base, cut, bom, opts_byte, raw_stage: true }).boxed()
    }

    fn needs_worker(&self) -> bool {
        false
    }

    fn eval(&self, _w: Option<&mut Worker>, cases: &[RawCase]) -> Result<Vec<Outcome>, String> {
        Ok(cases
            .iter()
            .map(|c| {
                let mut out = Outcome::default();
                let text = raw_text(c);
                out.units = text.len() as u64;
                if c.cut.is_some() {
                    out.labels.push("raw:cut".into());
                }
                if c.bom {
                    out.labels.push("raw:bom".into());
                }
                match catch_unwind(AssertUnwindSafe(|| super::fuzz_oracles::wxss_map_strict(&text, c.opts_byte))) {
                    Ok(None) => {}
                    Ok(Some((_, what))) => {
                        let class = if what.contains("maps output column") { "correspondence" } else if what.contains("outside the source") { "outside" } else if what.contains("decrease") { "order" } else { "other" };
                        out.failures.push(Failure { sig: format!("C19|raw|{}", class), tag: None, what, detail: json!({"source": text, "opts_byte": c.opts_byte}) });
                    }
                    Err(p) => out.failures.push(Failure { sig: format!("C19|raw|panic|{}", short_hash(&panic_message(p))), tag: None, what: format!("transformer panicked on {:?}", crate::util::truncate(&text, 200)), detail: json!({"source": text}) }),
                }
                if c.cut.is_some() || c.bom {
                    out.nt.push(fnv64(text.as_bytes()));
                }
                out.sample = Some(json!({"source": crate::util::truncate(&text, 300), "opts_byte": c.opts_byte}));
                out
            })
            .collect())
    }

    fn case_json(&self, case: &RawCase) -> Value {
        json!({"case": serde_json::to_value(case).unwrap(), "source": raw_text(case), "raw_stage": true})
    }

    fn case_from_json(&self, v: &Value) -> Result<RawCase, String> {
        serde_json::from_value(v["case"].clone()).map_err(|e| e.to_string())
    }

    fn owns_case(&self, v: &Value) -> bool {
        v["raw_stage"].as_bool() == Some(true)
    }
}

pub fn eval_case(prop: &'static str, c: &Case) -> Outcome {
    let mut out = Outcome::default();
    let printed = css::print(&c.sheet, c.style);
    let run = match run_transform(&printed.text, options(c)) {
        Ok(r) => r,
        Err(p) => {
            out.failures.push(Failure { sig: format!("{}|panic|{}", prop, short_hash(&p)), tag: None, what: format!("transformer panicked: {} on {:?}", p, crate::util::truncate(&printed.text, 200)), detail: json!({}) });
            return out;
        }
    };
    let hosts = count_nodes(&c.sheet.nodes, &|n| matches!(n, Node::Host(_)));
    let combined = count_nodes(&c.sheet.nodes, &|n| matches!(n, Node::HostCombined { .. }));
    let imports = count_nodes(&c.sheet.nodes, &|n| matches!(n, Node::Import(_)));
    out.labels.push(format!("hosts:{}", hosts.min(3)));
    out.labels.push(format!("host-depth:{}", max_host_depth(&c.sheet.nodes, 0).min(4)));
    if combined > 0 {
        out.labels.push("host-combined".into());
    }
    out.labels.push(format!("imports:{}", imports.min(3)));
    out.labels.push(format!("convert_host:{}", c.convert_host));
    out.labels.push(format!("import_sign:{}", c.import_sign.is_some()));
    out.sample = Some(json!({"source": crate::util::truncate(&printed.text, 300), "normal": crate::util::truncate(&run.normal, 200), "low": crate::util::truncate(&run.low, 200)}));
    // generator self-check: the printed text tokenises to the model
    {
        let m0 = ocss::model_tokens(&printed.items);
        let t0 = ocss::tokenize(&printed.text);
        let mut si = vec![];
        super::c08::align(&m0, &t0, None, &printed.text, &mut si, true);
        if si.iter().any(|i| i.class == "tokens" || i.class == "number" || i.class == "micro") {
            out.labels.push("generator-self-check-failed".into());
            out.excluded += 1;
            return out;
        }
    }
    let (exp_normal, exp_low, dropped) = expected_sheets(c);
    let mut issues: Vec<Issue> = vec![];
    let mut pairs = vec![];
    // normal output
    let exp_items = exp_normal.items();
    let model = ocss::model_tokens(&exp_items);
    let (toks, trailing) = ocss::tokenize_full(&run.normal);
    align_full(&model, &toks, &trailing, Some(&c.opts), c.import_sign.as_deref(), &run.normal, &mut issues, prop == "C10", &mut pairs);
    out.units = model.len() as u64;
    let normal_ok = issues.iter().all(|i| i.class == "number");
    // low-priority output
    let low_items = exp_low.items_marked(true);
    let low_model = ocss::model_tokens(&low_items);
    let (low_toks, low_trailing) = ocss::tokenize_full(&run.low);
    let mut low_issues = vec![];
    let mut low_pairs = vec![];
    align_full(&low_model, &low_toks, &low_trailing, Some(&c.opts), None, &run.low, &mut low_issues, prop == "C10", &mut low_pairs);
    if prop == "C19" && low_issues.iter().all(|i| i.class == "number") {
        // low-priority output: every token written through the token path (everything but the replayed wrappers) has an
        // entry at its generated column, and entries are ordered
        let mut prev = (0u32, 0u32);
        for t in &run.map_low {
            if (t.dst_line, t.dst_col) < prev {
                issues.push(Issue { class: "map", key: "low:order".into(), what: "low-priority source-map entries are not in output order".into() });
                break;
            }
            prev = (t.dst_line, t.dst_col);
        }
        for (mi, oi) in &low_pairs {
            if low_model[*mi].0.wrapper {
                continue;
            }
            let ot = &low_toks[*oi];
            if ot.line == 0 && !run.map_low.iter().any(|e| e.dst_line == 0 && e.dst_col == ot.col) {
                issues.push(Issue { class: "map", key: "low:missing-entry".into(), what: format!("low-priority output token {:?} at column {} has no source-map entry with that generated column (low output {:?})", ot.kind, ot.col, crate::util::truncate(&run.low, 120)) });
                break;
            }
        }
    }
    for mut i in low_issues {
        i.key = format!("low:{}", i.key);
        i.what = format!("low-priority output: {}", i.what);
        issues.push(i);
    }
    if prop == "C17" {
        let n = run.warnings.iter().filter(|w| w.contains(":host")).count();
        if n != dropped {
            issues.push(Issue { class: "tokens", key: "host-combination-warnings".into(), what: format!("{} `:host` combinations must each be dropped with a warning, got {} warnings", dropped, n) });
        }
        if hosts > 0 && c.convert_host && max_host_depth(&c.sheet.nodes, 0) >= 2 {
            out.nt.push(fnv64(printed.text.as_bytes()));
        }
    }
    if prop == "C18" {
        // imports after other rules are still rewritten but flagged
        let first_non_import = c.sheet.nodes.iter().position(|n| !matches!(n, Node::Import(_))).unwrap_or(c.sheet.nodes.len());
        let late = c.sheet.nodes.iter().enumerate().filter(|(i, n)| *i > first_non_import && matches!(n, Node::Import(_))).count() + count_nodes(&c.sheet.nodes, &|n| matches!(n, Node::Import(_))) - c.sheet.nodes.iter().filter(|n| matches!(n, Node::Import(_))).count();
        let flagged = run.warnings.iter().filter(|w| w.contains("@import")).count();
        if c.import_sign.is_some() && flagged < late {
            issues.push(Issue { class: "import", key: "late-import-not-flagged".into(), what: format!("{} imports stand after other rules but only {} were flagged", late, flagged) });
        }
        if imports > 0 {
            out.nt.push(fnv64(printed.text.as_bytes()));
        }
    }
    if prop == "C19" {
        source_map_issues(c, &printed, &exp_items, &toks, &pairs, &run, normal_ok, &mut issues);
        if printed.text.contains('\n') && !printed.text.is_ascii() {
            out.nt.push(fnv64(printed.text.as_bytes()));
        }
    }
    for is in issues {
        let mine = match prop {
            "C19" => is.class == "map",
            // C10 over sheets with imports (placeholder conditions) and converted :host rules: arithmetic only
            "C10" => is.class == "number",
            _ => is.class != "map" && is.class != "number",
        };
        if !mine {
            continue;
        }
        let tag = if prop == "C10" { super::c08::known_tag(prop, &super::c08::Issue { class: is.class, key: is.key.trim_start_matches("low:").to_string(), what: String::new() }) } else { None };
        out.failures.push(Failure { sig: format!("{}|{}|{}", prop, is.class, is.key), tag, what: format!("{} — source {:?}", is.what, crate::util::truncate(&printed.text, 200)), detail: json!({"source": printed.text, "normal": run.normal, "low": run.low}) });
        if is.class == "tokens" {
            break;
        }
    }
    out
}

#[allow(clippy::too_many_arguments)]
fn source_map_issues(c: &Case, printed: &css::Printed, _exp_items: &[css::Item], toks: &[ocss::OTok], pairs: &[(usize, usize)], run: &Run, normal_ok: bool, issues: &mut Vec<Issue>) {
    if !run.map_roundtrip_equal {
        issues.push(Issue { class: "map", key: "json-roundtrip".into(), what: "the source map read back from write_source_map differs from extract_source_map".into() });
    }
    // entries appear in non-decreasing output order
    let mut prev = (0u32, 0u32);
    for t in &run.map_normal {
        if (t.dst_line, t.dst_col) < prev {
            issues.push(Issue { class: "map", key: "order".into(), what: format!("source-map entries are not in output order: ({},{}) after ({},{})", t.dst_line, t.dst_col, prev.0, prev.1) });
            break;
        }
        prev = (t.dst_line, t.dst_col);
    }
    if !normal_ok {
        // the token stream itself is wrong (C08's subject): positions cannot be attributed
        return;
    }
    // the expected normal tokens are the printed model tokens minus the `:host` rules (when converted), so pairs index into them
    let kept: Vec<css::Item> = printed.items.iter().filter(|it| !(c.convert_host && matches!(it, css::Item::T(t) if t.host))).cloned().collect();
    let model = ocss::model_tokens(&kept);
    let line_starts: Vec<usize> = std::iter::once(0).chain(run.normal.match_indices('\n').map(|(i, _)| i + 1)).collect();
    let _ = line_starts;
    // open-bracket positions for "a closing bracket may point at its opening bracket"
    let mut stack: Vec<(u32, u32)> = vec![];
    let mut opener_of: std::collections::HashMap<usize, (u32, u32)> = std::collections::HashMap::new();
    for (mi, (t, _)) in model.iter().enumerate() {
        match &t.kind {
            TokKind::Open(_) => stack.push(t.src_pos),
            TokKind::Close(_) => {
                if let Some(p) = stack.pop() {
                    opener_of.insert(mi, p);
                }
            }
            _ => {}
        }
    }
    let mut reported = 0;
    for (mi, oi) in pairs {
        let (mt, _) = &model[*mi];
        let ot = &toks[*oi];
        // the output is a single line unless a token contains a line break; only line 0 positions are checked exactly
        if ot.line != 0 {
            continue;
        }
        let entry = run.map_normal.iter().find(|e| e.dst_line == 0 && e.dst_col == ot.col);
        let Some(e) = entry else {
            issues.push(Issue { class: "map", key: "missing-entry".into(), what: format!("output token {:?} at column {} has no source-map entry with that generated column", ot.kind, ot.col) });
            reported += 1;
            if reported > 2 {
                return;
            }
            continue;
        };
        let want = mt.src_pos;
        let got = (e.src_line, e.src_col);
        let opener_ok = opener_of.get(mi).map(|p| *p == got).unwrap_or(false);
        if got != want && !opener_ok {
            issues.push(Issue { class: "map", key: format!("wrong-source:{}", super::c08::kind_name_pub(&mt.kind)), what: format!("output token {:?} (column {}) maps to source {}:{} but was read from {}:{}", ot.kind, ot.col, got.0, got.1, want.0, want.1) });
            reported += 1;
        }
        // rewritten tokens carry the original spelling as name
        let rewritten_class = mt.class_name && c.opts.prefix.is_some();
        // (an rpx length the compiler leaves alone — the listed at-rule-prelude finding of C08/C10 — is not a rewritten token)
        let rewritten_rpx = matches!(&mt.kind, TokKind::Dimension(_, u) if u == "rpx") && matches!(&ot.kind, ocss::OKind::Dimension(_, u) if u == "vw");
        if rewritten_class {
            if let TokKind::Ident(orig) = &mt.kind {
                let tokd = e.name.as_ref().map(|n| ocss::tokenize(n));
                let ok = tokd.map(|t| t.len() == 1 && matches!(&t[0].kind, ocss::OKind::Ident(v) if v == orig)).unwrap_or(false);
                if !ok {
                    issues.push(Issue { class: "map", key: "name:class".into(), what: format!("prefixed class .{} must carry its original spelling as name, got {:?}", orig, e.name) });
                    reported += 1;
                }
            }
        } else if rewritten_rpx {
            if let TokKind::Dimension(n, _) = &mt.kind {
                let ok = e.name.as_ref().map(|nm| {
                    let t = ocss::tokenize(nm);
                    t.len() == 1 && matches!(&t[0].kind, ocss::OKind::Dimension(v, u) if u == "rpx" && super::c08::numeric_check(n, false, 1.0, v).1)
                }).unwrap_or(false);
                if !ok {
                    issues.push(Issue { class: "map", key: "name:rpx".into(), what: format!("converted {}rpx must carry its original spelling as name, got {:?}", n, e.name) });
                    reported += 1;
                }
            }
        }
        if reported > 2 {
            return;
        }
    }
}

pub fn run(prop: &'static str, tier: Tier, seed: u64, findings: &Findings) -> i32 {
    let started = Instant::now();
    let cfg = RunCfg { prop, tier, seed };
    let mut ccfg = gen::css::CssCfg::new();
    match prop {
        "C17" => ccfg.hosts = true,
        "C18" => {
            ccfg.imports = true;
            ccfg.hosts = true;
        }
        _ => ccfg.hosts = true,
    }
    let check = C17 { prop, cfg: ccfg };
    let mut report = engine::Report::default();
    report.merge(super::run_regress(&check, &cfg, findings));
    let cases = tier.pick(200_000, 8_000_000);
    report.merge(engine::run_generated(&check, &cfg, cases, 16, 16, findings, 0));
    let mut assumptions: Vec<String> = vec!["cssparser tokenizer".into(), "sourcemap crate decoder".into(), "expected sheets derived from the generator's model".into()];
    if prop == "C19" {
        // model-free stage on damaged sheets (cut off, byte order mark)
        let mut rcfg = gen::css::CssCfg::new();
        rcfg.hosts = true;
        rcfg.imports = true;
        let raw = C19Raw { cfg: rcfg };
        report.merge(super::run_regress(&raw, &cfg, findings));
        report.merge(engine::run_generated(&raw, &cfg, tier.pick(60_000, 2_000_000), 16, 16, findings, 1));
        assumptions.push("model-free stage: generated sheets cut off at a random character and / or with a byte order mark in front; for every source-map entry of both outputs the first token of the source at the source position corresponds to the first token of the output at the generated column (equal token; closing bracket -> its opening bracket or the same bracket; rpx value / prefixed class -> the original; tokens synthesised by the @import / :host rewrites -> the `@import` keyword / the `:`)".into());
        // coverage-guided stage on arbitrary stylesheets: source positions inside the source, destination order
        super::fuzz_stage::replay_regress("wxss_map", "C19", &mut report);
        if tier == Tier::Thorough && report.violations.is_empty() {
            let t = super::fuzz_stage::FuzzTarget { name: "wxss_map", corpus_kind: "wxss", runs: 8_000_000, max_len: 600 };
            if let Err(e) = super::fuzz_stage::campaign(&t, "C19", seed, &mut report) {
                report.errors.push(e);
            }
        }
        assumptions.push("thorough tier: a libFuzzer campaign (cargo-fuzz target wxss_map) checks on arbitrary text that every source-map token of both outputs points inside the source (CSS line breaks: LF, CRLF, CR, FF) and that destination positions never decrease".into());
    }
    let rule = match prop {
        "C17" => "cases = generated stylesheets with `:host {}` rules at at-rule depth 0-3 interleaved with ordinary rules, `:host(...)` and `:host .a` combinations x {convert_host, class_prefix, host_is}. Oracle: the model is partitioned into an expected normal sheet (every non-host rule in order inside its at-rules) and an expected low-priority sheet (each pure :host rule as `[wx-host=\"P\"]` (+`,[is=\"H\"]`) wrapped in the same at-rule chain); both outputs are re-tokenised and aligned with them (declarations transformed as elsewhere); combinations are in neither output and each produces a warning; with conversion off the low-priority output is empty. non-trivial = a converted :host rule at at-rule depth >= 2; distinct by source.",
        "C18" => "cases = generated stylesheets with @import in string / url(\"..\") / url(..) form, paths with quotes, `*/`, spaces, percent signs, line breaks and non-ASCII, optional layer / layer(x) / supports(..) / media conditions, leading and trailing positions x import_sign on/off. Oracle: with a sign, at the import's place the output has exactly one comment `sign <enc>` with percent_decode(enc) == path, wrapped (outer to inner) in @layer, @supports, @media blocks token-equal to the conditions; late imports are flagged; without a sign the at-rule passes through token-equal. non-trivial = sheet with an import; distinct by source.",
        _ => "cases = generated stylesheets with multi-line input, multi-byte characters and all rewrite kinds. Oracle: for every output token aligned with its model token there is a source-map entry whose generated column is the token's UTF-16 column and whose source line/column is where the printer put that model token (a closing bracket may map to its opening bracket); prefixed classes and converted rpx values carry their original spelling as name; entries are in output order; the map read back from its JSON equals the extracted one. non-trivial = multi-line, non-ASCII source; distinct by source.",
    };
    engine::finish(Finish { cfg, report, rule: rule.into(), assumptions, started, exhaustive: false }, findings)
}

pub fn replay(prop: &'static str, v: &Value, path: &str, findings: &Findings) -> i32 {
    if prop == "C19" && v["case"]["raw_stage"].as_bool() == Some(true) {
        return super::replay_generic(&C19Raw { cfg: gen::css::CssCfg::new() }, prop, v, path, findings);
    }
    let check = C17 { prop, cfg: gen::css::CssCfg::new() };
    super::replay_generic(&check, prop, v, path, findings)
}
