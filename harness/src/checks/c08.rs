//! C08 / C09 / C10 — stylesheet token stream, class prefixing, rpx arithmetic. One generator, one alignment of the
//! re-tokenised output with the model's expected token stream; each property reports its own failure classes.

use super::common::short_hash;
use crate::compile::panic_message;
use crate::engine::{self, Failure, Finish, Outcome, PropCheck, RunCfg, Tier};
use crate::findings::Findings;
use crate::gen;
use crate::jsworker::Worker;
use crate::model::css::{self, Bracket, Sheet, Slot, Tok, TokKind};
use crate::oracle::css::{self as ocss, OKind, OTok};
use crate::util::fnv64;
use glass_easel_stylesheet_compiler::{StyleSheetOptions, StyleSheetTransformer};
use proptest::prelude::*;
use serde::{Deserialize, Serialize};
use serde_json::{json, Value};
use std::panic::{catch_unwind, AssertUnwindSafe};
use std::time::Instant;

#[derive(Clone, Debug, Serialize, Deserialize)]
pub struct Opts {
    pub prefix: Option<String>,
    pub sign: Option<String>,
    pub ratio: f64,
}

#[derive(Clone, Debug, Serialize, Deserialize)]
pub struct Case {
    pub sheet: Sheet,
    pub style: u64,
    pub opts: Opts,
}

pub struct C08 {
    pub prop: &'static str,
    pub cfg: gen::css::CssCfg,
}

pub const PREFIXES: &[Option<&str>] = &[None, Some(""), Some("p"), Some("a-b"), Some("组件"), Some("p"), Some("e\u{301}"), Some("z\u{200d}")];
pub const RATIOS: &[f64] = &[750.0, 375.0, 10.0, 1.0, 7.5, 0.001, 30000.0, 750.0];

pub fn opts_strategy() -> BoxedStrategy<Opts> {
    (0..PREFIXES.len(), any::<bool>(), 0..RATIOS.len()).prop_map(|(p, s, r)| Opts { prefix: PREFIXES[p].map(|x| x.to_string()), sign: if s { Some("S".into()) } else { None }, ratio: RATIOS[r] }).boxed()
}

pub fn to_options(o: &Opts) -> StyleSheetOptions {
    StyleSheetOptions { class_prefix: o.prefix.clone(), class_prefix_sign: o.sign.clone(), rpx_ratio: o.ratio as f32, import_sign: None, convert_host: false, host_is: None }
}

pub struct Transformed {
    pub normal: String,
    pub low: String,
    pub warnings: Vec<(String, u8)>,
}

pub fn transform(text: &str, options: StyleSheetOptions) -> Result<Transformed, String> {
    catch_unwind(AssertUnwindSafe(|| {
        let t = StyleSheetTransformer::from_css("sheet.wxss", text, options);
        let warnings = t.warnings().map(|w| (format!("{}", w.kind), w.kind.level() as u8)).collect();
        let (a, b) = t.output_and_low_priority_output();
        let mut sa = Vec::new();
        a.write(&mut sa).unwrap();
        let mut sb = Vec::new();
        b.write(&mut sb).unwrap();
        Transformed { normal: String::from_utf8(sa).unwrap_or_default(), low: String::from_utf8(sb).unwrap_or_default(), warnings }
    }))
    .map_err(panic_message)
}

#[derive(Clone, Debug)]
pub struct Issue {
    /// which property's subject: "tokens" (C08), "whitespace" (C08), "class" (C09), "number" (C10), "micro" (C08)
    pub class: &'static str,
    pub key: String,
    pub what: String,
}

pub const EPS: f64 = 2.0 * (f32::EPSILON as f64);

/// Compare an output numeric spelling with the expected exact value. Returns (ok_strict, ok_lenient, description).
pub fn numeric_check(model_spelling: &str, is_rpx: bool, ratio: f64, out_spelling: &str) -> (bool, bool, String) {
    let Some(v) = ocss::number_value(model_spelling) else { return (false, false, format!("model spelling {:?} unreadable", model_spelling)) };
    let Some(o) = ocss::number_value(out_spelling) else { return (false, false, format!("output number {:?} is not a CSS number", out_spelling)) };
    let expected = if is_rpx { v * 100.0 / ratio } else { v };
    let integer = !is_rpx && ocss::is_integer_spelling(model_spelling);
    let err = (o - expected).abs();
    let scale = expected.abs();
    let strict = if integer { o == expected } else { err <= EPS * scale || (scale == 0.0 && o == 0.0) };
    // lenient: the 6-significant-digit printing of non-integers passes (relative 5e-6 plus a little)
    let lenient = if integer { strict } else { err <= 6e-6 * scale || (scale == 0.0 && o == 0.0) };
    (strict, lenient, format!("expected {} ({}{}), output {}", expected, model_spelling, if is_rpx { "rpx" } else { "" }, out_spelling))
}

/// excerpt of `text` around [start, end) snapped to character boundaries
fn excerpt(text: &str, start: usize, end: usize, before: usize, after: usize) -> String {
    let mut a = start.saturating_sub(before);
    while a > 0 && !text.is_char_boundary(a) {
        a -= 1;
    }
    let mut b = (end + after).min(text.len());
    while b < text.len() && !text.is_char_boundary(b) {
        b += 1;
    }
    text[a..b].to_string()
}

fn describe(t: &OTok) -> String {
    format!("{:?}", t.kind)
}

/// Align model tokens with output tokens.
pub fn align(model: &[(Tok, Slot)], out: &[OTok], opts: Option<&Opts>, out_text: &str, issues: &mut Vec<Issue>, strict_numbers: bool) {
    align_full(model, out, &[], opts, None, out_text, issues, strict_numbers, &mut vec![])
}

/// `import_sign`: content prefix of import placeholder comments; `pairs` receives (model index, output index) of aligned tokens
#[allow(clippy::too_many_arguments)]
pub fn align_full(model: &[(Tok, Slot)], out: &[OTok], trailing_comments: &[String], opts: Option<&Opts>, import_sign: Option<&str>, out_text: &str, issues: &mut Vec<Issue>, strict_numbers: bool, pairs: &mut Vec<(usize, usize)>) {
    let mut j = 0usize;
    let mut i = 0usize;
    // context: top level of an at-rule prelude (between the at-keyword and its `{` / `;`, outside any bracket)
    let mut prelude_depth = 0usize;
    let mut in_at_prelude = false;
    let mut marker_at = usize::MAX;
    let mut marker_used = 0usize;
    while i < model.len() {
        let (m, slot) = &model[i];
        match &m.kind {
            TokKind::AtKeyword(_) => {
                in_at_prelude = true;
                prelude_depth = 0;
            }
            TokKind::Open(Bracket::Curly) | TokKind::Semicolon if in_at_prelude && prelude_depth == 0 => in_at_prelude = false,
            TokKind::Open(_) if in_at_prelude => prelude_depth += 1,
            TokKind::Close(_) if in_at_prelude => prelude_depth = prelude_depth.saturating_sub(1),
            _ => {}
        }
        let at_prelude_top = in_at_prelude && prelude_depth == 0;
        // unicode-range pseudo token: consume output tokens up to the next comma / semicolon / closing brace
        if let TokKind::Ident(s) = &m.kind {
            if let Some(spelling) = s.strip_prefix("\u{1}UR:") {
                // the pieces of a range are written without anything between them: take the run of adjacent tokens
                let start = j;
                while j < out.len() && matches!(out[j].kind, OKind::Ident(_) | OKind::Number(_) | OKind::Dimension(..) | OKind::Delim('+') | OKind::Delim('?')) && (j == start || (out[j].start == out[j - 1].end && out[j].comments_before.is_empty())) {
                    j += 1;
                }
                // (a range torn apart — `U +26` — leaves its remaining pieces behind: skip them so that one issue is reported)
                if j > start && ocss::unicode_range_value(&out_text[out[start].start..out[j - 1].end]).is_none() {
                    while j < out.len() && !matches!(out[j].kind, OKind::Comma | OKind::Semicolon | OKind::Close(_) | OKind::Delim('!')) {
                        j += 1;
                    }
                }
                if start == j {
                    issues.push(Issue { class: "tokens", key: "unicode-range-missing".into(), what: format!("unicode-range {} has no output", spelling) });
                } else {
                    // (the range is one unit of the output: its first piece stands for it in the source map)
                    pairs.push((i, start));
                    let text = &out_text[out[start].start..out[j - 1].end];
                    let exp = ocss::unicode_range_value(spelling);
                    let got = ocss::unicode_range_value(text);
                    if exp.is_none() || exp != got {
                        issues.push(Issue { class: "micro", key: "unicode-range".into(), what: format!("unicode-range `{}` is emitted as `{}` which no longer denotes the same range", spelling, text) });
                    }
                }
                i += 1;
                continue;
            }
        }
        if let TokKind::CommentMarker(path) = &m.kind {
            let comments: &[String] = match out.get(j) {
                Some(o) => &o.comments_before,
                None => trailing_comments,
            };
            let sign = import_sign.unwrap_or("");
            // consecutive placeholders in front of the same token are consumed in order
            if marker_at != j {
                marker_at = j;
                marker_used = 0;
            }
            let is_placeholder = |c: &String| c.strip_prefix(sign).map(|r| r.starts_with(' ')).unwrap_or(false);
            let mine: Vec<&String> = comments.iter().filter(|c| is_placeholder(c)).collect();
            match mine.get(marker_used) {
                Some(c) => {
                    let enc = &c[sign.len() + 1..];
                    if urlencoding::decode(enc).map(|d| d != path.as_str()).unwrap_or(true) {
                        issues.push(Issue { class: "import", key: "placeholder-wrong".into(), what: format!("import placeholder `{}` does not decode to the path {:?}", c, path) });
                    }
                }
                None => issues.push(Issue { class: "import", key: "placeholder-missing".into(), what: format!("expected a comment `{} <percent-encoded {:?}>` here, found comments {:?}", sign, path, comments) }),
            }
            marker_used += 1;
            i += 1;
            continue;
        }
        let Some(o) = out.get(j) else {
            issues.push(Issue { class: "tokens", key: "missing-token".into(), what: format!("output ends before model token #{} {:?}", i, m.kind) });
            return;
        };
        // whitespace demands
        match slot {
            Slot::Sig if !o.ws_before => {
                let ctx = if matches!(m.kind, TokKind::Delim('+') | TokKind::Delim('-')) || (i > 0 && matches!(model[i - 1].0.kind, TokKind::Delim('+') | TokKind::Delim('-'))) { "calc-operator" } else { "descendant-combinator" };
                issues.push(Issue { class: "whitespace", key: format!("lost-{}", ctx), what: format!("meaningful whitespace ({}) before {} was dropped: ...{}", ctx, describe(o), excerpt(out_text, o.start, o.end, 30, 10)) })
            }
            Slot::Tight if o.ws_before => issues.push(Issue { class: "whitespace", key: "introduced".into(), what: format!("whitespace introduced before {} where the input has none and it changes the meaning", describe(o)) }),
            _ => {}
        }
        // expected token
        let prefix = opts.and_then(|o| o.prefix.clone());
        let ok = match (&m.kind, &o.kind) {
            (TokKind::Ident(a), OKind::Ident(b)) => {
                if m.class_name {
                    let want = match &prefix {
                        Some(p) => format!("{}--{}", p, a),
                        None => a.clone(),
                    };
                    if *b != want {
                        issues.push(Issue { class: "class", key: if *b == *a { "class-not-prefixed".into() } else { "class-wrong-name".into() }, what: format!("class selector .{} is emitted as .{} (expected .{})", a, b, want) });
                    }
                    if let Some(sign) = opts.and_then(|o| o.sign.clone()) {
                        let n = o.comments_before.iter().filter(|c| **c == sign).count();
                        if n != 1 {
                            issues.push(Issue { class: "class", key: "sign-missing".into(), what: format!("class selector .{} carries {} sign comments (expected exactly 1)", a, n) });
                        }
                    }
                    true
                } else {
                    if a != b {
                        issues.push(Issue { class: if b.ends_with(&format!("--{}", a)) { "class" } else { "tokens" }, key: if b.ends_with(&format!("--{}", a)) { "non-class-prefixed".into() } else { "ident-changed".into() }, what: format!("identifier `{}` (not a class selector) is emitted as `{}`", a, b) });
                    } else if let Some(sign) = opts.and_then(|o| o.sign.clone()) {
                        if o.comments_before.iter().any(|c| *c == sign) {
                            issues.push(Issue { class: "class", key: "sign-on-non-class".into(), what: format!("prefix sign comment emitted before `{}`, which is not a class selector", a) });
                        }
                    }
                    true
                }
            }
            (TokKind::Number(a), OKind::Number(b)) | (TokKind::Percentage(a), OKind::Percentage(b)) => {
                let (strict, lenient, d) = numeric_check(a, false, 1.0, b);
                if !(if strict_numbers { strict } else { lenient }) {
                    issues.push(Issue { class: "number", key: number_key(a, false, &d, lenient), what: d });
                }
                true
            }
            (TokKind::Dimension(a, u), OKind::Dimension(b, v)) => {
                let is_rpx = u == "rpx" && opts.is_some();
                let want_unit = if is_rpx { "vw" } else { u.as_str() };
                if v != want_unit {
                    issues.push(Issue { class: "number", key: if is_rpx && at_prelude_top { "rpx-at-prelude-top-level-not-converted".into() } else if is_rpx { "rpx-not-converted".into() } else { "unit-changed".into() }, what: format!("dimension {}{} is emitted with unit `{}` (expected `{}`)", a, u, v, want_unit) });
                } else {
                    let ratio = opts.map(|o| o.ratio).unwrap_or(750.0);
                    let (strict, lenient, d) = numeric_check(a, is_rpx, ratio, b);
                    if !(if strict_numbers { strict } else { lenient }) {
                        issues.push(Issue { class: "number", key: number_key(a, is_rpx, &d, lenient), what: d });
                    }
                }
                true
            }
            (mk, ok_) => ocss::same_as_model(ok_, mk),
        };
        if !ok {
            issues.push(Issue { class: "tokens", key: format!("token-mismatch:{}", kind_name(&m.kind)), what: format!("model token #{} {:?} but output has {:?} (…{}…)", i, m.kind, o.kind, excerpt(out_text, o.start, o.end, 40, 20)) });
            return;
        }
        pairs.push((i, j));
        i += 1;
        j += 1;
    }
    if j < out.len() {
        issues.push(Issue { class: "tokens", key: "extra-token".into(), what: format!("output has {} extra tokens, first {:?}", out.len() - j, out[j].kind) });
    }
}

pub fn kind_name_pub(k: &TokKind) -> &'static str {
    kind_name(k)
}

fn kind_name(k: &TokKind) -> &'static str {
    match k {
        TokKind::Ident(_) => "ident",
        TokKind::AtKeyword(_) => "at-keyword",
        TokKind::Hash(_) => "hash",
        TokKind::Str(_) => "string",
        TokKind::Url(_) => "url",
        TokKind::Delim(_) => "delim",
        TokKind::Number(_) => "number",
        TokKind::Percentage(_) => "percentage",
        TokKind::Dimension(..) => "dimension",
        TokKind::Colon => "colon",
        TokKind::Semicolon => "semicolon",
        TokKind::Comma => "comma",
        TokKind::Match(_) => "match",
        TokKind::Open(_) => "open",
        TokKind::Close(_) => "close",
        TokKind::CommentMarker(_) => "comment-marker",
    }
}

fn number_key(spelling: &str, is_rpx: bool, _d: &str, lenient_ok: bool) -> String {
    if !is_rpx && ocss::is_integer_spelling(spelling) {
        "integer-changed".into()
    } else if lenient_ok {
        "six-significant-digits".into()
    } else if is_rpx {
        "rpx-arithmetic".into()
    } else {
        "value-changed".into()
    }
}

pub fn sheet_labels(items: &[css::Item], sheet: &Sheet) -> Vec<String> {
    let mut l = vec![];
    let mut depth_fn = 0usize;
    let mut max_class_fn_depth = 0usize;
    let mut sig_below_top = false;
    let mut curly = 0usize;
    let mut prev_sig = false;
    for it in items {
        match it {
            css::Item::S(Slot::Sig) => prev_sig = true,
            css::Item::S(_) => {}
            css::Item::T(t) => {
                if prev_sig && (depth_fn > 0 || curly > 0) {
                    sig_below_top = true;
                }
                prev_sig = false;
                match &t.kind {
                    TokKind::Open(Bracket::Func(_)) | TokKind::Open(Bracket::Paren) => depth_fn += 1,
                    TokKind::Close(Bracket::Func(_)) | TokKind::Close(Bracket::Paren) => depth_fn = depth_fn.saturating_sub(1),
                    TokKind::Open(Bracket::Curly) => curly += 1,
                    TokKind::Close(Bracket::Curly) => curly = curly.saturating_sub(1),
                    TokKind::Ident(s) if s.starts_with('\u{1}') => l.push("micro:unicode-range".to_string()),
                    TokKind::Dimension(_, u) if u == "rpx" => l.push("rpx".to_string()),
                    _ => {}
                }
                if t.class_name {
                    max_class_fn_depth = max_class_fn_depth.max(depth_fn);
                    if curly > 0 {
                        l.push("class-inside-at-rule".to_string());
                    }
                }
            }
        }
    }
    l.push(format!("class-fn-depth:{}", max_class_fn_depth.min(3)));
    if sig_below_top {
        l.push("significant-ws-below-top-level".into());
    }
    for n in &sheet.nodes {
        if let css::Node::Group { name, .. } = n {
            l.push(format!("at-rule:{}", name));
        }
    }
    l.sort();
    l.dedup();
    l
}

impl PropCheck for C08 {
    type Case = Case;

    fn strategy(&self) -> BoxedStrategy<Case> {
        (gen::css::sheet(&self.cfg), any::<u64>(), opts_strategy()).prop_map(|(sheet, style, opts)| Case { sheet, style, opts }).boxed()
    }

    fn needs_worker(&self) -> bool {
        false
    }

    fn eval(&self, _w: Option<&mut Worker>, cases: &[Case]) -> Result<Vec<Outcome>, String> {
        Ok(cases.iter().map(|c| eval_case(self.prop, c)).collect())
    }

    fn case_json(&self, case: &Case) -> Value {
        let p = css::print(&case.sheet, case.style);
        let out = transform(&p.text, to_options(&case.opts)).map(|t| t.normal).unwrap_or_default();
        json!({"case": serde_json::to_value(case).unwrap(), "source": p.text, "output": out})
    }

    fn case_from_json(&self, v: &Value) -> Result<Case, String> {
        serde_json::from_value(v["case"].clone()).map_err(|e| e.to_string())
    }

    fn owns_case(&self, v: &Value) -> bool {
        v["case"].get("convert_host").is_none()
    }
}

pub fn eval_case(prop: &'static str, c: &Case) -> Outcome {
    let mut out = Outcome::default();
    let printed = css::print(&c.sheet, c.style);
    let model = ocss::model_tokens(&printed.items);
    out.labels = sheet_labels(&printed.items, &c.sheet);
    out.labels.push(format!("prefix:{}", match &c.opts.prefix { None => "none", Some(p) if p.is_empty() => "empty", Some(p) if !p.is_ascii() => "non-ascii", _ => "ascii" }));
    // generator self-check: the printed text tokenises to the model (guards the oracle's trusted base)
    let input_toks = ocss::tokenize(&printed.text);
    let mut self_issues = vec![];
    align(&model, &input_toks, None, &printed.text, &mut self_issues, true);
    if self_issues.iter().any(|i| i.class == "tokens" || i.class == "number" || i.class == "micro") {
        out.labels.push("generator-self-check-failed".into());
        out.labels.push(format!("self-check:{}", self_issues[0].key));
        if std::env::var("GEV_DEBUG_SELFCHECK").is_ok() {
            eprintln!("SELFCHECK {} :: {}", self_issues[0].what, crate::util::truncate(&printed.text, 200));
        }
        out.excluded += 1;
        out.sample = Some(json!({"self_check": self_issues[0].what, "source": crate::util::truncate(&printed.text, 300)}));
        return out;
    }
    let tr = match transform(&printed.text, to_options(&c.opts)) {
        Ok(t) => t,
        Err(p) => {
            out.failures.push(Failure { sig: format!("{}|panic|{}", prop, short_hash(&p)), tag: None, what: format!("transformer panicked: {} on {:?}", p, crate::util::truncate(&printed.text, 200)), detail: json!({}) });
            return out;
        }
    };
    out.sample = Some(json!({"source": crate::util::truncate(&printed.text, 300), "output": crate::util::truncate(&tr.normal, 300), "options": serde_json::to_value(&c.opts).unwrap()}));
    let out_toks = ocss::tokenize(&tr.normal);
    out.units = model.len() as u64;
    let mut issues = vec![];
    align(&model, &out_toks, Some(&c.opts), &tr.normal, &mut issues, prop == "C10");
    if !tr.low.is_empty() {
        issues.push(Issue { class: "tokens", key: "low-priority-output-non-empty".into(), what: format!("host conversion is off but the low-priority output is {:?}", crate::util::truncate(&tr.low, 100)) });
    }
    let nontrivial = match prop {
        "C09" => out.labels.iter().any(|l| l == "class-inside-at-rule" || l.starts_with("class-fn-depth:1") || l.starts_with("class-fn-depth:2") || l.starts_with("class-fn-depth:3")),
        "C10" => printed.items.iter().any(|i| matches!(i, css::Item::T(t) if matches!(&t.kind, TokKind::Dimension(n, _) | TokKind::Number(n) if n.trim_start_matches(|c| c == '+' || c == '-').replace('.', "").len() > 6))),
        _ => out.labels.iter().any(|l| l == "significant-ws-below-top-level" || l.starts_with("micro:")),
    };
    if nontrivial {
        out.nt.push(fnv64(printed.text.as_bytes()));
    }
    for is in issues {
        let mine = match prop {
            "C09" => is.class == "class",
            // (the code points of a unicode-range are integers the statement wants kept exactly)
            "C10" => is.class == "number" || (is.class == "micro" && is.key == "unicode-range"),
            _ => is.class == "tokens" || is.class == "whitespace" || is.class == "micro" || (is.class == "number" && is.key != "six-significant-digits"),
        };
        if !mine {
            continue;
        }
        let tag = known_tag(prop, &is);
        out.failures.push(Failure { sig: format!("{}|{}|{}", prop, is.class, is.key), tag, what: format!("{} — source {:?}", is.what, crate::util::truncate(&printed.text, 200)), detail: json!({"source": printed.text, "output": tr.normal}) });
        if is.class == "tokens" {
            break;
        }
    }
    out
}

/// narrow known-finding tags (see known_findings.jsonl)
pub fn known_tag(_prop: &str, is: &Issue) -> Option<String> {
    match (is.class, is.key.as_str()) {
        ("number", "six-significant-digits") => Some("six-significant-digits".into()),
        ("number", "rpx-at-prelude-top-level-not-converted") => Some("rpx-at-prelude-top-level-not-converted".into()),
        _ => None,
    }
}

pub fn run(prop: &'static str, tier: Tier, seed: u64, findings: &Findings) -> i32 {
    let started = Instant::now();
    let cfg = RunCfg { prop, tier, seed };
    let check = C08 { prop, cfg: gen::css::CssCfg::new() };
    let mut report = engine::Report::default();
    report.merge(super::run_regress(&check, &cfg, findings));
    let cases = tier.pick(300_000, 10_000_000);
    report.merge(engine::run_generated(&check, &cfg, cases, 16, 16, findings, 0));
    if prop == "C10" {
        // the same arithmetic over sheets with @import conditions (rewritten into placeholder wrappers when an import sign
        // is set) and :host rules (moved to the low-priority output)
        let mut ccfg = gen::css::CssCfg::new();
        ccfg.hosts = true;
        ccfg.imports = true;
        let wide = super::c17::C17 { prop: "C10", cfg: ccfg };
        report.merge(super::run_regress(&wide, &cfg, findings));
        report.merge(engine::run_generated(&wide, &cfg, tier.pick(100_000, 3_000_000), 16, 16, findings, 1));
    }
    let rule = match prop {
        "C09" => "cases = generated stylesheets (all at-rules, selector functions nested to depth 3, escaped / non-ASCII class names, decoys in non-selector positions) x {prefix none/empty/ascii/non-ascii} x {sign on/off}. Oracle: in the re-tokenised output exactly the model's class-selector identifiers are `P--name` (each preceded by exactly one sign comment when a sign is configured) and every other identifier is unchanged. non-trivial = a class below selector-function depth 1 or inside an at-rule; distinct by source.",
        "C10" => "cases = generated stylesheets with numeric tokens (integers over the i32 range and its boundaries, decimals to 9 places, exponents, signs, leading dot, percentages, every unit incl. rpx in declarations, functions, queries, preludes) x rpx_ratio in {750,375,10,1,7.5,0.001,30000}. Oracle per aligned numeric token: rpx -> unit vw and |out - v*100/ratio| <= 2*f32::EPSILON*|expected|; integers of other units exactly; other non-integers within the same epsilon; units other than rpx unchanged (output parsed from text by our own scanner); a unicode-range must still denote the same code points. non-trivial = a numeric spelling with > 6 significant digits; distinct by source.",
        _ => "cases = generated stylesheets from a CSS grammar (nested rule-bearing at-rules incl. media/supports/layer/container/scope/starting-style, keyframes, font-face, page, statement at-rules, selector functions nested to depth 3, all token kinds, calc nests) in varied whitespace/comment style x option sets. Oracle: the non-whitespace, non-comment tokens of the re-tokenised output equal the model's expected tokens (class names prefixed, rpx converted, numbers compared leniently here — C10 owns arithmetic), whitespace survives where the model marks it significant (descendant combinators at every depth, around + and - in calc), none is introduced where it changes meaning, and unicode-range values still denote the same range. non-trivial = a significant whitespace below the top level or a micro-syntax value; distinct by source. The printed text is first re-tokenised against the model (generator self-check).",
    };
    engine::finish(
        Finish { cfg, report, rule: rule.into(), assumptions: vec!["cssparser 0.34 tokenizer is the trusted tokenisation".into(), "expected token stream and whitespace significance come from the generator's model".into()], started, exhaustive: false },
        findings,
    )
}

pub fn replay(prop: &'static str, v: &Value, path: &str, findings: &Findings) -> i32 {
    if prop == "C10" && v["case"]["case"].get("convert_host").is_some() {
        return super::c17::replay("C10", v, path, findings);
    }
    let check = C08 { prop, cfg: gen::css::CssCfg::new() };
    super::replay_generic(&check, prop, v, path, findings)
}
