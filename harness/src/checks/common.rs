//! Shared plumbing for the checks that execute generated JavaScript.

use crate::compile::{compile_group, Compiled};
use crate::jsworker::Worker;
use crate::model::expr::Expr;
use crate::model::wxml::{group_json, Group, NodeInfo};
use serde_json::{json, Value};
use std::collections::BTreeMap;

#[derive(Clone, Debug)]
pub struct Mismatch {
    pub where_: String,
    pub id: String,
    pub ch: String,
    pub name: String,
    pub expected: String,
    pub actual: String,
}

impl Mismatch {
    pub fn from_json(v: &Value) -> Mismatch {
        let s = |k: &str| v.get(k).and_then(|x| x.as_str()).unwrap_or("").to_string();
        Mismatch { where_: s("where"), id: s("id"), ch: s("ch"), name: s("name"), expected: s("expected"), actual: s("actual") }
    }
    pub fn describe(&self) -> String {
        format!("at {} [{}] {}:{} expected {} got {}", self.where_, self.id, self.ch, self.name, crate::util::truncate(&self.expected, 200), crate::util::truncate(&self.actual, 200))
    }
}

pub struct RefRun {
    pub compiled: Option<Compiled>,
    pub compile_panic: Option<String>,
    pub bundle_error: Option<String>,
    /// per data environment
    pub results: Vec<Vec<Mismatch>>,
    pub nodes: Vec<u64>,
    pub infos: BTreeMap<String, BTreeMap<String, NodeInfo>>,
}

pub fn run_render_ref(
    w: &mut Worker,
    g: &Group,
    style_seed: u64,
    datas: &[String],
    entry: &str,
    paths: bool,
    tagger: &dyn Fn(&Expr, &[String]) -> Vec<String>,
) -> Result<RefRun, String> {
    let (model, infos) = group_json(g, tagger);
    let compiled = match compile_group(g, style_seed) {
        Ok(c) => c,
        Err(p) => return Ok(RefRun { compiled: None, compile_panic: Some(p), bundle_error: None, results: vec![], nodes: vec![], infos }),
    };
    let req = json!({"kind":"render_ref","bundle":compiled.bundle,"entry":entry,"model":model,"data":datas,"paths":paths});
    let resp = w.request(&req).map_err(|e| e.0)?;
    if let Some(e) = resp.get("error") {
        return Ok(RefRun { compiled: Some(compiled), compile_panic: None, bundle_error: Some(e.as_str().unwrap_or("").to_string()), results: vec![], nodes: vec![], infos });
    }
    let mut results = vec![];
    let mut nodes = vec![];
    for r in resp["results"].as_array().cloned().unwrap_or_default() {
        results.push(r["mismatches"].as_array().map(|a| a.iter().map(Mismatch::from_json).collect()).unwrap_or_default());
        nodes.push(r["nodes"].as_u64().unwrap_or(0));
    }
    Ok(RefRun { compiled: Some(compiled), compile_panic: None, bundle_error: None, results, nodes, infos })
}

pub fn short_hash(s: &str) -> String {
    format!("{:08x}", crate::util::fnv64(s.as_bytes()) as u32)
}
