//! Coverage-guided stage (libFuzzer through cargo-fuzz) of the checks whose oracle needs no generator model.
//!  * both tiers: every saved input under /verif/fuzz/regress/<target>/ is replayed through the target's oracle in-process;
//!  * thorough tier: `cargo +nightly fuzz run <target>` on a fresh corpus written by the generators (`gev corpus`), with
//!    `-runs=N -seed=VERIF_SEED`; a crash artefact is copied to replays/ and reported as a violation of the property the
//!    target's panic message names. A build failure of the fuzz crate is a machinery error (exit 2), never a violation.

use crate::engine::{Report, Violation};
use serde_json::json;
use std::process::Command;

pub struct FuzzTarget {
    pub name: &'static str,
    pub corpus_kind: &'static str,
    pub runs: u64,
    pub max_len: u32,
}

fn verif() -> String {
    crate::jsworker::verif_root()
}

/// replay the committed inputs of one target; violations of `prop` (or of any property when `prop` is None) are reported
pub fn replay_regress(target: &str, prop: &str, report: &mut Report) {
    let dir = format!("{}/fuzz/regress/{}", verif(), target);
    let Ok(rd) = std::fs::read_dir(&dir) else { return };
    let mut n = 0u64;
    let mut files: Vec<_> = rd.filter_map(|e| e.ok()).map(|e| e.path()).collect();
    files.sort();
    for p in files {
        let Ok(data) = std::fs::read(&p) else { continue };
        n += 1;
        if let Some((vp, what)) = run_oracle(target, &data) {
            if vp == prop && report.violations.len() < 5 {
                report.violations.push(Violation {
                    sig: format!("{}|fuzz-regress|{}", prop, p.file_name().and_then(|x| x.to_str()).unwrap_or("")),
                    what: format!("saved fuzz input {} fails again: {}", p.display(), what),
                    replay: json!({"property": prop, "fuzz_target": target, "fuzz_input_file": p.display().to_string(), "what": what, "case": {"fuzz_input_b64": b64(&data), "fuzz_target": target}}),
                });
            }
        }
    }
    report.evaluations += n;
    report.extra.insert(format!("fuzz_regress_inputs_{}", target), json!(n));
}

pub fn run_oracle(target: &str, data: &[u8]) -> Option<(String, String)> {
    let r = std::panic::catch_unwind(|| match target {
        "tmpl_positions" => std::str::from_utf8(data).ok().and_then(super::fuzz_oracles::tmpl_positions),
        "tmpl_roundtrip" => std::str::from_utf8(data).ok().and_then(super::fuzz_oracles::tmpl_roundtrip),
        "wxss_map" => {
            if data.is_empty() {
                None
            } else {
                std::str::from_utf8(&data[1..]).ok().and_then(|s| super::fuzz_oracles::wxss_map(s, data[0]))
            }
        }
        _ => None,
    });
    match r {
        Ok(x) => x,
        Err(p) => Some(("C01".into(), format!("panic: {}", crate::compile::panic_message(p)))),
    }
}

fn b64(data: &[u8]) -> String {
    const T: &[u8] = b"ABCDEFGHIJKLMNOPQRSTUVWXYZabcdefghijklmnopqrstuvwxyz0123456789+/";
    let mut out = String::new();
    for c in data.chunks(3) {
        let b = [c[0], *c.get(1).unwrap_or(&0), *c.get(2).unwrap_or(&0)];
        let n = ((b[0] as u32) << 16) | ((b[1] as u32) << 8) | b[2] as u32;
        out.push(T[(n >> 18) as usize & 63] as char);
        out.push(T[(n >> 12) as usize & 63] as char);
        out.push(if c.len() > 1 { T[(n >> 6) as usize & 63] as char } else { '=' });
        out.push(if c.len() > 2 { T[n as usize & 63] as char } else { '=' });
    }
    out
}

pub fn unb64(s: &str) -> Vec<u8> {
    let val = |c: u8| -> Option<u32> {
        match c {
            b'A'..=b'Z' => Some((c - b'A') as u32),
            b'a'..=b'z' => Some((c - b'a') as u32 + 26),
            b'0'..=b'9' => Some((c - b'0') as u32 + 52),
            b'+' => Some(62),
            b'/' => Some(63),
            _ => None,
        }
    };
    let mut out = vec![];
    let bytes: Vec<u8> = s.bytes().filter(|c| *c != b'\n').collect();
    for c in bytes.chunks(4) {
        let mut n = 0u32;
        let mut k = 0;
        for x in c {
            if let Some(v) = val(*x) {
                n = (n << 6) | v;
                k += 1;
            }
        }
        n <<= 6 * (4 - k);
        if k >= 2 {
            out.push((n >> 16) as u8);
        }
        if k >= 3 {
            out.push((n >> 8) as u8);
        }
        if k >= 4 {
            out.push(n as u8);
        }
    }
    out
}

/// thorough tier: one libFuzzer campaign. Returns Err for machinery problems.
pub fn campaign(t: &FuzzTarget, prop: &str, seed: u64, report: &mut Report) -> Result<(), String> {
    let root = verif();
    let fuzz_dir = format!("{}/fuzz", root);
    let work = std::env::temp_dir().join(format!("gev-fuzz-{}-{}", t.name, std::process::id()));
    let corpus = work.join("corpus");
    let artifacts = work.join("artifacts");
    let _ = std::fs::remove_dir_all(&work);
    std::fs::create_dir_all(&corpus).map_err(|e| e.to_string())?;
    std::fs::create_dir_all(&artifacts).map_err(|e| e.to_string())?;
    let cleanup = |w: &std::path::Path| {
        let _ = std::fs::remove_dir_all(w);
    };
    // seed corpus: generator output + the committed regress inputs
    let code = super::write_corpus(t.corpus_kind, corpus.to_str().unwrap_or(""), 300, seed);
    if code != 0 {
        cleanup(&work);
        return Err("cannot write the seed corpus".into());
    }
    if let Ok(rd) = std::fs::read_dir(format!("{}/regress/{}", fuzz_dir, t.name)) {
        for e in rd.filter_map(|e| e.ok()) {
            let _ = std::fs::copy(e.path(), corpus.join(format!("r-{}", e.file_name().to_string_lossy())));
        }
    }
    let env_flags = "--cfg glass_easel_verif -A unexpected_cfgs -A warnings";
    let build = Command::new("cargo").args(["+nightly", "fuzz", "build", "--fuzz-dir", &fuzz_dir, t.name]).env("RUSTFLAGS", env_flags).env("CARGO_NET_OFFLINE", "true").output().map_err(|e| format!("cargo fuzz build: {}", e))?;
    if !build.status.success() {
        cleanup(&work);
        return Err(format!("cargo fuzz build failed: {}", String::from_utf8_lossy(&build.stderr).lines().rev().take(5).collect::<Vec<_>>().join(" | ")));
    }
    let jobs = 12;
    let runs = std::env::var("GEV_FUZZ_RUNS").ok().and_then(|s| s.parse::<u64>().ok()).unwrap_or(t.runs);
    let per_job = (runs / jobs).max(1);
    let out = Command::new("cargo")
        .args(["+nightly", "fuzz", "run", "--fuzz-dir", &fuzz_dir, t.name, corpus.to_str().unwrap_or("")])
        .arg("--")
        .args([format!("-runs={}", per_job), format!("-seed={}", seed.max(1)), format!("-max_len={}", t.max_len), "-len_control=0".into(), format!("-artifact_prefix={}/", artifacts.display()), format!("-jobs={}", jobs), format!("-workers={}", jobs), "-print_final_stats=1".into()])
        .env("RUSTFLAGS", env_flags)
        .env("CARGO_NET_OFFLINE", "true")
        .current_dir(&work)
        .output()
        .map_err(|e| format!("cargo fuzz run: {}", e))?;
    // executed units from the per-job logs
    let mut executed = 0u64;
    if let Ok(rd) = std::fs::read_dir(&work) {
        for e in rd.filter_map(|e| e.ok()) {
            let name = e.file_name().to_string_lossy().to_string();
            if name.starts_with("fuzz-") && name.ends_with(".log") {
                if let Ok(text) = std::fs::read_to_string(e.path()) {
                    for l in text.lines() {
                        if let Some(v) = l.strip_prefix("stat::number_of_executed_units:") {
                            executed += v.trim().parse::<u64>().unwrap_or(0);
                        }
                    }
                }
            }
        }
    }
    report.evaluations += executed;
    report.units += executed;
    report.extra.insert(format!("libfuzzer_executed_units_{}", t.name), json!(executed));
    let mut seen = std::collections::HashSet::new();
    if let Ok(rd) = std::fs::read_dir(&artifacts) {
        for e in rd.filter_map(|e| e.ok()) {
            let Ok(data) = std::fs::read(e.path()) else { continue };
            let kind = e.file_name().to_string_lossy().to_string();
            let verdict = run_oracle(t.name, &data);
            let (vp, what) = match verdict {
                Some(x) => x,
                None => {
                    if kind.starts_with("crash-") {
                        (prop.to_string(), "libFuzzer saved a crash artefact that the in-process oracle does not reproduce (abort / sanitizer report)".to_string())
                    } else {
                        // timeouts / ooms of the campaign are inconclusive, not violations
                        report.extra.insert(format!("libfuzzer_inconclusive_{}", kind), json!(true));
                        continue;
                    }
                }
            };
            let class: String = what.chars().take(40).collect();
            if !seen.insert(class.clone()) || report.violations.len() >= 5 {
                continue;
            }
            report.violations.push(Violation {
                sig: format!("{}|libfuzzer|{}|{}", vp, t.name, class),
                what: format!("libFuzzer target {}: {}", t.name, what),
                replay: json!({"property": vp, "fuzz_target": t.name, "what": what, "case": {"fuzz_input_b64": b64(&data), "fuzz_target": t.name}}),
            });
        }
    }
    if executed == 0 && report.violations.is_empty() {
        let tail = String::from_utf8_lossy(&out.stderr).lines().rev().take(4).collect::<Vec<_>>().join(" | ");
        cleanup(&work);
        return Err(format!("the libFuzzer campaign executed nothing: {}", tail));
    }
    cleanup(&work);
    Ok(())
}
