//! proptest strategies for WXML templates and groups (sound by construction: only documented syntax).

use super::expr::{self as gexpr, ExprCfg};
use crate::model::expr::{Expr, ObjItem};
use crate::model::wxml::*;
use proptest::prelude::*;

#[derive(Clone, Debug)]
pub struct WxmlCfg {
    pub depth: u32,
    pub max_kids: usize,
    pub expr: ExprCfg,
    pub tis: bool,
    pub include: bool,
    pub slot: bool,
    pub wxs: bool,
    pub slot_refs: bool,
    /// include the dynamic-slot component tag `dyn-c` (stub DOM: three fixed slot instances with slot values)
    pub dyn_tags: bool,
    pub comments: bool,
    /// attribute families to draw from
    pub families: Vec<AttrKind>,
    /// probability weight of dynamic values (out of 10)
    pub dyn_weight: u32,
    pub rich_text: bool,
    /// scope names that are no identifiers (`list-item`, ` x `, empty) or unusual ones (`row$`): reported with a note, and
    /// still scopes (C05)
    pub odd_scope_names: bool,
}

pub fn all_families() -> Vec<AttrKind> {
    let mut v = vec![
        AttrKind::Plain,
        AttrKind::Plain,
        AttrKind::Plain,
        AttrKind::Class,
        AttrKind::Style,
        AttrKind::Id,
        AttrKind::DataHyphen,
        AttrKind::DataColon,
        AttrKind::Mark,
        AttrKind::Model,
        AttrKind::Change,
        AttrKind::Worklet,
        AttrKind::Generic,
        AttrKind::ExtraAttr,
    ];
    for k in EvKind::ALL {
        v.push(AttrKind::Event(k));
    }
    v
}

impl WxmlCfg {
    pub fn new(depth: u32, expr_depth: u32) -> Self {
        let mut e = ExprCfg::new(expr_depth);
        e.edge_numbers = false;
        e.small_numbers = true;
        e.instanceof = false;
        e.spread_ident = false;
        WxmlCfg { depth, max_kids: 4, expr: e, tis: true, include: true, slot: true, wxs: true, slot_refs: false, dyn_tags: false, comments: true, families: all_families(), dyn_weight: 6, rich_text: true, odd_scope_names: false }
    }
}

pub const TAGS: &[&str] = &["view", "text", "div", "span", "comp-a", "x-y", "my_tag", "v1"];
pub const PLAIN_NAMES: &[&str] = &["a0", "a1", "a2", "foo", "foo-bar", "fooBar", "hidden", "value", "bindtap", "catchtouchmove", "title", "name", "is", "data", "src", "x.y", "onload", "_u"];
pub const DATA_HYPHEN_NAMES: &[&str] = &["foo", "foo-bar", "x1", "a-b-c"];
pub const DATA_COLON_NAMES: &[&str] = &["fooBar", "x", "foo-bar"];
pub const MARK_NAMES: &[&str] = &["m1", "fooBar", "k-k"];
pub const EVENT_NAMES: &[&str] = &["tap", "touchstart", "custom-ev", "longPress"];
pub const MODEL_NAMES: &[&str] = &["value", "checked", "foo-bar"];
pub const CHANGE_NAMES: &[&str] = &["prop", "foo-bar", "value"];
pub const WORKLET_NAMES: &[&str] = &["onscroll", "foo-bar"];
pub const GENERIC_NAMES: &[&str] = &["g1", "item-comp"];
pub const EXTRA_NAMES: &[&str] = &["e1", "foo"];
pub const TEMPLATE_NAMES: &[&str] = &["t1", "t2", "t3"];
pub const ITEM_NAMES: &[&str] = &["it", "x", "a", "list", "item2", "index"];
pub const INDEX_NAMES: &[&str] = &["idx", "i", "b", "item", "k"];
pub const ODD_SCOPE_NAMES: &[&str] = &["row$", "i$", "list-item", " x ", "a b", "7up"];
pub const MODULE_NAMES: &[&str] = &["mod", "m", "tools", "a"];
pub const KEYS: &[&str] = &["id", "*this", "v", "k0"];

fn pick(names: &'static [&'static str]) -> BoxedStrategy<String> {
    (0..names.len()).prop_map(move |i| names[i].to_string()).boxed()
}

pub fn static_text(rich: bool) -> BoxedStrategy<String> {
    if !rich {
        return prop_oneof![Just("x".to_string()), Just("hello".to_string()), Just(" ".to_string()), Just("a b".to_string())].boxed();
    }
    let palette: Vec<char> = vec![
        'a', 'b', 'Z', '0', '9', ' ', ' ', '\n', '\t', '\'', '"', '\\', '{', '}', '<', '>', '&', ';', '#', '=', '/', '-', '!', '\u{a0}', 'é', '中', '😀', '\u{2028}', '\r', '\u{c}', '\u{b}', '\u{85}',
        '\u{3000}', '\u{1}',
    ];
    prop_oneof![
        3 => Just("x".to_string()),
        2 => Just(" ".to_string()),
        1 => Just("\n  ".to_string()),
        1 => Just("".to_string()),
        2 => Just("hello world".to_string()),
        6 => proptest::collection::vec(0..palette.len(), 1..8).prop_map(move |ix| ix.into_iter().map(|i| palette[i]).collect::<String>()),
    ]
    .boxed()
}

pub fn val(cfg: &WxmlCfg) -> BoxedStrategy<Val> {
    let e = gexpr::expr(&cfg.expr);
    let dw = cfg.dyn_weight;
    let piece = prop_oneof![static_text(cfg.rich_text).prop_map(Piece::Lit), e.clone().prop_map(Piece::Bind)];
    prop_oneof![
        (10 - dw.min(9)) => static_text(cfg.rich_text).prop_map(Val::Static),
        dw => e.prop_map(Val::Bind),
        // a value that is exactly one blank string literal (truthy, unlike the empty attribute it could be mistaken for)
        1 => prop_oneof![Just(" "), Just("\u{3000}"), Just("\t"), Just("  ")].prop_map(|s: &str| Val::Bind(crate::model::expr::Expr::Str(s.to_string()))),
        (dw / 2).max(1) => proptest::collection::vec(piece, 2..4).prop_map(|ps| Val::Mixed(ps).normalise()),
    ]
    .boxed()
}

fn attr(cfg: &WxmlCfg) -> BoxedStrategy<Attr> {
    let fams = cfg.families.clone();
    let v = val(cfg);
    let st = static_text(false);
    (0..fams.len(), any::<prop::sample::Index>(), proptest::option::weighted(0.85, v), st)
        .prop_map(move |(fi, ni, v, sv)| {
            let kind = fams[fi];
            let names: &[&str] = match kind {
                AttrKind::Plain => PLAIN_NAMES,
                AttrKind::Class | AttrKind::Style | AttrKind::Id => &[""],
                AttrKind::DataHyphen => DATA_HYPHEN_NAMES,
                AttrKind::DataColon => DATA_COLON_NAMES,
                AttrKind::Mark => MARK_NAMES,
                AttrKind::Event(_) => EVENT_NAMES,
                AttrKind::Model => MODEL_NAMES,
                AttrKind::Change => CHANGE_NAMES,
                AttrKind::Worklet => WORKLET_NAMES,
                AttrKind::Generic => GENERIC_NAMES,
                AttrKind::ExtraAttr => EXTRA_NAMES,
            };
            let name = names[ni.index(names.len())].to_string();
            let val = if kind.is_static_only() {
                Some(Val::Static(sv))
            } else {
                match (kind, v) {
                    // valueless class / style / id are Note-level oddities, not documented syntax
                    (AttrKind::Class | AttrKind::Style | AttrKind::Id, None) => Some(Val::Static(sv)),
                    (_, v) => v,
                }
            };
            Attr { kind, name, val }
        })
        .boxed()
}

fn dedup_attrs(attrs: Vec<Attr>, on_slot: bool) -> Vec<Attr> {
    let mut seen = std::collections::HashSet::new();
    attrs.into_iter().filter(|a| seen.insert(a.dup_key(on_slot))).collect()
}

fn text_node(cfg: &WxmlCfg) -> BoxedStrategy<Node> {
    let e = gexpr::expr(&cfg.expr);
    let piece = prop_oneof![2 => static_text(cfg.rich_text).prop_map(Piece::Lit), 3 => e.prop_map(Piece::Bind)];
    proptest::collection::vec(piece, 1..4).prop_map(Node::Text).boxed()
}

fn opt_slot_val(cfg: &WxmlCfg) -> BoxedStrategy<Option<Val>> {
    let e = gexpr::expr(&cfg.expr);
    prop_oneof![
        12 => Just(None),
        1 => Just(Some(Val::Static("s1".into()))),
        1 => e.prop_map(|e| Some(Val::Bind(e))),
    ]
    .boxed()
}

fn carrier() -> BoxedStrategy<Carrier> {
    prop_oneof![Just(Carrier::Block), Just(Carrier::OnChild)].boxed()
}

fn leaf_node(cfg: &WxmlCfg) -> BoxedStrategy<Node> {
    let mut alts: Vec<(u32, BoxedStrategy<Node>)> = vec![(6, text_node(cfg))];
    if cfg.comments {
        alts.push((1, prop_oneof![Just(" c "), Just("x"), Just("<view>"), Just("{{a}}"), Just(""), Just(" l1\n\u{1f600} l2 "), Just("\r\n\u{1d4b3}")].prop_map(|s: &str| Node::Comment(s.to_string())).boxed()));
    }
    if cfg.tis {
        let e = gexpr::expr(&cfg.expr);
        let is = prop_oneof![
            4 => pick(TEMPLATE_NAMES).prop_map(Val::Static),
            1 => (pick(TEMPLATE_NAMES), pick(TEMPLATE_NAMES), gexpr::ident_name(&cfg.expr)).prop_map(|(a, b, c)| Val::Bind(Expr::Cond(Box::new(Expr::Ident(c)), Box::new(Expr::Str(a)), Box::new(Expr::Str(b))))),
            // a name that evaluates to the empty string / an unknown name instantiates nothing
            1 => (pick(TEMPLATE_NAMES), gexpr::ident_name(&cfg.expr), any::<bool>(), prop_oneof![Just(""), Just("nope")]).prop_map(|(a, c, swap, other)| {
                let (x, y) = if swap { (Expr::Str(other.to_string()), Expr::Str(a)) } else { (Expr::Str(a), Expr::Str(other.to_string())) };
                Val::Bind(Expr::Cond(Box::new(Expr::Ident(c)), Box::new(x), Box::new(y)))
            }),
        ];
        let key = prop_oneof![Just("a"), Just("b"), Just("c"), Just("item"), Just("list"), Just("x")].prop_map(|s: &str| s.to_string());
        let item = prop_oneof![
            4 => (key, e.clone()).prop_map(|(k, v)| ObjItem::KV(k, v)),
            3 => gexpr::ident_name(&cfg.expr).prop_map(ObjItem::Short),
            2 => e.clone().prop_map(ObjItem::Spread),
        ];
        let lit_item = prop_oneof![(prop_oneof![Just("a"), Just("b"), Just("c"), Just("item"), Just("x")].prop_map(|s: &str| s.to_string()), e.clone()).prop_map(|(k, v)| ObjItem::KV(k, v)), gexpr::ident_name(&cfg.expr).prop_map(ObjItem::Short)];
        let obj_lit = proptest::collection::vec(lit_item, 1..3).prop_map(|items| {
            let mut seen = std::collections::HashSet::new();
            Expr::Obj(items.into_iter().filter(|it| match it { ObjItem::KV(k, _) | ObjItem::Short(k) => seen.insert(k.clone()), ObjItem::Spread(_) => true }).collect())
        });
        let data = proptest::option::weighted(
            0.8,
            proptest::collection::vec(item, 1..4).prop_map(|items| {
                let mut seen = std::collections::HashSet::new();
                items
                    .into_iter()
                    .filter(|it| match it {
                        ObjItem::KV(k, _) | ObjItem::Short(k) => seen.insert(k.clone()),
                        ObjItem::Spread(_) => true,
                    })
                    .collect::<Vec<_>>()
            }),
        );
        // the data object given by one expression (always an object value: `obj` is one in every data environment)
        let data_expr = prop_oneof![
            Just(Expr::Paren(Box::new(Expr::ident("obj")))),
            gexpr::ident_name(&cfg.expr).prop_map(|c| Expr::Cond(Box::new(Expr::Ident(c)), Box::new(Expr::ident("obj")), Box::new(Expr::Paren(Box::new(Expr::ident("obj")))))),
            // object literals behind a conditional: their update-path trees are template-data trees, not binding marks
            (gexpr::ident_name(&cfg.expr), obj_lit.clone(), obj_lit.clone()).prop_map(|(c, a, b)| Expr::Cond(Box::new(Expr::Ident(c)), Box::new(a), Box::new(b))),
            (gexpr::ident_name(&cfg.expr), obj_lit.clone()).prop_map(|(c, a)| Expr::Cond(Box::new(Expr::Ident(c)), Box::new(a), Box::new(Expr::ident("obj")))),
        ];
        alts.push((
            2,
            (is, data, proptest::option::weighted(0.25, data_expr))
                .prop_map(|(is, data, de)| match de {
                    Some(e) => Node::Tis(Tis { is, data: None, data_expr: Some(e) }),
                    None => Node::Tis(Tis { is, data, data_expr: None }),
                })
                .boxed(),
        ));
    }
    if cfg.include {
        alts.push((1, prop_oneof![Just("inc/a"), Just("./inc/a"), Just("/inc/a.wxml"), Just("inc/b"), Just("../inc/b")].prop_map(|s: &str| Node::Include(s.to_string())).boxed()));
    }
    if cfg.slot {
        let name = prop_oneof![3 => Just(None), 2 => Just(Some(Val::Static("s1".into()))), 1 => val(cfg).prop_map(Some)];
        let mut c2 = cfg.clone();
        c2.families = vec![AttrKind::Plain, AttrKind::Plain, AttrKind::Id, AttrKind::DataColon, AttrKind::Mark, AttrKind::Event(EvKind::Bind)];
        let attrs = proptest::collection::vec(attr(&c2), 0..3);
        alts.push((
            1,
            (name, attrs)
                .prop_map(|(name, attrs)| {
                    // `name` / `slot` / `id` ... are their own families on <slot>; plain values must avoid them
                    let attrs: Vec<Attr> = attrs.into_iter().filter(|a| !(a.kind == AttrKind::Plain && ["name", "is", "data", "src"].contains(&a.name.as_str()))).collect();
                    Node::Slot(SlotEl { name, attrs: dedup_attrs(attrs, true), slot: None, slot_refs: vec![] })
                })
                .boxed(),
        ));
    }
    proptest::strategy::Union::new_weighted(alts).boxed()
}

fn for_list(cfg: &WxmlCfg) -> BoxedStrategy<Val> {
    let e = gexpr::expr(&cfg.expr);
    prop_oneof![
        5 => Just(Val::Bind(Expr::ident("list"))),
        2 => Just(Val::Bind(Expr::ident("arr"))),
        2 => Just(Val::Bind(Expr::Member(Box::new(Expr::ident("obj")), "a".into()))),
        1 => Just(Val::Bind(Expr::ident("item"))),
        1 => Just(Val::Bind(Expr::Member(Box::new(Expr::ident("item")), "list".into()))),
        // list expressions are restricted to forms whose value is a data container / short string / small count:
        // an arbitrary arithmetic expression can denote a count of billions (a legal but useless template)
        1 => (gexpr::ident_name(&cfg.expr), gexpr::ident_name(&cfg.expr), gexpr::ident_name(&cfg.expr)).prop_map(|(c, a, b)| Val::Bind(Expr::Cond(Box::new(Expr::Ident(c)), Box::new(Expr::Ident(a)), Box::new(Expr::Ident(b))))),
        1 => proptest::collection::vec(e.clone(), 0..4).prop_map(|v| Val::Bind(Expr::Arr(v.into_iter().map(crate::model::expr::ArrItem::Item).collect()))),
        // an array literal with a spread in front of / between positional items (update trees consumed by position)
        1 => (proptest::collection::vec(gexpr::ident_name(&cfg.expr), 1..3), any::<bool>()).prop_map(|(tail, lead)| {
            use crate::model::expr::ArrItem;
            let mut items = vec![];
            if lead {
                items.push(ArrItem::Item(Expr::ident("a")));
            }
            // (`arr` is missing inside called templates: spread something that is always iterable)
            items.push(ArrItem::Spread(Expr::Paren(Box::new(Expr::Binary(crate::model::expr::BinOp::Or, Box::new(Expr::ident("arr")), Box::new(Expr::Arr(vec![])))))));
            items.extend(tail.into_iter().map(|t| ArrItem::Item(Expr::Ident(t))));
            Val::Bind(Expr::Arr(items))
        }),
        1 => (gexpr::ident_name(&cfg.expr), gexpr::ident_name(&cfg.expr)).prop_map(|(a, b)| Val::Bind(Expr::Index(Box::new(Expr::Ident(a)), Box::new(Expr::Ident(b))))),
        1 => Just(Val::Static("ab".into())),
        1 => Just(Val::Bind(Expr::Num("3".into()))),
    ]
    .boxed()
}

pub fn node(cfg: &WxmlCfg, depth: u32) -> BoxedStrategy<Node> {
    if depth == 0 {
        return leaf_node(cfg);
    }
    let kids = proptest::collection::vec(node(cfg, depth - 1), 0..=cfg.max_kids);
    let tag = if cfg.dyn_tags { prop_oneof![6 => pick(TAGS), 1 => Just("dyn-c".to_string())].boxed() } else { pick(TAGS) };
    let el = (tag, proptest::collection::vec(attr(cfg), 0..5), opt_slot_val(cfg), kids.clone())
        .prop_map(|(tag, attrs, slot, kids)| Node::El(El { tag, attrs: dedup_attrs(attrs, false), slot, slot_refs: vec![], kids }))
        .boxed();
    let branch = (val(cfg), kids.clone(), carrier()).prop_map(|(c, kids, carrier)| Branch { cond: Some(c), kids, carrier });
    let else_branch = (kids.clone(), carrier()).prop_map(|(kids, carrier)| Branch { cond: None, kids, carrier });
    let if_ = (proptest::collection::vec(branch, 1..4), proptest::option::of(else_branch))
        .prop_map(|(mut brs, e)| {
            if let Some(e) = e {
                brs.push(e);
            }
            Node::If(brs)
        })
        .boxed();
    let (item_names, index_names): (BoxedStrategy<String>, BoxedStrategy<String>) =
        if cfg.odd_scope_names { (prop_oneof![3 => pick(ITEM_NAMES), 1 => pick(ODD_SCOPE_NAMES)].boxed(), prop_oneof![3 => pick(INDEX_NAMES), 1 => pick(ODD_SCOPE_NAMES)].boxed()) } else { (pick(ITEM_NAMES), pick(INDEX_NAMES)) };
    let for_ = (for_list(cfg), proptest::option::weighted(0.4, item_names), proptest::option::weighted(0.4, index_names), proptest::option::weighted(0.5, pick(KEYS)), kids.clone(), carrier())
        .prop_map(|(list, item, index, key, kids, carrier)| {
            // item and index must differ (the same name twice is a shadowing of item by index; allowed but confusing — keep)
            Node::For(Box::new(ForNode { list, item, index, key, kids, carrier }))
        })
        .boxed();
    let block = (opt_slot_val(cfg), kids.clone()).prop_map(|(slot, kids)| Node::Block(BlockNode { slot, slot_refs: vec![], kids })).boxed();
    prop_oneof![
        5 => leaf_node(cfg),
        8 => el,
        3 => if_,
        3 => for_,
        1 => block,
    ]
    .boxed()
}

pub fn body(cfg: &WxmlCfg) -> BoxedStrategy<Vec<Node>> {
    proptest::collection::vec(node(cfg, cfg.depth), 1..=cfg.max_kids).prop_map(normalise_nodes).boxed()
}

pub const INLINE_SCRIPTS: &[&str] = &[
    "module.exports = { f: function (x) { return 'f:' + x }, k: 7, o: { p: [1, 2] } }",
    "exports.f = function (a, b) { return [a, b] }; exports.k = 'K'",
    "module.exports = { a: 1, b: { c: 2 }, fn: function () { return this === undefined ? 'plain' : 'method' } }",
    " exports.hi = 1 < 2 ",
    "var s = '\u{1f600}'\n/* \u{1d4b3} */ exports.hi = s /* \u{1f600} */",
    "",
];

/// A multi-file group: entry `p` plus fixed-path companions (`inc/a`, `inc/b`, `lib/t`) that `p` may include / import.
pub fn group(cfg: &WxmlCfg) -> BoxedStrategy<Group> {
    let mut inner = cfg.clone();
    inner.depth = cfg.depth.saturating_sub(1);
    inner.include = false; // no include cycles: companions do not include
    let mut named_cfg = inner.clone();
    named_cfg.tis = false; // no template recursion: named bodies do not instantiate templates
    let named = |c: &WxmlCfg| proptest::collection::vec((pick(TEMPLATE_NAMES), body(c)), 0..3);
    let wxs = if cfg.wxs {
        proptest::collection::vec(
            (pick(MODULE_NAMES), 0..INLINE_SCRIPTS.len(), any::<bool>()).prop_map(|(m, i, r)| if r { Wxs::Ref { module: m, src: "/lib/s".into() } } else { Wxs::Inline { module: m, js: INLINE_SCRIPTS[i].to_string() } }),
            0..3,
        )
        .boxed()
    } else {
        Just(vec![]).boxed()
    };
    let imports = proptest::collection::vec(prop_oneof![Just("lib/t"), Just("/lib/t.wxml"), Just("./lib/u"), Just("lib/u")].prop_map(|s: &str| s.to_string()), 0..5);
    let slot_refs = cfg.slot_refs;
    (body(cfg), named(&named_cfg), wxs, imports, body(&inner), body(&inner), named(&named_cfg), named(&named_cfg), any::<u64>())
        .prop_map(move |(body, named, wxs, imports, inc_a, inc_b, lib_t, lib_u, deco)| {
            let (mut body, mut inc_a, mut inc_b) = (body, inc_a, inc_b);
            if slot_refs {
                let mut rng = crate::util::Rng::new(deco | 1);
                add_slot_refs(&mut body, &mut rng);
                add_slot_refs(&mut inc_a, &mut rng);
                add_slot_refs(&mut inc_b, &mut rng);
                // (the added reads may stand next to an existing text node: one text node in the printed source)
                inc_a = normalise_nodes(inc_a);
                inc_b = normalise_nodes(inc_b);
            }
            let dedup_named = |v: Vec<(String, Vec<Node>)>| {
                let mut seen = std::collections::HashSet::new();
                v.into_iter().filter(|(n, _)| seen.insert(n.clone())).collect::<Vec<_>>()
            };
            let mut seen = std::collections::HashSet::new();
            let wxs: Vec<Wxs> = wxs.into_iter().filter(|w| seen.insert(w.module().to_string())).collect();
            // every declared module is read somewhere (a member that tells the module bodies apart)
            let mut body = body;
            for w in &wxs {
                let m = Expr::Ident(w.module().to_string());
                body.push(Node::Text(vec![
                    Piece::Lit("#".into()),
                    Piece::Bind(Expr::Member(Box::new(m.clone()), "k".into())),
                    Piece::Bind(Expr::Call(Box::new(Expr::Member(Box::new(m.clone()), "f".into())), vec![Expr::Num("1".into())])),
                    Piece::Bind(Expr::Member(Box::new(m), "hi".into())),
                ]));
            }
            let body = normalise_nodes(body);
            let mut files = vec![Tmpl { path: "p".into(), imports, wxs, named: dedup_named(named), body }];
            files.push(Tmpl { path: "inc/a".into(), body: inc_a, ..Default::default() });
            files.push(Tmpl { path: "inc/b".into(), body: inc_b, ..Default::default() });
            files.push(Tmpl { path: "lib/t".into(), named: dedup_named(lib_t), ..Default::default() });
            files.push(Tmpl { path: "lib/u".into(), named: dedup_named(lib_u), ..Default::default() });
            Group { files, scripts: vec![Script { path: "lib/s".into(), js: "module.exports = { f: function (x) { return 'S:' + x }, k: 'SK', a: { b: 1 } }".into(), requires: vec![] }] }
        })
        .boxed()
}

/// Decorate children of elements with `slot:name` / `slot:name="alias"` value references (compile-only checks: the stub
/// DOM has no dynamic slots, so rendering checks do not use this).
pub fn add_slot_refs(nodes: &mut Vec<Node>, rng: &mut crate::util::Rng) {
    const NAMES: &[&str] = &["sa", "sb", "s-c", "sd", "item"];
    for n in nodes.iter_mut() {
        if let Node::El(e) = n {
            let decorate = rng.chance(1, 2);
            for k in e.kids.iter_mut() {
                let refs = match k {
                    Node::El(c) => Some(&mut c.slot_refs),
                    Node::Block(b) => Some(&mut b.slot_refs),
                    _ => None,
                };
                let mut declared: Vec<String> = vec![];
                if let (true, Some(refs)) = (decorate, refs) {
                    let cnt = 1 + rng.below(3) as usize;
                    for _ in 0..cnt {
                        let name = NAMES[rng.below(NAMES.len() as u64) as usize].to_string();
                        if refs.iter().any(|r: &SlotRef| r.name == name) {
                            continue;
                        }
                        let alias = if rng.chance(1, 3) { Some(format!("al{}", rng.below(3))) } else { None };
                        let r = SlotRef { name, alias };
                        declared.push(r.scope_name());
                        refs.push(r);
                    }
                }
                // the declared values are read: directly under the declaring node and one element level deeper
                if !declared.is_empty() {
                    let reads = |names: &[String]| {
                        let mut ps = vec![Piece::Lit("[".into())];
                        for n in names {
                            ps.push(Piece::Bind(Expr::Ident(n.clone())));
                            ps.push(Piece::Lit("|".into()));
                        }
                        Node::Text(ps)
                    };
                    let kids = match k {
                        Node::El(c) => Some(&mut c.kids),
                        Node::Block(b) => Some(&mut b.kids),
                        _ => None,
                    };
                    if let Some(kids) = kids {
                        if let Some(Node::El(g)) = kids.iter_mut().find(|x| matches!(x, Node::El(_))) {
                            g.kids.push(reads(&declared));
                        } else if rng.chance(1, 2) {
                            kids.push(Node::El(El { tag: "text".into(), attrs: vec![], slot: None, slot_refs: vec![], kids: vec![reads(&declared)] }));
                        }
                        kids.push(reads(&declared));
                    }
                }
            }
            add_slot_refs(&mut e.kids, rng);
        } else if let Node::For(f) = n {
            add_slot_refs(&mut f.kids, rng);
        } else if let Node::If(bs) = n {
            for b in bs.iter_mut() {
                add_slot_refs(&mut b.kids, rng);
            }
        }
    }
}
