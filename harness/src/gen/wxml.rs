//! (filled in with the WXML grammar generators)
