//! proptest strategies for the supported expression grammar.

use crate::model::expr::{ArrItem, BinOp, Expr, ObjItem, UnOp};
use proptest::prelude::*;

pub const DATA_IDENTS: &[&str] = &["a", "b", "c", "d", "e", "f", "list", "obj", "item", "index", "idx", "it", "k", "m", "mod", "arr", "fn", "inc", "self", "id"];
pub const CTOR_IDENTS: &[&str] = &["Arr", "Obj", "Fn"];
pub const MEMBER_NAMES: &[&str] = &["a", "b", "c", "length", "x", "id", "v", "list", "fn", "self", "k0", "$x", "_y"];
pub const FN_IDENTS: &[&str] = &["fn", "inc", "self", "id"];

pub const NUM_LITS: &[&str] = &[
    "0", "1", "2", "3", "7", "10", "255", "1024", "0x1F", "0xff", "0x0", "017", "0777", "08", "09", "0.5", ".5", "5.", "1.5", "3.14159", "1e3", "1e21", "1e308",
    "1e-7", "2.5e-3", "4294967296", "2147483648", "9007199254740993", "123456789012345678",
];
/// literals that reach listed findings (i64 overflow, non-finite floats); drawn only when the switch allows
pub const NUM_LITS_EDGE: &[&str] = &["1e999", "9223372036854775807", "9223372036854775808", "99999999999999999999", "0x7fffffffffffffff", "0xffffffffffffffff", "01777777777777777777777"];

#[derive(Clone, Debug)]
pub struct ExprCfg {
    pub depth: u32,
    pub edge_numbers: bool,
    pub calls: bool,
    pub literals_obj_arr: bool,
    pub rich_strings: bool,
    pub idents: Vec<&'static str>,
    /// `x instanceof Ctor` (needs the constructor fields in the data object: not available inside `<template data>` bodies)
    pub instanceof: bool,
    /// `[...arr]` with the always-array data field as operand
    pub spread_ident: bool,
    /// only small number literals (a value may end up as a `wx:for` count)
    pub small_numbers: bool,
}

impl ExprCfg {
    pub fn new(depth: u32) -> Self {
        ExprCfg { depth, edge_numbers: true, calls: true, literals_obj_arr: true, rich_strings: true, idents: DATA_IDENTS.to_vec(), instanceof: true, spread_ident: true, small_numbers: false }
    }
}

pub fn ident_name(cfg: &ExprCfg) -> BoxedStrategy<String> {
    let ids = cfg.idents.clone();
    (0..ids.len()).prop_map(move |i| ids[i].to_string()).boxed()
}

pub fn string_value(rich: bool) -> BoxedStrategy<String> {
    if !rich {
        return prop_oneof![4 => Just("".to_string()), 4 => Just("a".to_string()), 4 => Just("ab".to_string()), 4 => Just("0".to_string()), 4 => Just(" ".to_string()), 1 => Just("a\nb".to_string())].boxed();
    }
    let palette: Vec<char> = vec![
        'a', 'b', 'Z', '0', '7', ' ', '\'', '"', '\\', '{', '}', '<', '>', '&', ';', '\n', '\t', '\r', '\u{0}', '\u{1}', '\u{7f}', '\u{a0}', 'é', '中', '😀', '\u{2028}',
        '\u{2029}', '\u{feff}', '/', '*', '-', '$', '`',
    ];
    prop_oneof![
        4 => Just("".to_string()),
        4 => Just("a".to_string()),
        2 => Just("0".to_string()),
        2 => Just("ab".to_string()),
        6 => proptest::collection::vec(0..palette.len(), 0..6).prop_map(move |ix| ix.into_iter().map(|i| palette[i]).collect::<String>()),
    ]
    .boxed()
}

fn leaf(cfg: &ExprCfg) -> BoxedStrategy<Expr> {
    let nums: Vec<&'static str> = if cfg.small_numbers {
        vec!["0", "1", "2", "3", "0.5", ".5", "1.5", "08", "0x2", "03", "2.", "1e0", "5e-1"]
    } else if cfg.edge_numbers { NUM_LITS.iter().chain(NUM_LITS_EDGE.iter()).copied().collect() } else { NUM_LITS.to_vec() };
    prop_oneof![
        8 => ident_name(cfg).prop_map(Expr::Ident),
        3 => (0..nums.len()).prop_map(move |i| Expr::Num(nums[i].to_string())),
        3 => string_value(cfg.rich_strings).prop_map(Expr::Str),
        1 => Just(Expr::Undefined),
        1 => Just(Expr::Null),
        1 => any::<bool>().prop_map(Expr::Bool),
    ]
    .boxed()
}

fn unop() -> impl Strategy<Value = UnOp> {
    (0..UnOp::ALL.len()).prop_map(|i| UnOp::ALL[i])
}

fn binop_no_instanceof(small: bool) -> BoxedStrategy<BinOp> {
    // with `small_numbers` the value may become a wx:for count: no operator that can turn small operands into billions
    let ops: Vec<BinOp> = BinOp::ALL.iter().copied().filter(|o| *o != BinOp::InstanceOf && !(small && matches!(o, BinOp::Shl | BinOp::UShr))).collect();
    (0..ops.len()).prop_map(move |i| ops[i]).boxed()
}

pub fn expr(cfg: &ExprCfg) -> BoxedStrategy<Expr> {
    expr_at(cfg, cfg.depth)
}

fn expr_at(cfg: &ExprCfg, depth: u32) -> BoxedStrategy<Expr> {
    if depth == 0 {
        return leaf(cfg);
    }
    let sub = expr_at(cfg, depth - 1);
    let sub2 = sub.clone();
    let c = cfg.clone();
    let mut alts: Vec<(u32, BoxedStrategy<Expr>)> = vec![
        (6, leaf(cfg)),
        (3, (unop(), sub.clone()).prop_map(|(o, a)| Expr::Unary(o, Box::new(a))).boxed()),
        (8, (binop_no_instanceof(c.small_numbers), sub.clone(), sub.clone()).prop_map(|(o, a, b)| Expr::Binary(o, Box::new(a), Box::new(b))).boxed()),
        (
            if c.instanceof { 1 } else { 0 },
            (sub.clone(), 0..CTOR_IDENTS.len(), any::<bool>())
                .prop_map(|(a, i, p)| {
                    let r = Expr::ident(CTOR_IDENTS[i]);
                    let r = if p { Expr::Paren(Box::new(r)) } else { r };
                    Expr::Binary(BinOp::InstanceOf, Box::new(a), Box::new(r))
                })
                .boxed(),
        ),
        (3, (sub.clone(), sub.clone(), sub.clone()).prop_map(|(a, b, c)| Expr::Cond(Box::new(a), Box::new(b), Box::new(c))).boxed()),
        (4, (sub.clone(), 0..MEMBER_NAMES.len()).prop_map(|(a, i)| Expr::Member(Box::new(a), MEMBER_NAMES[i].to_string())).boxed()),
        (3, (sub.clone(), sub.clone()).prop_map(|(a, b)| Expr::Index(Box::new(a), Box::new(b))).boxed()),
        (2, sub.clone().prop_map(|a| Expr::Paren(Box::new(a))).boxed()),
    ];
    if c.calls {
        let callee = prop_oneof![
            3 => (0..FN_IDENTS.len()).prop_map(|i| Expr::ident(FN_IDENTS[i])),
            1 => (0..FN_IDENTS.len()).prop_map(|i| Expr::Member(Box::new(Expr::ident("obj")), FN_IDENTS[i].to_string())),
            1 => sub2.clone(),
        ];
        alts.push((3, (callee, proptest::collection::vec(sub.clone(), 0..3)).prop_map(|(f, args)| Expr::Call(Box::new(f), args)).boxed()));
    }
    if c.literals_obj_arr {
        let lit_arr = proptest::collection::vec(sub.clone(), 0..3).prop_map(|v| Expr::Arr(v.into_iter().map(ArrItem::Item).collect()));
        let spread_operand: BoxedStrategy<Expr> = if c.spread_ident { prop_oneof![2 => Just(Expr::ident("arr")), 1 => lit_arr].boxed() } else { lit_arr.boxed() };
        let arr_item = prop_oneof![
            5 => sub.clone().prop_map(ArrItem::Item),
            2 => Just(ArrItem::Hole),
            2 => spread_operand.prop_map(ArrItem::Spread),
        ];
        alts.push((3, proptest::collection::vec(arr_item, 0..4).prop_map(Expr::Arr).boxed()));
        // runs of holes in front of / between items (`[, , x]`, `[x, , , y]`): every element behind a run is still visited
        alts.push((
            1,
            (proptest::option::of(sub.clone()), 2usize..4, sub.clone(), any::<bool>())
                .prop_map(|(lead, holes, item, trailing)| {
                    let mut v = vec![];
                    if let Some(l) = lead {
                        v.push(ArrItem::Item(l));
                    }
                    for _ in 0..holes {
                        v.push(ArrItem::Hole);
                    }
                    v.push(ArrItem::Item(item));
                    if trailing {
                        v.push(ArrItem::Hole);
                    }
                    Expr::Arr(v)
                })
                .boxed(),
        ));
        let key = prop_oneof![Just("a"), Just("b"), Just("k"), Just("x"), Just("item"), Just("index"), Just("$k"), Just("length")].prop_map(|s: &str| s.to_string());
        let short = ident_name(cfg);
        let obj_item = prop_oneof![
            5 => (key, sub.clone()).prop_map(|(k, v)| ObjItem::KV(k, v)),
            2 => short.prop_map(ObjItem::Short),
            2 => sub.clone().prop_map(ObjItem::Spread),
        ];
        alts.push((
            3,
            proptest::collection::vec(obj_item, 0..4)
                .prop_map(|items| {
                    // duplicate keys produce a Note-level diagnostic and are JS-legal; keep the first spelling unique to stay in "documented syntax"
                    let mut seen = std::collections::HashSet::new();
                    let items = items
                        .into_iter()
                        .filter(|it| match it {
                            ObjItem::KV(k, _) | ObjItem::Short(k) => seen.insert(k.clone()),
                            ObjItem::Spread(_) => true,
                        })
                        .collect();
                    Expr::Obj(items)
                })
                .boxed(),
        ));
    }
    let total: Vec<(u32, BoxedStrategy<Expr>)> = alts.into_iter().filter(|(w, _)| *w > 0).collect();
    proptest::strategy::Union::new_weighted(total).boxed()
}
