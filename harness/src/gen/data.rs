//! Data environments: a pool of edge values, nested containers and pool functions under names that collide with
//! the scope names templates introduce.

use crate::model::data::JsVal;
use proptest::prelude::*;

pub fn scalar() -> BoxedStrategy<JsVal> {
    prop_oneof![
        Just(JsVal::Num("0".into())),
        Just(JsVal::Num("-0".into())),
        Just(JsVal::Num("1".into())),
        Just(JsVal::Num("-1".into())),
        Just(JsVal::Num("2".into())),
        Just(JsVal::Num("3".into())),
        Just(JsVal::Num("NaN".into())),
        Just(JsVal::Num("Infinity".into())),
        Just(JsVal::Num("1.5".into())),
        Just(JsVal::Str("".into())),
        Just(JsVal::Str("0".into())),
        Just(JsVal::Str("a".into())),
        Just(JsVal::Str("ab".into())),
        Just(JsVal::Str(" ".into())),
        Just(JsVal::Null),
        Just(JsVal::Undefined),
        Just(JsVal::Bool(true)),
        Just(JsVal::Bool(false)),
    ]
    .boxed()
}

pub fn value(depth: u32) -> BoxedStrategy<JsVal> {
    if depth == 0 {
        return scalar();
    }
    let sub = value(depth - 1);
    let key = prop_oneof![Just("a"), Just("b"), Just("c"), Just("x"), Just("id"), Just("v"), Just("length"), Just("list"), Just("k0")].prop_map(|s: &str| s.to_string());
    prop_oneof![
        6 => scalar(),
        2 => proptest::collection::vec(sub.clone(), 0..4).prop_map(JsVal::Arr),
        2 => proptest::collection::vec((key, sub.clone()), 0..4).prop_map(|kv| {
            let mut seen = std::collections::HashSet::new();
            JsVal::Obj(kv.into_iter().filter(|(k, _)| seen.insert(k.clone())).collect())
        }),
        1 => keyed_list(),
    ]
    .boxed()
}

/// `[{id, v, ...}]` with unique ids
pub fn keyed_list() -> BoxedStrategy<JsVal> {
    proptest::collection::vec((0u8..6, scalar()), 0..5)
        .prop_map(|items| {
            let mut seen = std::collections::HashSet::new();
            JsVal::Arr(
                items
                    .into_iter()
                    .filter(|(id, _)| seen.insert(*id))
                    .map(|(id, v)| JsVal::Obj(vec![("id".into(), JsVal::Num(id.to_string())), ("v".into(), v)]))
                    .collect(),
            )
        })
        .boxed()
}

pub const FIELD_NAMES: &[&str] = &["a", "b", "c", "d", "e", "f", "list", "obj", "item", "index", "idx", "it", "k", "m", "mod"];

/// A data object: every pool field gets a value (possibly `undefined` by omission), plus the fixed helpers.
pub fn data_env(depth: u32) -> BoxedStrategy<JsVal> {
    let fields: Vec<BoxedStrategy<Option<JsVal>>> = FIELD_NAMES.iter().map(|_| prop_oneof![1 => Just(None), 6 => value(depth).prop_map(Some)].boxed()).collect();
    (fields, proptest::collection::vec(value(1), 0..4), value(depth)).prop_map(|(vals, arr, objv)| {
        let mut items: Vec<(String, JsVal)> = vec![];
        for (n, v) in FIELD_NAMES.iter().zip(vals) {
            if let Some(v) = v {
                items.push((n.to_string(), v));
            }
        }
        finish_env(&mut items, arr, objv);
        JsVal::Obj(items)
    })
    .boxed()
}

pub fn finish_env(items: &mut Vec<(String, JsVal)>, arr: Vec<JsVal>, objv: JsVal) {
    // `arr` is always an array (operand of array spreads), `obj` always an object with function members
    items.retain(|(k, _)| k != "arr" && k != "obj");
    items.push(("arr".into(), JsVal::Arr(arr)));
    items.push((
        "obj".into(),
        JsVal::Obj(vec![
            ("a".into(), objv),
            ("fn".into(), JsVal::Pool("fn".into())),
            ("inc".into(), JsVal::Pool("inc".into())),
            ("self".into(), JsVal::Pool("self".into())),
            ("id".into(), JsVal::Pool("id".into())),
            ("x".into(), JsVal::Num("7".into())),
        ]),
    ));
    for f in ["fn", "inc", "self", "id", "Arr", "Obj", "Fn"] {
        items.retain(|(k, _)| k != f);
        items.push((f.to_string(), JsVal::Pool(f.to_string())));
    }
}
