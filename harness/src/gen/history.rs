//! Data histories D0, (D1,U1) ... (Dn,Un): edits are generated as plain values and interpreted against the current
//! data (so the whole history shrinks as one value); update-path trees are built from the actual diff and are asserted
//! to cover it.

use crate::model::data::JsVal;
use proptest::prelude::*;
use serde::{Deserialize, Serialize};
use serde_json::{json, Map, Value};
use std::collections::BTreeMap;

#[derive(Clone, Debug, Serialize, Deserialize, PartialEq)]
pub struct Edit {
    /// selects the target among the enumerated paths of the current data (monotonic mapping)
    pub sel: u32,
    pub kind: u8,
    pub val: JsVal,
    pub aux: u32,
}

#[derive(Clone, Debug, Serialize, Deserialize, PartialEq)]
pub struct Step {
    pub edits: Vec<Edit>,
    /// 0 exact, 1 coarsened, 2 extra marks, 3 `true`, 4 coarsened + extra, 5 splice-shaped, covering (single array edit; else exact),
    /// 6 splice-shaped exactly as `tmpl/index.ts` builds it (only for templates reading the array through `wx:for` alone),
    /// 7 top-level fields of the diff
    pub tree_style: u8,
    pub coarsen: Vec<(u32, u32)>,
    pub extra: Vec<Vec<u8>>,
}

/// What the owner of a dynamic-slot component does to its slots during a step (js/worker.mjs `planSlotOps`):
/// kind 0 set a slot value, 1 remove a slot, 2 insert a slot, 3 rename a slot, 4 remove two slots in one call.
#[derive(Clone, Debug, Serialize, Deserialize, PartialEq)]
pub struct SlotOp {
    pub kind: u8,
    pub sel: u32,
    pub name: u8,
    pub val: JsVal,
    /// kind 0: apply at once (`applySlotValueUpdates`) instead of with the batch; 1/4: reversed order; 2: append
    pub flag: bool,
    /// before the parent's update (else after it)
    pub before: bool,
}

impl SlotOp {
    pub fn to_json(&self) -> serde_json::Value {
        json!({"kind": self.kind, "sel": self.sel, "name": self.name, "val": self.val.to_js(), "flag": self.flag, "before": self.before})
    }
}

pub fn slot_op() -> BoxedStrategy<SlotOp> {
    (prop_oneof![6 => Just(0u8), 1 => Just(1u8), 2 => Just(2u8), 1 => Just(3u8), 1 => Just(4u8)], 0u32..12, 0u8..7, super::data::value(1), any::<bool>(), any::<bool>())
        .prop_map(|(kind, sel, name, val, flag, before)| SlotOp { kind, sel, name, val, flag, before })
        .boxed()
}

/// per step: mostly none
pub fn slot_ops(max_steps: usize) -> BoxedStrategy<Vec<Vec<SlotOp>>> {
    proptest::collection::vec(prop_oneof![2 => Just(vec![]), 3 => proptest::collection::vec(slot_op(), 1..4)], max_steps).boxed()
}

pub const HELPER_FIELDS: &[&str] = &["fn", "inc", "self", "id", "Arr", "Obj", "Fn", "obj", "arr"];

pub fn edit() -> BoxedStrategy<Edit> {
    (any::<u32>(), 0u8..14, super::data::value(1), any::<u32>()).prop_map(|(sel, kind, val, aux)| Edit { sel, kind, val, aux }).boxed()
}

pub fn step() -> BoxedStrategy<Step> {
    (
        proptest::collection::vec(edit(), 1..4),
        prop_oneof![4 => Just(0u8), 3 => Just(1u8), 2 => Just(2u8), 1 => Just(3u8), 1 => Just(4u8), 3 => Just(5u8)],
        proptest::collection::vec((any::<u32>(), any::<u32>()), 0..3),
        proptest::collection::vec(proptest::collection::vec(0u8..12, 1..4), 0..3),
    )
        .prop_map(|(edits, tree_style, coarsen, extra)| Step { edits, tree_style, coarsen, extra })
        .boxed()
}

/// Steps that set one (sometimes two) top-level fields and report them as such — the shape of a plain `setData({f: v})`,
/// which the template engine dispatches to the binding-map updaters when the field is advertised.
pub fn step_top_fields() -> BoxedStrategy<Step> {
    (proptest::collection::vec((any::<u32>(), prop_oneof![3 => Just(0u8), 1 => Just(1u8)], super::data::value(1), any::<u32>()).prop_map(|(sel, kind, val, aux)| Edit { sel, kind, val, aux }), 1..3), prop_oneof![4 => Just(1usize), 1 => Just(2usize)], prop_oneof![5 => Just(7u8), 1 => Just(0u8)])
        .prop_map(|(mut edits, n, tree_style)| {
            edits.truncate(n);
            Step { edits, tree_style, coarsen: vec![], extra: vec![] }
        })
        .boxed()
}

/// Steps for templates that read their arrays through `wx:for` only: mostly one edit, mostly the `index.ts` splice tree.
pub fn step_splice() -> BoxedStrategy<Step> {
    (proptest::collection::vec(edit(), 1..3), prop_oneof![5 => Just(6u8), 2 => Just(5u8), 1 => Just(0u8)]).prop_map(|(edits, tree_style)| Step { edits, tree_style, coarsen: vec![], extra: vec![] }).boxed()
}

pub type Path = Vec<String>;

fn enumerate_paths(v: &JsVal, cur: &mut Path, out: &mut Vec<Path>, top: bool) {
    match v {
        JsVal::Obj(items) => {
            for (k, x) in items {
                if top && HELPER_FIELDS.contains(&k.as_str()) {
                    continue;
                }
                cur.push(k.clone());
                out.push(cur.clone());
                enumerate_paths(x, cur, out, false);
                cur.pop();
            }
        }
        JsVal::Arr(items) => {
            for (i, x) in items.iter().enumerate() {
                cur.push(i.to_string());
                out.push(cur.clone());
                enumerate_paths(x, cur, out, false);
                cur.pop();
            }
        }
        _ => {}
    }
}

fn get_mut<'a>(v: &'a mut JsVal, path: &[String]) -> Option<&'a mut JsVal> {
    if path.is_empty() {
        return Some(v);
    }
    match v {
        JsVal::Obj(items) => items.iter_mut().find(|(k, _)| *k == path[0]).and_then(|(_, x)| get_mut(x, &path[1..])),
        JsVal::Arr(items) => path[0].parse::<usize>().ok().and_then(move |i| items.get_mut(i)).and_then(|x| get_mut(x, &path[1..])),
        _ => None,
    }
}

fn remove_at(v: &mut JsVal, path: &[String]) {
    if path.is_empty() {
        return;
    }
    let (parent, last) = path.split_at(path.len() - 1);
    if let Some(p) = get_mut(v, parent) {
        match p {
            JsVal::Obj(items) => items.retain(|(k, _)| *k != last[0]),
            JsVal::Arr(items) => {
                if let Ok(i) = last[0].parse::<usize>() {
                    if i < items.len() {
                        items.remove(i);
                    }
                }
            }
            _ => {}
        }
    }
}

/// apply one edit; returns a label of what happened
pub fn apply_edit(d: &mut JsVal, e: &Edit) -> &'static str {
    let mut paths = vec![];
    enumerate_paths(d, &mut vec![], &mut paths, true);
    // top-level data fields the templates read are always candidates, present or not
    let field = super::data::FIELD_NAMES[(e.aux as usize) % super::data::FIELD_NAMES.len()];
    if paths.is_empty() || e.kind == 0 {
        d.set_field(field, e.val.clone());
        return "set-top-field";
    }
    let idx = ((e.sel as u64 * paths.len() as u64) >> 32) as usize;
    let path = paths[idx.min(paths.len() - 1)].clone();
    let target = get_mut(d, &path).map(|t| t.clone());
    let Some(target) = target else { return "noop" };
    match (e.kind, target) {
        (1, _) | (2, _) => {
            *get_mut(d, &path).unwrap() = e.val.clone();
            "replace"
        }
        (3, _) => {
            remove_at(d, &path);
            "delete"
        }
        (4, JsVal::Arr(_)) | (5, JsVal::Arr(_)) => {
            if let Some(JsVal::Arr(items)) = get_mut(d, &path) {
                items.push(e.val.clone());
            }
            "array-push"
        }
        (6, JsVal::Arr(_)) => {
            if let Some(JsVal::Arr(items)) = get_mut(d, &path) {
                items.pop();
            }
            "array-pop"
        }
        (7, JsVal::Arr(_)) => {
            if let Some(JsVal::Arr(items)) = get_mut(d, &path) {
                let at = if items.is_empty() { 0 } else { (e.aux as usize) % (items.len() + 1) };
                items.insert(at, e.val.clone());
            }
            "array-insert"
        }
        (8, JsVal::Arr(_)) => {
            if let Some(JsVal::Arr(items)) = get_mut(d, &path) {
                if !items.is_empty() {
                    let at = (e.aux as usize) % items.len();
                    items.remove(at);
                }
            }
            "array-remove"
        }
        (9, JsVal::Arr(_)) => {
            if let Some(JsVal::Arr(items)) = get_mut(d, &path) {
                if items.len() >= 2 {
                    let a = (e.aux as usize) % items.len();
                    let b = ((e.aux >> 8) as usize) % items.len();
                    items.swap(a, b);
                }
            }
            "array-swap"
        }
        (10, JsVal::Arr(_)) => {
            if let Some(JsVal::Arr(items)) = get_mut(d, &path) {
                items.reverse();
            }
            "array-reverse"
        }
        (11, JsVal::Arr(items)) => {
            // keyed insert with a fresh id
            let used: Vec<String> = items.iter().filter_map(|it| it.get_field("id").map(|v| v.to_js())).collect();
            let mut id = 0;
            while used.contains(&id.to_string()) {
                id += 1;
            }
            if let Some(JsVal::Arr(items)) = get_mut(d, &path) {
                let at = (e.aux as usize) % (items.len() + 1);
                items.insert(at, JsVal::Obj(vec![("id".into(), JsVal::Num(id.to_string())), ("v".into(), e.val.clone())]));
            }
            "keyed-insert"
        }
        (12, _) => {
            // list kind flip: array <-> object <-> string <-> count <-> null
            let nv = match e.aux % 5 {
                0 => JsVal::Arr(vec![e.val.clone(), JsVal::num(1)]),
                1 => JsVal::Obj(vec![("k0".into(), e.val.clone()), ("b".into(), JsVal::num(2))]),
                2 => JsVal::str("ab"),
                3 => JsVal::num(2),
                _ => JsVal::Null,
            };
            *get_mut(d, &path).unwrap() = nv;
            "kind-flip"
        }
        (13, JsVal::Obj(_)) => {
            if let Some(JsVal::Obj(items)) = get_mut(d, &path) {
                // re-order keys (object-lists iterate in key order) or add a key
                if items.len() >= 2 && e.aux % 2 == 0 {
                    items.reverse();
                    "object-key-reorder"
                } else {
                    let k = ["a", "b", "c", "x", "id", "v"][(e.aux as usize / 2) % 6];
                    if let Some(slot) = items.iter_mut().find(|(n, _)| n == k) {
                        slot.1 = e.val.clone();
                    } else {
                        items.push((k.to_string(), e.val.clone()));
                    }
                    "object-set-key"
                }
            } else {
                "noop"
            }
        }
        (_, _) => {
            *get_mut(d, &path).unwrap() = e.val.clone();
            "replace"
        }
    }
}

/// minimal differing paths between two data values (`length` for arrays whose length differs)
pub fn diff(a: &JsVal, b: &JsVal, cur: &mut Path, out: &mut Vec<Path>) {
    match (a, b) {
        (JsVal::Obj(x), JsVal::Obj(y)) => {
            let mut keys: Vec<&String> = x.iter().map(|(k, _)| k).chain(y.iter().map(|(k, _)| k)).collect();
            keys.sort();
            keys.dedup();
            // key order matters for object-lists (wx:for over an object iterates Object.keys): an order change is a
            // change of the whole container as far as a reader of the list is concerned
            let ox: Vec<&String> = x.iter().map(|(k, _)| k).collect();
            let oy: Vec<&String> = y.iter().map(|(k, _)| k).collect();
            if ox != oy && ox.len() == oy.len() && {
                let mut sx = ox.clone();
                let mut sy = oy.clone();
                sx.sort();
                sy.sort();
                sx == sy
            } {
                out.push(cur.clone());
                return;
            }
            for k in keys {
                let va = a.get_field(k);
                let vb = b.get_field(k);
                cur.push(k.clone());
                match (va, vb) {
                    (Some(p), Some(q)) => diff(p, q, cur, out),
                    (None, None) => {}
                    _ => out.push(cur.clone()),
                }
                cur.pop();
            }
        }
        (JsVal::Arr(x), JsVal::Arr(y)) => {
            let n = x.len().max(y.len());
            for i in 0..n {
                cur.push(i.to_string());
                match (x.get(i), y.get(i)) {
                    (Some(p), Some(q)) => diff(p, q, cur, out),
                    _ => out.push(cur.clone()),
                }
                cur.pop();
            }
            if x.len() != y.len() {
                cur.push("length".into());
                out.push(cur.clone());
                cur.pop();
            }
        }
        (p, q) => {
            if p != q {
                out.push(cur.clone());
            }
        }
    }
}

#[derive(Clone, Debug, PartialEq)]
pub enum Tree {
    True,
    Node(BTreeMap<String, Tree>),
    /// the shape `tmpl/index.ts` builds for an array splice: an object whose prototype is an array aligned with the
    /// NEW list (length `start`, then `splice(start, del, ...true x ins)`); `marks` / `length`: further indexes and the
    /// `length` key marked so that the tree covers the diff for direct readers too
    Splice { start: usize, del: usize, ins: usize, marks: Vec<usize>, length: bool },
}

impl Tree {
    pub fn empty() -> Tree {
        Tree::Node(BTreeMap::new())
    }
    pub fn mark(&mut self, path: &[String]) {
        if path.is_empty() {
            *self = Tree::True;
            return;
        }
        match self {
            Tree::True | Tree::Splice { .. } => {}
            Tree::Node(m) => m.entry(path[0].clone()).or_insert_with(Tree::empty).mark(&path[1..]),
        }
    }
    pub fn covers(&self, path: &[String]) -> bool {
        match self {
            Tree::True | Tree::Splice { .. } => true,
            Tree::Node(m) => {
                if path.is_empty() {
                    return false;
                }
                m.get(&path[0]).map(|t| t.covers(&path[1..])).unwrap_or(false)
            }
        }
    }
    pub fn to_json(&self) -> Value {
        match self {
            Tree::True => json!("T"),
            Tree::Splice { start, del, ins, marks, length } => json!({"$splice": [start, del, ins], "$marks": marks, "$length": length}),
            Tree::Node(m) => {
                let mut o = Map::new();
                for (k, v) in m {
                    // an empty inner node marks nothing
                    if let Tree::Node(inner) = v {
                        if inner.is_empty() {
                            continue;
                        }
                    }
                    o.insert(k.clone(), v.to_json());
                }
                Value::Object(o)
            }
        }
    }
}

fn get<'a>(v: &'a JsVal, path: &[String]) -> Option<&'a JsVal> {
    if path.is_empty() {
        return Some(v);
    }
    match v {
        JsVal::Obj(items) => items.iter().find(|(k, _)| *k == path[0]).and_then(|(_, x)| get(x, &path[1..])),
        JsVal::Arr(items) => path[0].parse::<usize>().ok().and_then(|i| items.get(i)).and_then(|x| get(x, &path[1..])),
        _ => None,
    }
}

fn set_at(t: &mut Tree, path: &[String], leaf: Tree) {
    if path.is_empty() {
        *t = leaf;
        return;
    }
    if let Tree::Node(m) = t {
        set_at(m.entry(path[0].clone()).or_insert_with(Tree::empty), &path[1..], leaf);
    }
}

/// If the whole difference is one contiguous change inside ONE array whose length changed (insert / remove / push /
/// pop), returns (path of the array, start, deleted, inserted).
fn splice_of(prev: &JsVal, next: &JsVal, dp: &[Path]) -> Option<(Path, usize, usize, usize)> {
    // the array is the parent of the `length` mark
    let lens: Vec<&Path> = dp.iter().filter(|p| p.last().map(|s| s == "length").unwrap_or(false)).collect();
    if lens.len() != 1 {
        return None;
    }
    let arr_path: Path = lens[0][..lens[0].len() - 1].to_vec();
    if arr_path.is_empty() || !dp.iter().all(|p| p.len() > arr_path.len() && p[..arr_path.len()] == arr_path[..]) {
        return None;
    }
    let (Some(JsVal::Arr(a)), Some(JsVal::Arr(b))) = (get(prev, &arr_path), get(next, &arr_path)) else { return None };
    let mut pre = 0;
    while pre < a.len() && pre < b.len() && a[pre] == b[pre] {
        pre += 1;
    }
    let mut suf = 0;
    while suf < a.len() - pre && suf < b.len() - pre && a[a.len() - 1 - suf] == b[b.len() - 1 - suf] {
        suf += 1;
    }
    Some((arr_path, pre, a.len() - pre - suf, b.len() - pre - suf))
}

const EXTRA_NAMES: &[&str] = &["a", "b", "c", "list", "item", "index", "obj", "0", "1", "length", "x", "id"];

pub struct Applied {
    pub data: JsVal,
    pub tree: Tree,
    pub labels: Vec<String>,
    pub diff: Vec<Path>,
}

pub fn apply_step(prev: &JsVal, s: &Step) -> Applied {
    let mut d = prev.clone();
    let mut labels = vec![];
    for e in &s.edits {
        labels.push(format!("edit:{}", apply_edit(&mut d, e)));
    }
    let mut dp = vec![];
    diff(prev, &d, &mut vec![], &mut dp);
    let mut tree = Tree::empty();
    for p in &dp {
        tree.mark(p);
    }
    let mut style = s.tree_style;
    if style == 5 || style == 6 {
        // the production shape of `spliceArrayDataOnPath`: one contiguous change of one array, everything else equal
        let sp = splice_of(prev, &d, &dp);
        match sp {
            Some((path, start, del, ins)) => {
                // index.ts marks only the inserted items; a reader of `list[i]` / `list.length` needs the shifted items
                // and the length marked as well for the tree to cover the diff (the property's precondition)
                let (old, new) = match (get(prev, &path), get(&d, &path)) {
                    (Some(JsVal::Arr(a)), Some(JsVal::Arr(b))) => (a.clone(), b.clone()),
                    _ => (vec![], vec![]),
                };
                let marks: Vec<usize> = if style == 6 { vec![] } else { (start..new.len().max(old.len())).filter(|i| old.get(*i) != new.get(*i)).collect() };
                let mut t = Tree::empty();
                set_at(&mut t, &path, Tree::Splice { start, del, ins, marks, length: style == 5 && old.len() != new.len() });
                labels.push(if style == 6 { "tree:splice-exact" } else { "tree:splice" }.into());
                return Applied { data: d, tree: t, labels, diff: dp };
            }
            None => style = 0,
        }
    }
    if style == 7 {
        // every differing path is reported as a replace of its top-level field (what `setData({f: v})` produces)
        tree = Tree::empty();
        for p in &dp {
            tree.mark(&p[..1]);
        }
        labels.push("tree:top-fields".into());
    } else {
        labels.push(format!("tree:{}", ["exact", "coarsened", "extra", "true", "coarsened+extra"][style.min(4) as usize]));
    }
    if style == 1 || style == 4 {
        for (a, b) in &s.coarsen {
            if dp.is_empty() {
                break;
            }
            let p = &dp[((*a as u64 * dp.len() as u64) >> 32) as usize];
            let cut = 1 + ((*b as u64 * p.len() as u64) >> 32) as usize;
            tree.mark(&p[..cut.min(p.len())]);
        }
    }
    if style == 2 || style == 4 {
        for ex in &s.extra {
            let p: Path = ex.iter().map(|i| EXTRA_NAMES[*i as usize % EXTRA_NAMES.len()].to_string()).collect();
            tree.mark(&p);
        }
    }
    if style == 3 {
        tree = Tree::True;
    }
    // the generator's contract: the tree covers the diff
    for p in &dp {
        assert!(tree.covers(p), "generator bug: tree does not cover {:?}", p);
    }
    if dp.is_empty() {
        labels.push("diff:empty".into());
    }
    Applied { data: d, tree, labels, diff: dp }
}
