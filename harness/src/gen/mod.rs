pub mod css;
pub mod data;
pub mod expr;
pub mod history;
pub mod soup;
pub mod wxml;
