//! Token soup and span mutations for totality / diagnostics / round-trip checks.

use proptest::prelude::*;
use serde::{Deserialize, Serialize};

pub const WXML_ALPHABET: &[&str] = &[
    "<", "</", "/>", ">", "<!--", "-->", "<!", "{{", "}}", "{", "}", "\"", "'", "=", " ", "\n", "\t", "\r\n", "view", "block", "template", "slot", "include", "import", "wxs", "div", "a:b",
    " wx:if=", " wx:elif=", " wx:else", " wx:for=", " wx:for-item=", " wx:for-index=", " wx:key=", " bind:tap=", " catch:tap=", " mut-bind:x=", " capture-bind:x=", " model:value=", " change:p=",
    " worklet:w=", " data:k=", " data-k=", " mark:m=", " generic:g=", " extra-attr:e=", " slot:s", " slot=", " name=", " is=", " data=", " src=", " module=", " class=", " style=", " id=", " wx:bad=",
    " bad:x=", "&amp;", "&lt;", "&#x41;", "&#65;", "&#x;", "&#;", "&bad;", "&#99999999;", "&#xD800;", "&", ";", "a", "item", "index", "list", "b.c", "a[0]", "f(x)", "+", "-", "*", "/", "%", "!", "~",
    "?", ":", "??", "||", "&&", "|", "^", "&", "==", "===", "!=", "!==", "<=", ">=", "<<", ">>", ">>>", " typeof ", " void ", " instanceof ", "(", ")", "[", "]", ",", "...", ".", "0", "1", "08", "0x",
    "0xg", "0x1F", "1e999", "1e", "99999999999999999999", "0777777777777777777777777", ".5", "5.", "'s'", "\"s\"", "'\\x41'", "'\\u0041'", "'\\u00'", "'\\", "/*", "*/", "true", "null", "undefined",
    "\u{85}", "\u{a0}", "\u{1680}", "\u{2000}", "\u{2028}", "\u{2029}", "\u{202f}", "\u{205f}", "\u{3000}", "\u{feff}", "中", "😀", "\u{0}", "</wxs", "</template>", "</block>", "</view>",
];

pub const WXSS_ALPHABET: &[&str] = &[
    ".", "#", "a", "b", "cls", "{", "}", "(", ")", "[", "]", ":", ";", ",", " ", "\n", "/*", "*/", "/* c */", ">", "+", "~", "*", "|", "=", "^=", "$=", "*=", "!important", "@media", "@supports", "@import",
    "@layer", "@container", "@scope", "@keyframes", "@font-face", "@page", "@charset", "@namespace", "@unknown", ":host", ":host(", ":not(", ":is(", ":where(", ":has(", "::slotted(", ":nth-child(", "of",
    "2n+1", "-n+3", "calc(", "var(", "url(", "url(\"", "rgb(", "min(", "1px", "2rpx", "-3.5rpx", "+4rpx", "1e3rpx", ".5rpx", "50%", "0", "1", "2147483647", "9999999", "1e999", "1e-999", "#fff", "#12",
    "U+0025-00FF", "U+4??", "u+1e3", "\"str\"", "'str'", "\"unterminated", "'\\", "\\", "\\41 ", "\\\n", "--custom", "color", "red", "and", "screen", "from", "to", "50%", "<!--", "-->", "\u{a0}", "中",
    "😀", "\u{0}", "\u{c}", "\r\n", "layer(", "supports(", "!", "$", "&", "@", "%",
];

#[derive(Clone, Debug, PartialEq, Serialize, Deserialize)]
pub struct Mutation {
    /// 0 delete span, 1 insert token, 2 duplicate span, 3 swap spans, 4 truncate, 5 replace span by token
    pub kind: u8,
    pub pos: u32,
    pub len: u8,
    pub tok: u16,
    pub pos2: u32,
}

pub fn mutation() -> BoxedStrategy<Mutation> {
    (0u8..6, any::<u32>(), 1u8..9, any::<u16>(), any::<u32>()).prop_map(|(kind, pos, len, tok, pos2)| Mutation { kind, pos, len, tok, pos2 }).boxed()
}

fn boundary(chars: &[char], frac: u32) -> usize {
    ((frac as u64 * (chars.len() as u64 + 1)) >> 32) as usize
}

/// Apply mutations. Spans containing ASCII digits are never duplicated (a duplicated count literal turns a legal
/// template into one that renders for minutes).
pub fn apply(src: &str, ms: &[Mutation], alphabet: &[&str]) -> String {
    let mut chars: Vec<char> = src.chars().collect();
    for m in ms {
        let p = boundary(&chars, m.pos).min(chars.len());
        let e = (p + m.len as usize).min(chars.len());
        let tok: Vec<char> = alphabet[m.tok as usize % alphabet.len()].chars().collect();
        match m.kind {
            0 => {
                chars.drain(p..e);
            }
            1 => {
                chars.splice(p..p, tok);
            }
            2 => {
                let span: Vec<char> = chars[p..e].to_vec();
                if !span.iter().any(|c| c.is_ascii_digit()) {
                    chars.splice(e..e, span);
                }
            }
            3 => {
                let q = boundary(&chars, m.pos2).min(chars.len());
                let qe = (q + m.len as usize).min(chars.len());
                if e <= q {
                    let a: Vec<char> = chars[p..e].to_vec();
                    let b: Vec<char> = chars[q..qe].to_vec();
                    if !a.iter().chain(b.iter()).any(|c| c.is_ascii_digit()) {
                        chars.splice(q..qe, a);
                        chars.splice(p..e, b);
                    }
                }
            }
            4 => {
                chars.truncate(p);
            }
            _ => {
                chars.splice(p..e, tok);
            }
        }
    }
    chars.into_iter().collect()
}

/// pure token soup
pub fn soup(alphabet: &'static [&'static str], max_tokens: usize) -> BoxedStrategy<String> {
    proptest::collection::vec(any::<u16>(), 0..max_tokens).prop_map(move |ix| ix.into_iter().map(|i| alphabet[i as usize % alphabet.len()]).collect::<String>()).boxed()
}
