//! proptest strategies for stylesheets (well-formed by construction).

use crate::model::css::*;
use proptest::prelude::*;

#[derive(Clone, Debug)]
pub struct CssCfg {
    pub depth: u32,
    pub sel_fn_depth: u32,
    pub hosts: bool,
    pub imports: bool,
    pub unicode_range: bool,
    pub big_numbers: bool,
    pub escapes: bool,
    /// `a.b` decoys in values (not inside at-rule prelude blocks, where the statement calls `.name` a class selector)
    pub dotted: bool,
}

impl CssCfg {
    pub fn new() -> Self {
        CssCfg { depth: 2, sel_fn_depth: 3, hosts: false, imports: false, unicode_range: true, big_numbers: true, escapes: true, dotted: true }
    }
}

fn pick(names: &'static [&'static str]) -> BoxedStrategy<String> {
    (0..names.len()).prop_map(move |i| names[i].to_string()).boxed()
}

pub const CLASS_NAMES: &[&str] = &["a", "b", "c", "foo", "foo-bar", "x1", "_u", "-v", "p--x", "B", "组件", "a\\b", "1a", "--x", "é", "1", "a\u{1}"];
pub const PLAIN_CLASS_NAMES: &[&str] = &["a", "b", "c", "foo", "foo-bar", "x1", "_u", "B", "组件", "é"];
pub const TYPES: &[&str] = &["div", "view", "a", "li", "*", "x-y"];
pub const IDS: &[&str] = &["i", "id1", "a-b", "fff", "7"];
pub const ATTR_NAMES: &[&str] = &["href", "data-x", "wx-host", "a"];
pub const PSEUDOS: &[&str] = &["hover", "first-child", "root", "empty"];
pub const PSEUDO_ELS: &[&str] = &["before", "after", "placeholder"];
pub const PSEUDO_FNS: &[&str] = &["not", "is", "where", "has"];
pub const NTH_NAMES: &[&str] = &["nth-child", "nth-last-child", "nth-of-type"];
pub const UNITS: &[&str] = &["px", "rpx", "em", "rem", "vw", "vh", "s", "ms", "deg", "fr", "x", "dppx", "rpxx", "Q"];
pub const PROPS: &[&str] = &["color", "width", "margin", "z-index", "font", "--x", "--my-rpx", "line-height", "transform", "content", "grid-template-columns", "unicode-range"];
pub const IDENT_VALUES: &[&str] = &["red", "auto", "solid", "inherit", "none", "bold", "a", "rpx", "calc"];
pub const FUNCS: &[&str] = &["var", "rgb", "min", "max", "translate", "f", "env", "repeat", "url2"];
pub const CALCS: &[&str] = &["calc", "calc", "calc", "clamp", "min", "CALC"];

pub fn class_name(cfg: &CssCfg) -> BoxedStrategy<String> {
    if cfg.escapes {
        pick(CLASS_NAMES)
    } else {
        pick(PLAIN_CLASS_NAMES)
    }
}

pub fn number_spelling(big: bool) -> BoxedStrategy<String> {
    let ints = prop_oneof![
        4 => (0i64..20).prop_map(|n| n.to_string()),
        2 => (0i64..2000).prop_map(|n| n.to_string()),
        1 => any::<i32>().prop_map(|n| n.to_string()),
        1 => prop_oneof![Just(2147483647i64), Just(-2147483648i64), Just(999999), Just(1000000), Just(9999999), Just(10000001), Just(16777217), Just(123456789), Just(99999), Just(100000)].prop_map(|n| n.to_string()),
    ];
    let small_ints = (0i64..2000).prop_map(|n| n.to_string());
    let decimals = (0u32..2000, 1u32..1_000_000_000u32, 1usize..9).prop_map(|(i, f, digits)| {
        let fs = format!("{:09}", f);
        let frac = fs[..digits].trim_end_matches('0');
        if frac.is_empty() {
            format!("{}.5", i)
        } else {
            format!("{}.{}", i, frac)
        }
    });
    let body = if big { prop_oneof![5 => ints, 3 => decimals, 1 => Just(".5".to_string()), 1 => Just("1e3".to_string()), 1 => Just("1.5e-2".to_string()), 1 => Just("1E2".to_string()), 1 => Just("0.0".to_string())].boxed() } else { prop_oneof![5 => small_ints, 2 => Just("1.5".to_string()), 1 => Just(".5".to_string())].boxed() };
    (body, prop_oneof![8 => Just(""), 1 => Just("-"), 1 => Just("+")]).prop_map(|(b, s)| if b.starts_with('-') { b } else { format!("{}{}", s, b) }).boxed()
}

pub fn numeric(cfg: &CssCfg) -> BoxedStrategy<VTok> {
    let n = number_spelling(cfg.big_numbers);
    prop_oneof![
        3 => n.clone().prop_map(VTok::Number),
        5 => (n.clone(), pick(UNITS)).prop_map(|(n, u)| {
            // `1e3` + a unit starting with `e`/digit would re-tokenise differently; exponent spellings only with plain units
            VTok::Dimension(n, u)
        }),
        4 => n.clone().prop_map(|n| VTok::Dimension(n, "rpx".into())),
        2 => n.prop_map(VTok::Percentage),
    ]
    .boxed()
}

pub fn string_value() -> BoxedStrategy<String> {
    prop_oneof![Just("".to_string()), Just("a".to_string()), Just("a b".to_string()), Just("it's".to_string()), Just("q\"q".to_string()), Just("*/".to_string()), Just("\\".to_string()), Just("中 😀".to_string()), Just("a\nb".to_string()), Just("1rpx .a".to_string()), Just("{".to_string()), Just("}".to_string()), Just("{{x}}".to_string()), Just("a{b;".to_string()), Just("t\tb".to_string()), Just("e\u{301}\u{200d}".to_string()), Just("\u{7f}(".to_string()), Just("C:\\s\\\"m\".css".to_string()), Just("a\"b\\c".to_string()), Just("\\\"".to_string()), Just("'\\'\"".to_string())].boxed()
}

pub fn calc_expr(cfg: &CssCfg, depth: u32) -> BoxedStrategy<CalcExpr> {
    let leaf = prop_oneof![
        5 => numeric(cfg).prop_map(CalcExpr::Leaf),
        1 => Just(CalcExpr::Leaf(VTok::Func("var".into(), vec![VTok::Ident("--x".into())]))),
        1 => Just(CalcExpr::Leaf(VTok::Ident("pi".into()))),
    ]
    .boxed();
    if depth == 0 {
        return leaf;
    }
    let sub = calc_expr(cfg, depth - 1);
    prop_oneof![
        2 => leaf,
        5 => (sub.clone(), prop_oneof![Just('+'), Just('-'), Just('*'), Just('/')], sub.clone()).prop_map(|(a, op, b)| CalcExpr::Bin(Box::new(a), op, Box::new(b))),
        2 => sub.clone().prop_map(|a| CalcExpr::Paren(Box::new(a))),
        1 => (pick(CALCS), sub).prop_map(|(n, a)| CalcExpr::Leaf(VTok::Calc(n, Box::new(a)))),
    ]
    .boxed()
}

pub fn value_tok(cfg: &CssCfg, depth: u32) -> BoxedStrategy<VTok> {
    let mut alts: Vec<(u32, BoxedStrategy<VTok>)> = vec![
        (6, numeric(cfg)),
        (4, pick(IDENT_VALUES).prop_map(VTok::Ident).boxed()),
        (1, string_value().prop_map(VTok::Str).boxed()),
        (1, prop_oneof![Just("a.png"), Just("./x/y"), Just("data:1rpx")].prop_map(|s: &str| VTok::Url(s.to_string())).boxed()),
        (1, prop_oneof![Just("fff"), Just("12"), Just("abcdef"), Just("0a0a0a80"), Just("e5")].prop_map(|s: &str| VTok::Hash(s.to_string())).boxed()),
        (1, Just(VTok::Number(".5".into())).boxed()),
    ];
    if cfg.dotted {
        alts.push((1, (pick(PLAIN_CLASS_NAMES), pick(PLAIN_CLASS_NAMES)).prop_map(|(a, b)| VTok::DottedIdent(a, b)).boxed()));
    }
    if cfg.unicode_range && depth >= 2 {
        // a unicode-range next to other value tokens (`src: x U+26 u+1F600-1F64F`): top level of a declaration value only
        alts.push((1, prop_oneof![Just("U+26"), Just("u+1F600-1F64F"), Just("U+4??"), Just("U+0-7F"), Just("U+10FFFF")].prop_map(|s: &str| VTok::UnicodeRange(s.to_string())).boxed()));
    }
    if depth > 0 {
        let sub = proptest::collection::vec(value_tok(cfg, depth - 1), 1..4);
        alts.push((2, (pick(FUNCS), sub.clone()).prop_map(|(n, a)| VTok::Func(n, sep_commas(a))).boxed()));
        alts.push((3, (pick(CALCS), calc_expr(cfg, 2)).prop_map(|(n, e)| VTok::Calc(n, Box::new(e))).boxed()));
        alts.push((1, sub.clone().prop_map(VTok::Paren).boxed()));
        alts.push((1, sub.prop_map(VTok::Square).boxed()));
    }
    proptest::strategy::Union::new_weighted(alts).boxed()
}

fn sep_commas(v: Vec<VTok>) -> Vec<VTok> {
    let mut out = vec![];
    for (i, x) in v.into_iter().enumerate() {
        if i > 0 {
            out.push(VTok::Comma);
        }
        out.push(x);
    }
    out
}

pub fn decl(cfg: &CssCfg) -> BoxedStrategy<Decl> {
    let ur = prop_oneof![Just("U+0025-00FF"), Just("U+4??"), Just("u+1e3"), Just("U+26"), Just("U+0-7F"), Just("U+1F600-1F64F"), Just("U+e??"), Just("U+10FFFF"), Just("U+100000-10FFFF"), Just("U+00004?"), Just("u+10e5??"), Just("U+10E000"), Just("U+0-10FFFF")].prop_map(|s: &str| VTok::UnicodeRange(s.to_string()));
    let normal = (pick(PROPS), proptest::collection::vec(value_tok(cfg, 2), 1..4), proptest::bool::weighted(0.1)).prop_map(|(prop, mut value, imp)| {
        if imp {
            value.push(VTok::Important);
        }
        Decl { prop, value }
    });
    if cfg.unicode_range {
        prop_oneof![12 => normal, 1 => proptest::collection::vec(ur, 1..3).prop_map(|v| Decl { prop: "unicode-range".into(), value: sep_commas(v) })].boxed()
    } else {
        normal.boxed()
    }
}

pub fn decls(cfg: &CssCfg) -> BoxedStrategy<Vec<Decl>> {
    proptest::collection::vec(decl(cfg), 0..4).boxed()
}

pub fn compound(cfg: &CssCfg, fn_depth: u32) -> BoxedStrategy<Compound> {
    let anb = prop_oneof![
        Just(vec!["2n".to_string(), "+1".to_string()]),
        Just(vec!["odd".to_string()]),
        Just(vec!["-n".to_string(), "+3".to_string()]),
        Just(vec!["5".to_string()]),
        Just(vec!["n".to_string()]),
        Just(vec!["3n".to_string()]),
        Just(vec!["-2n".to_string(), "+10".to_string()]),
    ];
    let mut simple: Vec<(u32, BoxedStrategy<Simple>)> = vec![
        (8, class_name(cfg).prop_map(Simple::Class).boxed()),
        (1, pick(IDS).prop_map(Simple::Id).boxed()),
        (
            1,
            (pick(ATTR_NAMES), proptest::option::of((prop_oneof![Just("="), Just("~="), Just("^="), Just("$="), Just("*="), Just("|=")], prop_oneof![pick(PLAIN_CLASS_NAMES).prop_map(AttrVal::Ident), string_value().prop_map(AttrVal::Str), Just(AttrVal::Str(".a".into()))])))
                .prop_map(|(name, ov)| match ov {
                    Some((op, val)) => Simple::Attr { name, op: Some(op.to_string()), val: Some(val) },
                    None => Simple::Attr { name, op: None, val: None },
                })
                .boxed(),
        ),
        (1, pick(PSEUDOS).prop_map(Simple::Pseudo).boxed()),
        (1, pick(PSEUDO_ELS).prop_map(Simple::PseudoEl).boxed()),
    ];
    if fn_depth > 0 {
        let args = proptest::collection::vec(complex(cfg, fn_depth - 1), 1..3);
        simple.push((3, (pick(PSEUDO_FNS), args.clone()).prop_map(|(name, args)| Simple::PseudoFn { name, element: false, args }).boxed()));
        simple.push((1, args.clone().prop_map(|args| Simple::PseudoFn { name: "slotted".into(), element: true, args }).boxed()));
        simple.push((1, (pick(NTH_NAMES), anb.clone(), proptest::option::of(args)).prop_map(|(name, anb, of)| Simple::Nth { name, anb, of }).boxed()));
    } else {
        simple.push((1, (pick(NTH_NAMES), anb).prop_map(|(name, anb)| Simple::Nth { name, anb, of: None }).boxed()));
    }
    let simple = proptest::strategy::Union::new_weighted(simple);
    (proptest::option::weighted(0.3, pick(TYPES)), proptest::collection::vec(simple, 0..3))
        .prop_map(|(ty, mut parts)| {
            if ty.is_none() && parts.is_empty() {
                parts.push(Simple::Class("a".into()));
            }
            // pseudo-elements last
            parts.sort_by_key(|p| matches!(p, Simple::PseudoEl(_)) as u8);
            let mut seen_el = false;
            parts.retain(|p| {
                if matches!(p, Simple::PseudoEl(_)) {
                    if seen_el {
                        return false;
                    }
                    seen_el = true;
                }
                true
            });
            Compound { ty, parts }
        })
        .boxed()
}

pub fn complex(cfg: &CssCfg, fn_depth: u32) -> BoxedStrategy<Complex> {
    let comb = prop_oneof![5 => Just(Comb::Descendant), 2 => Just(Comb::Child), 1 => Just(Comb::Next), 1 => Just(Comb::Sibling)];
    (compound(cfg, fn_depth), proptest::collection::vec((comb, compound(cfg, fn_depth)), 0..3)).prop_map(|(first, rest)| Complex { first, rest }).boxed()
}

pub fn rule(cfg: &CssCfg) -> BoxedStrategy<Node> {
    let nested = proptest::collection::vec(
        (prop_oneof![media_cond(cfg, 1).prop_map(|m| ("media".to_string(), Prelude::Media(m))), (pick(PROPS), proptest::collection::vec(numeric(cfg), 1..2)).prop_map(|(p, v)| ("supports".to_string(), Prelude::Supports(vec![SupportsCond::Decl(p, v)])))], decls(cfg)).prop_map(|((n, p), d)| (n, p, d)),
        0..2,
    );
    (proptest::collection::vec(complex(cfg, cfg.sel_fn_depth), 1..3), decls(cfg), proptest::option::weighted(0.15, nested)).prop_map(|(selectors, decls, nested)| Node::Rule(Rule { selectors, decls, nested: nested.unwrap_or_default() })).boxed()
}

pub fn media_cond(cfg: &CssCfg, depth: u32) -> BoxedStrategy<MediaCond> {
    let feature = (prop_oneof![Just("width"), Just("min-width"), Just("max-height"), Just("orientation"), Just("color")], proptest::collection::vec(numeric(cfg), 0..2))
        .prop_map(|(n, v)| MediaCond::Feature(n.to_string(), if n == "orientation" { vec![VTok::Ident("landscape".into())] } else if n == "color" { vec![] } else if v.is_empty() { vec![VTok::Dimension("1".into(), "rpx".into())] } else { v[..1].to_vec() }))
        .boxed();
    let leaf = prop_oneof![2 => prop_oneof![Just("screen"), Just("print"), Just("all")].prop_map(|s: &str| MediaCond::Ident(s.to_string())), 5 => feature.clone()].boxed();
    if depth == 0 {
        return leaf;
    }
    let sub = media_cond(cfg, depth - 1);
    prop_oneof![3 => leaf, 2 => (sub.clone(), feature.clone()).prop_map(|(a, b)| MediaCond::And(Box::new(a), Box::new(b))), 1 => feature.prop_map(|a| MediaCond::Not(Box::new(a)))].boxed()
}

pub fn node(cfg: &CssCfg, depth: u32) -> BoxedStrategy<Node> {
    let kf = (
        pick(PLAIN_CLASS_NAMES),
        proptest::collection::vec((proptest::collection::vec(prop_oneof![Just("from"), Just("to"), Just("0%"), Just("50%"), Just("100%"), Just("33.3%")].prop_map(|s: &str| s.to_string()), 1..3), decls(cfg)), 1..3),
    )
        .prop_map(|(name, frames)| Node::Keyframes { name, frames })
        .boxed();
    let declblock = prop_oneof![
        decls(cfg).prop_map(|d| Node::DeclBlock { name: "font-face".into(), prelude: vec![], decls: d }),
        decls(cfg).prop_map(|d| Node::DeclBlock { name: "page".into(), prelude: vec![], decls: d }),
    ]
    .boxed();
    let stmt = prop_oneof![
        Just(Node::Statement { name: "charset".into(), prelude: vec![VTok::Str("utf-8".into())] }),
        Just(Node::Statement { name: "namespace".into(), prelude: vec![VTok::Ident("svg".into()), VTok::Url("http://x".into())] }),
        Just(Node::Statement { name: "layer".into(), prelude: vec![VTok::Ident("a".into()), VTok::Comma, VTok::Ident("b".into())] }),
        numeric(cfg).prop_map(|n| Node::Statement { name: "unknown".into(), prelude: vec![n] }),
    ]
    .boxed();
    let mut alts: Vec<(u32, BoxedStrategy<Node>)> = vec![(10, rule(cfg)), (1, kf), (1, declblock), (1, stmt)];
    if cfg.hosts {
        alts.push((3, decls(cfg).prop_map(Node::Host).boxed()));
        alts.push((
            1,
            (proptest::option::of(complex(cfg, 0)), proptest::option::of(complex(cfg, 0)), decls(cfg))
                .prop_map(|(func_arg, rest, decls)| {
                    let (func_arg, rest) = if func_arg.is_none() && rest.is_none() { (None, Some(Complex { first: Compound { ty: None, parts: vec![Simple::Class("a".into())] }, rest: vec![] })) } else { (func_arg, rest) };
                    Node::HostCombined { func_arg, rest, decls }
                })
                .boxed(),
        ));
    }
    if depth > 0 {
        let body = proptest::collection::vec(node(cfg, depth - 1), 0..4);
        let mut pcfg = cfg.clone();
        pcfg.dotted = false;
        let pcfg = &pcfg;
        let prelude = prop_oneof![
            4 => media_cond(cfg, 1).prop_map(|m| ("media".to_string(), Prelude::Media(m))),
            2 => prop_oneof![
                (pick(PROPS), proptest::collection::vec(value_tok(pcfg, 1), 1..3)).prop_map(|(p, v)| vec![SupportsCond::Decl(p, v)]),
                proptest::collection::vec(complex(cfg, 1), 1..2).prop_map(|s| vec![SupportsCond::Selector(s)]),
                (pick(PROPS), numeric(cfg), pick(PROPS), numeric(cfg)).prop_map(|(p, v, q, w)| vec![SupportsCond::Decl(p, vec![v]), SupportsCond::And, SupportsCond::Decl(q, vec![w])]),
                // selector() tests inside parenthesised sub-conditions, negated, combined
                (proptest::collection::vec(complex(cfg, 1), 1..2), proptest::collection::vec(complex(cfg, 0), 1..2), 0u8..5).prop_map(|(a, b, shape)| match shape {
                    0 => vec![SupportsCond::Paren(vec![SupportsCond::Selector(a)])],
                    1 => vec![SupportsCond::Not, SupportsCond::Selector(a)],
                    2 => vec![SupportsCond::Paren(vec![SupportsCond::Not, SupportsCond::Selector(a)])],
                    3 => vec![SupportsCond::Paren(vec![SupportsCond::Paren(vec![SupportsCond::Selector(a)]), SupportsCond::Or, SupportsCond::Paren(vec![SupportsCond::Selector(b)])])],
                    _ => vec![SupportsCond::Paren(vec![SupportsCond::Selector(a)]), SupportsCond::And, SupportsCond::Selector(b)],
                }),
            ].prop_map(|c| ("supports".to_string(), Prelude::Supports(c))),
            2 => proptest::collection::vec(pick(PLAIN_CLASS_NAMES), 0..3).prop_map(|p| ("layer".to_string(), if p.is_empty() { Prelude::None } else { Prelude::LayerName(p) })),
            2 => (proptest::option::of(pick(PLAIN_CLASS_NAMES)), media_cond(cfg, 0)).prop_map(|(n, c)| ("container".to_string(), Prelude::Container(n, c))),
            2 => (proptest::option::of(proptest::collection::vec(complex(cfg, 1), 1..2)), proptest::option::of(proptest::collection::vec(complex(cfg, 0), 1..2))).prop_map(|(a, b)| ("scope".to_string(), Prelude::Scope(a, b))),
            1 => Just(("starting-style".to_string(), Prelude::None)),
        ];
        alts.push((4, (prelude, body).prop_map(|((name, prelude), body)| Node::Group { name, prelude, body }).boxed()));
    }
    proptest::strategy::Union::new_weighted(alts).boxed()
}

pub fn import(cfg: &CssCfg) -> BoxedStrategy<Node> {
    let path = prop_oneof![Just("./a"), Just("a/b.wxss"), Just("it's"), Just("q\"q"), Just("*/x"), Just("a b"), Just("100%"), Just("中/😀"), Just("a\\b*?"), Just("/* c */"), Just("x\ny"), Just("C:\\s\\\"m\".css"), Just("a\"b\\c"), Just("\\\"")].prop_map(|s: &str| s.to_string());
    let form = prop_oneof![
        4 => path.clone().prop_map(ImportForm::Str),
        2 => path.clone().prop_map(ImportForm::UrlFn),
        1 => (prop_oneof![Just("URL"), Just("Url"), Just("uRL")], path).prop_map(|(n, p): (&str, String)| ImportForm::UrlFnNamed(n.to_string(), p)),
        1 => prop_oneof![Just("foo.css"), Just("./a/b")].prop_map(|s: &str| ImportForm::Url(s.to_string())),
    ];
    (
        form,
        proptest::option::weighted(0.3, proptest::option::of(pick(PLAIN_CLASS_NAMES))),
        proptest::option::weighted(0.3, (pick(PROPS), proptest::collection::vec(numeric(cfg), 1..2))),
        proptest::option::weighted(0.4, media_cond(cfg, 1)),
        proptest::option::weighted(0.2, proptest::collection::vec(complex(cfg, 1), 1..3)),
        (proptest::option::weighted(0.2, (prop_oneof![Just("layer"), Just("LAYER"), Just("Layer")], proptest::option::of(media_cond(cfg, 0)))), prop_oneof![6 => Just(0u8), 1 => Just(1u8), 1 => Just(2u8)]),
    )
        .prop_map(|(form, layer, supports, media, supports_sel, (layer_media, fn_case))| {
            // `supports(selector(..))` instead of the declaration form
            let (supports, supports_sel) = if supports_sel.is_some() { (None, supports_sel) } else { (supports, None) };
            // after `layer(..)` / `supports(..)` an identifier `layer` is the first media query, not the layer keyword
            let media = match layer_media {
                Some((word, rest)) if layer.is_some() || supports.is_some() || supports_sel.is_some() => {
                    let first = MediaCond::Ident(word.to_string());
                    Some(match rest {
                        Some(r @ MediaCond::Feature(..)) => MediaCond::And(Box::new(first), Box::new(r)),
                        _ => first,
                    })
                }
                _ => media,
            };
            Node::Import(Import { form, layer, supports, media, supports_sel, fn_case })
        })
        .boxed()
}

pub fn sheet(cfg: &CssCfg) -> BoxedStrategy<Sheet> {
    let body = proptest::collection::vec(node(cfg, cfg.depth), 1..5);
    if cfg.imports {
        (proptest::collection::vec(import(cfg), 0..3), body, proptest::option::weighted(0.3, import(cfg)))
            .prop_map(|(mut head, body, tail)| {
                head.extend(body);
                if let Some(t) = tail {
                    head.push(t);
                }
                Sheet { nodes: head }
            })
            .boxed()
    } else {
        body.prop_map(|nodes| Sheet { nodes }).boxed()
    }
}
