//! Persistent node worker (one per shard). Line-delimited JSON over stdin/stdout.

use serde_json::Value;
use std::io::{BufRead, BufReader, Write};
use std::process::{Child, ChildStdin, Command, Stdio};
use std::sync::mpsc::{channel, Receiver, RecvTimeoutError};
use std::time::Duration;

pub const NODE22: &str = "/root/.nvm/versions/node/v22.22.2/bin/node";

pub struct Worker {
    child: Child,
    stdin: ChildStdin,
    lines: Receiver<std::io::Result<String>>,
    pub requests: u64,
}

/// wall-clock guard for one request: a hang of the *machinery* (exit 2 — never a violation)
pub const REQUEST_TIMEOUT_S: u64 = 120;
pub const RECYCLE_AFTER: u64 = 6000;

#[derive(Debug)]
pub struct WorkerError(pub String);

pub fn verif_root() -> String {
    std::env::var("GEV_VERIF").unwrap_or_else(|_| "/verif".to_string())
}

pub fn repo_root() -> String {
    std::env::var("GEV_REPO").unwrap_or_else(|_| "/repo".to_string())
}

impl Worker {
    pub fn spawn() -> Result<Worker, WorkerError> {
        let root = verif_root();
        let mut child = Command::new(NODE22)
            .arg("--experimental-transform-types")
            .arg("--disable-warning=ExperimentalWarning")
            .arg("--stack-size=4000")
            .arg("--import")
            .arg(format!("{}/js/loader.mjs", root))
            .arg(format!("{}/js/worker.mjs", root))
            .env("GEV_REPO", repo_root())
            .stdin(Stdio::piped())
            .stdout(Stdio::piped())
            .stderr(Stdio::inherit())
            .spawn()
            .map_err(|e| WorkerError(format!("cannot spawn node 22: {}", e)))?;
        let stdin = child.stdin.take().unwrap();
        let stdout = BufReader::new(child.stdout.take().unwrap());
        let (tx, rx) = channel();
        std::thread::spawn(move || {
            let mut stdout = stdout;
            loop {
                let mut line = String::new();
                match stdout.read_line(&mut line) {
                    Ok(0) => break,
                    Ok(_) => {
                        if tx.send(Ok(line)).is_err() {
                            break;
                        }
                    }
                    Err(e) => {
                        let _ = tx.send(Err(e));
                        break;
                    }
                }
            }
        });
        let mut w = Worker { child, stdin, lines: rx, requests: 0 };
        let pong = w.request(&serde_json::json!({"kind":"ping"}))?;
        if pong.get("ok").and_then(|x| x.as_bool()) != Some(true) {
            return Err(WorkerError(format!("bad ping response: {}", pong)));
        }
        Ok(w)
    }

    pub fn request(&mut self, req: &Value) -> Result<Value, WorkerError> {
        self.request_within(req, REQUEST_TIMEOUT_S)
    }

    /// a request that legitimately needs long (the 200 000-element size ramps of C02: ~20 MB artefacts parsed 12 times)
    pub fn request_within(&mut self, req: &Value, timeout_s: u64) -> Result<Value, WorkerError> {
        // a long-lived node process accumulates compiled code (tens of thousands of `new Function` / `vm.Script`): recycle
        // it now and then; requests are pure functions of their input, so this is invisible to the checks
        if self.requests >= RECYCLE_AFTER {
            let fresh = Worker::spawn()?;
            *self = fresh;
        }
        let mut line = serde_json::to_string(req).map_err(|e| WorkerError(e.to_string()))?;
        line.push('\n');
        self.stdin.write_all(line.as_bytes()).map_err(|e| WorkerError(format!("write to worker: {}", e)))?;
        self.stdin.flush().map_err(|e| WorkerError(format!("flush: {}", e)))?;
        let resp = match self.lines.recv_timeout(Duration::from_secs(timeout_s)) {
            Ok(Ok(l)) => l,
            Ok(Err(e)) => return Err(WorkerError(format!("read from worker: {}", e))),
            Err(RecvTimeoutError::Timeout) => {
                let _ = self.child.kill();
                return Err(WorkerError(format!("worker did not answer within {} s (killed)", timeout_s)));
            }
            Err(RecvTimeoutError::Disconnected) => return Err(WorkerError("worker closed its stdout (crashed?)".into())),
        };
        self.requests += 1;
        let v: Value = serde_json::from_str(&resp).map_err(|e| WorkerError(format!("bad worker json: {} in {}", e, crate::util::truncate(&resp, 300))))?;
        if let Some(f) = v.get("fatal") {
            return Err(WorkerError(format!("worker fatal: {}", f)));
        }
        Ok(v)
    }
}

impl Drop for Worker {
    fn drop(&mut self) {
        let _ = self.child.kill();
        let _ = self.child.wait();
    }
}
